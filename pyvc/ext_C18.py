"""C18 extensions of pyvc: library models used by the topology checkers / root repair (get_dsu, is_single_root,
link_roots_to_nearest_ and the copying wrappers).  Installed through pyvc.models.EXTRA_MODELS when contracts.C18 is
imported (vcheck imports it only for C18 and the properties that DEPEND on it).

Every model names what it assumes with used(...) so that evidence lists it under trusted_base; each one was cross-checked
against the real library on concrete inputs (tools/xcheck_C18.py).
"""
from __future__ import annotations

import numpy as np
import z3

from . import models, npmodels
from .engine import ProgExc, Unsupported
from .values import NativeMethod, Opaque, SArr, Sym, fresh, fresh_name, kind_of, to_z3, zint

I = z3.IntSort()


def used(eng, name):
    eng.assumptions.add("numpy-model:" + name)


# ------------------------------------------------------------------ np.unique
def np_unique(eng, args, kwargs):
    """np.unique(a) of a 1-D int array of symbolic length: the sorted distinct values.
    out (length m) is strictly increasing, every out[k] is a value of a (ghost witness wit(k)), every a[i] occurs
    in out (ghost position pos(i))."""
    if len(args) != 1 or kwargs or not isinstance(args[0], SArr) or args[0].kind != "int":
        raise Unsupported("np.unique form (modelled: np.unique(1-D int array))")
    a = args[0]
    used(eng, "np.unique(1-D int array): strictly increasing array of exactly the values that occur")
    out = SArr.fresh("int", name="uniq")
    tag = fresh_name("uq")
    wit, pos = z3.Function("wit_" + tag, I, I), z3.Function("pos_" + tag, I, I)
    k, k2, i = z3.Ints(f"k_{tag} k2_{tag} i_{tag}")
    n, m = a.nz(), out.nz()
    eng.assume(z3.And(m >= 0, m <= n))
    eng.assume(z3.ForAll([k], z3.Implies(z3.And(k >= 0, k < m), z3.And(wit(k) >= 0, wit(k) < n, out.get(k).z == a.get(wit(k)).z))))
    eng.assume(z3.ForAll([k, k2], z3.Implies(z3.And(k >= 0, k < k2, k2 < m), out.get(k).z < out.get(k2).z)))
    eng.assume(z3.ForAll([i], z3.Implies(z3.And(i >= 0, i < n), z3.And(pos(i) >= 0, pos(i) < m, out.get(pos(i)).z == a.get(i).z))))
    # ground INSTANCES of the three axioms above at the first positions (nothing new is assumed: they only give the
    # solver's E-matching the terms out[0], out[1], a[0] to start from -- `len(np.unique(a)) == 1` is decided by them)
    for kk in (0, 1):
        eng.assume(z3.Implies(kk < m, z3.And(wit(kk) >= 0, wit(kk) < n, out.get(kk).z == a.get(wit(kk)).z)))
    eng.assume(z3.Implies(1 < m, out.get(0).z < out.get(1).z))
    eng.assume(z3.Implies(0 < n, z3.And(pos(0) >= 0, pos(0) < m, out.get(pos(0)).z == a.get(0).z)))
    return out


# ------------------------------------------------------------------ pandas: the frame idioms of link_roots_to_nearest_
PANDAS = ("pandas-model(C18): default RangeIndex; df[bool mask] copies the selected rows keeping their index labels (= row positions); "
          ".iterrows() yields (label, row) in order; row[[c..]] / df[[c..]] select columns; DataFrame - Series aligns the Series' index "
          "with the columns (same labels required); DataFrame.to_numpy() stacks the columns; Series.iloc[k] is positional")


class Series18(SArr):
    """a column of a frame (values array + .iloc)"""

    def __pyvc_getattr__(self, eng, name):
        if name == "iloc":
            eng.assumptions.add(PANDAS)
            return SArr(self.arr, self.n, self.kind, name=self.name, dtype=self.dtype)  # Series.iloc[k] == values[k] (reads only)
        return models.method_of(eng, self, name)


class _Loc18(npmodels.DLoc):
    def __pyvc_setitem__(self, eng, key, val):
        if isinstance(key, tuple) and len(key) == 2 and isinstance(key[1], str):
            self.df.check_column_frame(eng, key[1])
        return npmodels.DLoc.__pyvc_setitem__(self, eng, key, val)


class DFrame(npmodels.DFrame):
    """the stock frame model (same class name: the engine recognises frames by it) plus boolean row selection and to_numpy.
    `frozen_cols`: columns of an input frame that the carrier must not write (a store into one of them, through df[col] = ... or
    df.loc[.., col] = ..., is a failed `frame-write` obligation, like a store into a frozen input)"""

    frozen_cols = frozenset()

    def __pyvc_snapshot__(self, memo):
        from .values import snapshot

        c = DFrame({k: snapshot(v, memo) for k, v in self.cols.items()}, self.n)
        c.uid = self.uid
        c.frozen_cols = self.frozen_cols
        return c

    def check_column_frame(self, eng, col):
        if col in self.frozen_cols and not eng.spec_mode:
            mark = len(eng.pc)
            eng.prove(eng.site("frame-write"), False, "frame", f"write to column {col!r} of the input frame (only {sorted(set(self.cols) - set(self.frozen_cols))} may be written)")
            del eng.pc[mark:]  # the failed claim is NOT assumed: the obligations that follow are proved in the state the store really produces

    def __pyvc_setitem__(self, eng, key, val):
        if isinstance(key, str):
            self.check_column_frame(eng, key)
        return npmodels.DFrame.__pyvc_setitem__(self, eng, key, val)

    def __pyvc_getitem__(self, eng, key):
        if isinstance(key, str):
            if key not in self.cols:
                raise ProgExc(KeyError, key)
            eng.assumptions.add("pandas-model:DataFrame with default RangeIndex; df[col] is the column's values")
            c = self.cols[key]
            return Series18(c.arr, c.n, c.kind, name=key, dtype=c.dtype)
        if isinstance(key, SArr) and key.kind == "bool":
            eng.assumptions.add(PANDAS)
            npmodels._len_eq(eng, SArr(key.arr, self.n, "bool"), key, "boolean row selection")
            pos = SArr(npmodels.lam(lambda i: i, "int"), self.n, "int", name="rowpos")
            flt = npmodels.mask_filter(eng, pos, key)  # ghost kappa (selected position -> row), rho (row -> selected position)
            return RowSel18({k: SArr(v.arr, v.n, v.kind, name=k) for k, v in self.cols.items()}, flt)
        if isinstance(key, models.PList) and key.items is not None:
            eng.assumptions.add(PANDAS)
            for k in key.items:
                if k not in self.cols:
                    raise ProgExc(KeyError, str(k))
            if len(set(key.items)) != len(key.items):
                raise Unsupported("column selection with a repeated label (pandas keeps both copies; the model's columns are keyed by label)")
            return DFrame({k: self.cols[k] for k in key.items}, self.n)
        return npmodels.DFrame.__pyvc_getitem__(self, eng, key)

    def __pyvc_getattr__(self, eng, name):
        if name in ("loc", "iloc", "at"):
            return _Loc18(self)
        if name == "to_numpy":
            eng.assumptions.add(PANDAS)
            return NativeMethod(lambda e, r, a, k: npmodels.stack_sarr(e, [SArr(c.arr, r.n, c.kind) for c in r.cols.values()], 1), self, name)
        if name == "copy":
            return NativeMethod(lambda e, r, a, k: DFrame({c: SArr(v.arr, v.n, v.kind, name=c, dtype=v.dtype) for c, v in r.cols.items()}, r.n), self, name)
        return npmodels.DFrame.__pyvc_getattr__(self, eng, name)

    def __pyvc_binop__(self, eng, op, a, b):
        import ast as _ast

        if a is self and isinstance(b, RowVec18) and isinstance(op, (_ast.Sub, _ast.Add)):
            eng.assumptions.add(PANDAS)
            if list(self.cols) != list(b.vals):
                raise Unsupported("DataFrame - Series with different labels (pandas would align and fill NaN)")
            return DFrame({k: npmodels.array_binop(eng, op, SArr(c.arr, self.n, c.kind), b.vals[k]) for k, c in self.cols.items()}, self.n)
        raise Unsupported("arithmetic on a DataFrame")


class RowSel18:
    """df[mask]: a copy of the selected rows (column values as they were at selection time)"""

    def __init__(self, cols, flt):
        self.cols, self.flt = cols, flt

    def __pyvc_getattr__(self, eng, name):
        if name == "iterrows":
            return NativeMethod(lambda e, r, a, k: RowIter18(r), self, name)
        raise Unsupported(f"attribute {name} of a row selection")


class Row18:
    """one row of a selection (a Series over the column labels)"""

    def __init__(self, cols, pos):
        self.cols, self.pos = cols, pos

    def __pyvc_getitem__(self, eng, key):
        if isinstance(key, str):
            return self.cols[key].get(self.pos)
        if isinstance(key, models.PList) and key.items is not None:
            if len(set(key.items)) != len(key.items):
                raise Unsupported("row selection with a repeated label")
            return RowVec18({k: self.cols[k].get(self.pos) for k in key.items})
        raise Unsupported("row subscript")


class RowVec18:
    def __init__(self, vals):
        self.vals = vals

    def __pyvc_binop__(self, eng, op, a, b):
        if isinstance(a, DFrame):
            return a.__pyvc_binop__(eng, op, a, b)
        raise Unsupported("arithmetic on a row")


class RowIter18(Opaque):
    """iterator of RowSel18.iterrows(): `start` rows have been taken by next()"""

    def __init__(self, sel):
        Opaque.__init__(self, None, {"__iter_seq__": lambda eng, v: v.seq(eng)})
        self.sel, self.start = sel, 0

    def element(self, eng, j):
        """(index label, row) of the j-th selected row"""
        pos = Sym(self.sel.flt.kappa(to_z3(j, "int")), "int")
        return (pos, Row18(self.sel.cols, pos))

    def remaining(self):
        return z3.simplify(self.sel.flt.nz() - self.start)

    def seq(self, eng):
        st = self.start
        return self.remaining(), (lambda k: self.element(eng, k.z + st))

    def __pyvc_snapshot__(self, memo):
        c = RowIter18(self.sel)
        c.start = self.start
        return c


def b_next(eng, args, kwargs):
    if len(args) == 1 and isinstance(args[0], RowIter18) and not kwargs:
        it = args[0]
        if not eng.branch(eng.sbool(it.remaining() > 0)):
            raise ProgExc(StopIteration, "next() on an exhausted iterator")
        el = it.element(eng, it.start)
        it.start += 1
        return el
    return models.BUILTIN_MODELS[next](eng, args, kwargs)


# ------------------------------------------------------------------ numpy: norm over rows, +inf masking, argmin
def np_norm(eng, args, kwargs):
    """np.linalg.norm(M, axis=1) of an (n, k) array with symbolic n: the Euclidean length of every row"""
    if len(args) == 1 and isinstance(args[0], npmodels.S2Arr) and not args[0].transposed and kwargs == {"axis": 1}:
        M = args[0]
        used(eng, "np.linalg.norm((n,k) array, axis=1): out[i] >= 0 and out[i]**2 == sum of the squares of row i (over the reals)")
        out = SArr.fresh("real", M.n, name="norm")
        i = z3.Int(fresh_name("ni"))
        sq = sum((to_z3(Sym(z3.Select(c, i), M.kind), "real") * to_z3(Sym(z3.Select(c, i), M.kind), "real") for c in M.cols), z3.RealVal(0))
        eng.assume(z3.ForAll([i], z3.Implies(z3.And(i >= 0, i < M.nz()), z3.And(out.get(i).z >= 0, out.get(i).z * out.get(i).z == sq)), patterns=[out.get(i).z]))
        out.norm_of = M  # ghost: the matrix whose row lengths these are (contracts name the components through it)
        return out
    prev = _PREV.get(np.linalg.norm)
    if prev is None:
        raise Unsupported("np.linalg.norm form")
    return prev(eng, args, kwargs)


class InfMasked18:
    """np.where(mask, +inf, data): `data` where the mask is False, +infinity elsewhere (no real value: kept symbolic)"""

    def __init__(self, mask, data):
        self.mask, self.data = mask, data
        self.idx = None

    def __pyvc_getattr__(self, eng, name):
        if name == "argmin":
            return NativeMethod(_inf_argmin, self, name)
        raise Unsupported(f"attribute {name} of an array holding +inf")

    def __pyvc_snapshot__(self, memo):
        return self


def _inf_argmin(eng, recv, args, kwargs):
    if args or kwargs:
        raise Unsupported("argmin with arguments")
    if recv.idx is not None:
        return recv.idx  # a pure function of the array: the same position every time
    mask, data = recv.mask, recv.data
    n = data.nz()
    if not eng.spec_mode and not eng.branch(eng.sbool(n > 0)):
        raise ProgExc(ValueError, "attempt to get argmin of an empty sequence")
    used(eng, "ndarray.argmin() of np.where(mask, +inf, data) over the reals: the FIRST position of the least unmasked value; position 0 when every entry is +inf")
    r = fresh("int", "argmin")
    y = z3.Int(fresh_name("y"))
    rng = z3.And(y >= 0, y < n)
    free = lambda t: z3.Not(mask.get(t).z)
    some = z3.Exists([y], z3.And(rng, free(y)))
    eng.assume(z3.And(r.z >= 0, r.z < n))
    eng.assume(z3.Implies(some, z3.And(free(r.z), z3.ForAll([y], z3.Implies(z3.And(rng, free(y)), z3.And(data.get(r.z).z <= data.get(y).z, z3.Implies(y < r.z, data.get(r.z).z < data.get(y).z)))))))
    eng.assume(z3.Implies(z3.Not(some), r.z == 0))
    recv.idx = r
    return r


def np_where(eng, args, kwargs):
    if len(args) == 3 and isinstance(args[0], SArr) and args[0].kind == "bool" and isinstance(args[1], float) and args[1] == float("inf") and isinstance(args[2], SArr):
        npmodels._len_eq(eng, args[0], args[2], "np.where")
        used(eng, "np.where(mask, +inf, data): kept as (mask, data); only argmin() is defined on it")
        return InfMasked18(args[0], args[2])
    return npmodels._np_where(eng, args, kwargs)


_PREV = {}


def install():
    from . import narr

    _PREV[np.linalg.norm] = models.EXTRA_MODELS.get(np.linalg.norm) or narr.NP_MODELS.get(np.linalg.norm)
    models.EXTRA_MODELS[np.unique] = np_unique
    models.EXTRA_MODELS[next] = b_next
    models.EXTRA_MODELS[np.linalg.norm] = np_norm
    models.EXTRA_MODELS[np.where] = np_where
