"""C18 extensions of pyvc: library models used by the topology checkers / root repair (get_dsu, is_single_root,
link_roots_to_nearest_ and the copying wrappers).  Installed through pyvc.models.EXTRA_MODELS when contracts.C18 is
imported (vcheck imports it only for C18 and the properties that DEPEND on it).

Every model names what it assumes with used(...) so that evidence lists it under trusted_base; each one was cross-checked
against the real library on concrete inputs (tools/xcheck_C18.py).
"""
from __future__ import annotations

import numpy as np
import z3

from . import models, npmodels
from .engine import ProgExc, Unsupported
from .values import NativeMethod, Opaque, SArr, Sym, fresh, fresh_name, kind_of, to_z3, zint

I = z3.IntSort()


def used(eng, name):
    eng.assumptions.add("numpy-model:" + name)


# ------------------------------------------------------------------ counting: np.unique / bincount / add.at / Counter / setdiff1d / isin / max
# Two spellings of every model fact, chosen by what is known about the LENGTHS involved without asking the solver:
#   * a length that is a z3 term without a known bound: the fact is a quantified axiom over ghost (Skolem) functions -- good for PROOFS at
#     symbolic size;
#   * a length that is a Python int, or a term with a recorded concrete upper bound (`bound`): the fact is written out position by position
#     (quantifier-free) -- on the fixed-size registrations a violated clause is then answered with a counter-model (`sat`).
# Both spellings state the same facts (cross-checked on the real library by tools/xcheck_C18.py, blocks `unique` ... `max`).
def bound(eng, a):
    """a concrete upper bound of len(a) known syntactically (concrete length, result of a model below, a slice of such), else None"""
    if isinstance(a.n, int) and not isinstance(a.n, bool):
        return a.n
    u = getattr(a, "ub", None)
    if u is not None:
        return u
    v = getattr(a, "view_of", None)
    if v is not None and isinstance(v[0], SArr):
        return bound(eng, v[0])
    hit = eng.ghost.get(("ub18", z3.simplify(a.nz()).get_id()))
    return hit[0] if hit is not None else None


def set_bound(eng, a, ub):
    a.ub = ub
    eng.ghost[("ub18", z3.simplify(a.nz()).get_id())] = (ub, a.nz())  # arrays derived elementwise share the length TERM
    return a


def FA(hi, ub, body, lo=0, patterns=None):
    """forall lo <= k < hi: body(k)"""
    if ub is None:
        k = z3.Int(fresh_name("k18"))
        kw = dict(patterns=patterns(k)) if patterns is not None else {}
        return z3.ForAll([k], z3.Implies(z3.And(k >= lo, k < hi), body(k)), **kw)
    return z3.And(*[z3.Implies(z3.IntVal(q) < hi, body(z3.IntVal(q))) for q in range(lo, ub)]) if ub > lo else z3.BoolVal(True)


def EX(hi, ub, body, lo=0):
    """exists lo <= k < hi: body(k)"""
    if ub is None:
        k = z3.Int(fresh_name("k18"))
        return z3.Exists([k], z3.And(k >= lo, k < hi, body(k)))
    return z3.Or(*[z3.And(z3.IntVal(q) < hi, body(z3.IntVal(q))) for q in range(lo, ub)]) if ub > lo else z3.BoolVal(False)


def SUM(hi, ub, term):
    """sum over 0 <= k < hi of term(k) (ub known)"""
    return z3.Sum(*[z3.If(z3.IntVal(q) < hi, term(z3.IntVal(q)), 0) for q in range(ub)]) if ub else z3.IntVal(0)


def occ_fn(arr):
    """the counting function of a z3 array term A:  occ(v, i) = number of positions j with 0 <= j < i and A[j] == v.
    One symbol per array TERM (the name is derived from the term), so every model -- and a contract's ghost counter -- that counts
    in the same array speaks about the same function."""
    import hashlib

    return z3.Function("occ_" + hashlib.sha1(arr.sexpr().encode()).hexdigest()[:12], I, I, I)


def occ_axioms(eng, arr):
    """facts about occ_fn(arr) (all true of the counting function; xcheck block `occ`): the defining recursion, 0 <= occ(v, i) <= i,
    a positive count has a witness position, a position holding v makes the count positive"""
    key = ("occ18", arr.get_id())
    if key in eng.ghost:
        return eng.ghost[key][0]
    occ = occ_fn(arr)
    tag = fresh_name("oc")
    ow = z3.Function("ow_" + tag, I, I, I)
    v, i, j = z3.Ints(f"v_{tag} i_{tag} j_{tag}")
    A = lambda t: z3.Select(arr, t)
    eng.assume(z3.ForAll([v], occ(v, 0) == 0))
    eng.assume(z3.ForAll([v, i], z3.Implies(i >= 0, occ(v, i + 1) == occ(v, i) + z3.If(A(i) == v, 1, 0)), patterns=[occ(v, i + 1)]))
    eng.assume(z3.ForAll([v, i], z3.Implies(i >= 0, z3.And(occ(v, i) >= 0, occ(v, i) <= i)), patterns=[occ(v, i)]))
    eng.assume(z3.ForAll([v, i], z3.Implies(z3.And(i >= 0, occ(v, i) > 0), z3.And(ow(v, i) >= 0, ow(v, i) < i, A(ow(v, i)) == v)), patterns=[occ(v, i)]))
    eng.assume(z3.ForAll([i, j], z3.Implies(z3.And(0 <= j, j < i), occ(A(j), i) >= 1), patterns=[z3.MultiPattern(occ(A(j), i))]))
    eng.ghost[key] = (occ, arr)
    used(eng, "counting function occ(v, i) = number of positions j < i holding v: recursion over i, 0 <= occ <= i, occ > 0 iff some position j < i holds v")
    return occ


def count_of(eng, a, v):
    """number of positions of the 1-D array a that hold v (z3 Int term)"""
    ub = bound(eng, a)
    if ub is not None:
        return SUM(a.nz(), ub, lambda q: z3.If(a.get(q).z == v, 1, 0))
    return occ_axioms(eng, a.arr)(v, a.nz())


def _as_int_sarr(eng, x, what):
    """1-D int array operand as an SArr (SArr itself, 1-D NArr, concrete list of ints / symbolic ints)"""
    from .values import NArr, PList

    if isinstance(x, SArr) and x.kind in ("int", "bool") and not hasattr(x, "__pyvc_getitem__"):
        return x
    if isinstance(x, SArr) and x.kind in ("int", "bool"):
        return SArr(x.arr, x.n, x.kind, name=x.name, dtype=x.dtype)
    items = None
    if isinstance(x, NArr) and x.ndim == 1 and x.kind in ("int", "bool"):
        items = list(x.items)
    elif isinstance(x, PList) and x.items is not None and all(kind_of(t) == "int" for t in x.items):
        items = list(x.items)
    elif isinstance(x, PList) and x.items is None and not x.tup and x.kinds == ["int"]:
        return SArr(x.cols[0], x.n, "int", name="lst")
    if items is None:
        raise Unsupported(f"{what}: operand is not a 1-D int array")
    arr = z3.K(I, z3.IntVal(0))
    for q, t in enumerate(items):
        arr = z3.Store(arr, q, to_z3(t, "int"))
    return SArr(arr, len(items), "int", name="lst")


def np_unique(eng, args, kwargs):
    """np.unique(a, return_index=, return_inverse=, return_counts=) of a 1-D int array: `out` = the distinct values in ascending order;
    index[k] = FIRST position holding out[k]; inverse[i] = the position of a[i] in out; counts[k] = number of positions holding out[k]."""
    kw = dict(kwargs)
    flags = [bool(kw.pop(nm, False)) if not isinstance(kw.get(nm, False), Sym) else None for nm in ("return_index", "return_inverse", "return_counts")]
    if kw.pop("axis", None) is not None or kw or len(args) != 1 or None in flags:
        raise Unsupported("np.unique form (modelled: np.unique(1-D int array, return_index=, return_inverse=, return_counts=))")
    want_index, want_inverse, want_counts = flags
    try:
        a = _as_int_sarr(eng, args[0], "np.unique")
    except Unsupported:
        raise Unsupported("np.unique form (modelled: np.unique(1-D int array, return_index=, return_inverse=, return_counts=))")
    used(eng, "np.unique(1-D int array): strictly increasing array of exactly the values that occur"
         + ("; return_index: the first position of each value" if want_index else "") + ("; return_inverse: a == out[inverse]" if want_inverse else "")
         + ("; return_counts: the number of positions holding each value" if want_counts else ""))
    ub = bound(eng, a)
    out = SArr.fresh("int", name="uniq")
    tag = fresh_name("uq")
    wit, pos = z3.Function("wit_" + tag, I, I), z3.Function("pos_" + tag, I, I)
    n, m = a.nz(), out.nz()
    A, O = (lambda t: a.get(t).z), (lambda t: out.get(t).z)
    eng.assume(z3.And(m >= 0, m <= n))
    if ub is not None:
        set_bound(eng, out, ub)
        eng.assume((m == 0) == (n == 0))  # follows from wit / pos; stated for the written-out form
    eng.assume(FA(m, ub, lambda k: z3.And(wit(k) >= 0, wit(k) < n, O(k) == A(wit(k)))))
    if ub is None:
        k, k2 = z3.Ints(f"k_{tag} k2_{tag}")
        eng.assume(z3.ForAll([k, k2], z3.Implies(z3.And(k >= 0, k < k2, k2 < m), O(k) < O(k2))))
    else:
        eng.assume(FA(m - 1, max(ub - 1, 0), lambda k: O(k) < O(k + 1)))
        eng.assume(FA(m, ub, lambda k: EX(n, ub, lambda q: z3.And(wit(k) == q))))  # wit(k) is one of the positions
    eng.assume(FA(n, ub, lambda i: z3.And(pos(i) >= 0, pos(i) < m, O(pos(i)) == A(i))))
    if ub is None:
        # ground INSTANCES of the axioms at the first positions (nothing new: they give E-matching the terms out[0], out[1], a[0])
        for kk in (0, 1):
            eng.assume(z3.Implies(kk < m, z3.And(wit(kk) >= 0, wit(kk) < n, O(kk) == A(wit(kk)))))
        eng.assume(z3.Implies(1 < m, O(0) < O(1)))
        eng.assume(z3.Implies(0 < n, z3.And(pos(0) >= 0, pos(0) < m, O(pos(0)) == A(0))))
    else:
        eng.assume(FA(n, ub, lambda i: EX(m, ub, lambda q: pos(i) == q)))
    res = [out]
    if want_index:
        idx = SArr.fresh("int", out.n, name="uniq_index")
        eng.assume(FA(m, ub, lambda k: z3.And(idx.get(k).z == wit(k), FA(wit(k), ub, lambda j: A(j) != O(k)))))
        res.append(idx)
    if want_inverse:
        inv = SArr.fresh("int", a.n, name="uniq_inverse")
        eng.assume(FA(n, ub, lambda i: inv.get(i).z == pos(i), patterns=(lambda i: [inv.get(i).z]) if ub is None else None))
        res.append(inv)
    if want_counts:
        cnt = SArr.fresh("int", out.n, name="uniq_counts")
        eng.assume(FA(m, ub, lambda k: z3.And(cnt.get(k).z == count_of(eng, a, O(k)), cnt.get(k).z >= 1), patterns=(lambda k: [cnt.get(k).z]) if ub is None else None))
        res.append(cnt)
    return out if len(res) == 1 else tuple(res)


_STOCK_FILTER = npmodels.mask_filter


def mask_filter(eng, base, mask):
    """a[mask] when a bound of the length is known: the stock facts (order kept, kappa / rho) written out position by position"""
    ub = bound(eng, base)
    if ub is None or eng.spec_mode:
        return _STOCK_FILTER(eng, base, mask)
    npmodels.used(eng, "boolean-mask-filter-keeps-order")
    npmodels._len_eq(eng, base, mask, "boolean index")
    tag = fresh_name("m")
    n = base.nz()
    M = lambda q: z3.And(z3.IntVal(q) < n, mask.get(q).z)
    ck = ("filter18", mask.arr.get_id(), z3.simplify(mask.nz()).get_id())
    cached = eng.ghost.get(ck)
    if cached is None:
        kappa, rho = z3.Function("kappa_" + tag, I, I), z3.Function("rho_" + tag, I, I)
        mlen = z3.Const(fresh_name("flt_len"), I)
        eng.assume(mlen == (z3.Sum(*[z3.If(M(q), 1, 0) for q in range(ub)]) if ub else z3.IntVal(0)))
        for q in range(ub):
            rank = z3.Sum(*[z3.If(M(j), 1, 0) for j in range(q)]) if q else z3.IntVal(0)
            eng.assume(z3.Implies(M(q), z3.And(rho(q) == rank, kappa(rank) == q)))
        cached = eng.ghost[ck] = (kappa, rho, mlen, mask.arr)
    kappa, rho, mlen = cached[:3]
    out = SArr.fresh(base.kind, mlen, name="flt")
    for q in range(ub):
        eng.assume(z3.Implies(M(q), out.get(rho(q)).z == base.get(q).z))
    out.kappa, out.rho, out.src, out.mask = kappa, rho, base, mask
    set_bound(eng, out, ub)
    eng.last_filter = out
    return out


def _membership(eng, b):
    """v -> `v is an entry of the 1-D int array b`"""
    ub = bound(eng, b)
    return lambda v: EX(b.nz(), ub, lambda q: b.get(q).z == v)


def np_setdiff1d(eng, args, kwargs):
    """np.setdiff1d(a, b): the sorted distinct values of a that are not in b"""
    if len(args) != 2 or any(k_ != "assume_unique" for k_ in kwargs):
        raise Unsupported("np.setdiff1d form")
    a, b = _as_int_sarr(eng, args[0], "np.setdiff1d"), _as_int_sarr(eng, args[1], "np.setdiff1d")
    used(eng, "np.setdiff1d(a, b) on 1-D int arrays: strictly increasing array of exactly the values of a that do not occur in b")
    ua, ubb = bound(eng, a), bound(eng, b)
    ub = ua if ubb is not None else None
    in_b = _membership(eng, b) if ub is not None else (lambda v: EX(b.nz(), None, lambda q: b.get(q).z == v))
    out = SArr.fresh("int", name="setdiff")
    tag = fresh_name("sd")
    wit, pos = z3.Function("wit_" + tag, I, I), z3.Function("pos_" + tag, I, I)
    n, m = a.nz(), out.nz()
    O = lambda t: out.get(t).z
    eng.assume(z3.And(m >= 0, m <= n))
    if ub is not None:
        set_bound(eng, out, ub)
        eng.assume(FA(m, ub, lambda k: z3.And(EX(n, ub, lambda q: z3.And(wit(k) == q, O(k) == a.get(q).z)), z3.Not(in_b(O(k))))))
        eng.assume(FA(m - 1, max(ub - 1, 0), lambda k: O(k) < O(k + 1)))
        eng.assume(FA(n, ub, lambda i: z3.Or(in_b(a.get(i).z), EX(m, ub, lambda q: z3.And(pos(i) == q, O(q) == a.get(i).z)))))
    else:
        k, k2, i, j = z3.Ints(f"k_{tag} k2_{tag} i_{tag} j_{tag}")
        eng.assume(z3.ForAll([k], z3.Implies(z3.And(k >= 0, k < m), z3.And(wit(k) >= 0, wit(k) < n, O(k) == a.get(wit(k)).z))))
        eng.assume(z3.ForAll([k, j], z3.Implies(z3.And(k >= 0, k < m, j >= 0, j < b.nz()), O(k) != b.get(j).z)))
        eng.assume(z3.ForAll([k, k2], z3.Implies(z3.And(k >= 0, k < k2, k2 < m), O(k) < O(k2))))
        inb = z3.Function("inb_" + tag, I, I)
        eng.assume(z3.ForAll([i], z3.Implies(z3.And(i >= 0, i < n), z3.Or(z3.And(inb(i) >= 0, inb(i) < b.nz(), b.get(inb(i)).z == a.get(i).z),
                                                                        z3.And(pos(i) >= 0, pos(i) < m, O(pos(i)) == a.get(i).z)))))
        eng.assume(z3.Implies(0 < m, z3.And(wit(0) >= 0, wit(0) < n, O(0) == a.get(wit(0)).z)))
    return out


def np_isin(eng, args, kwargs):
    """np.isin(a, b) / np.in1d(a, b) on 1-D int arrays: out[i] = (a[i] occurs in b); invert=True negates"""
    kw = dict(kwargs)
    invert = kw.pop("invert", False)
    kw.pop("assume_unique", None)
    if len(args) != 2 or kw or isinstance(invert, Sym):
        raise Unsupported("np.isin form")
    a, b = _as_int_sarr(eng, args[0], "np.isin"), _as_int_sarr(eng, args[1], "np.isin")
    used(eng, "np.isin(a, b) on 1-D int arrays: elementwise membership of a[i] in b")
    in_b = _membership(eng, b)
    i = z3.Int(fresh_name("isin"))
    body = in_b(a.get(i).z)
    return SArr(z3.Lambda([i], z3.Not(body) if invert else body), a.n, "bool", name="isin")


def np_bincount(eng, args, kwargs):
    """np.bincount(x, minlength=k) of a 1-D array of NON-NEGATIVE ints: length max(k, max(x) + 1), out[v] = number of positions holding v"""
    kw = dict(kwargs)
    minlength = kw.pop("minlength", 0)
    if kw.pop("weights", None) is not None or kw or not 1 <= len(args) <= 3 or (len(args) > 1 and args[1] is not None):
        raise Unsupported("np.bincount form (modelled: np.bincount(1-D int array, minlength=k))")
    if len(args) == 3:
        minlength = args[2]
    x = _as_int_sarr(eng, args[0], "np.bincount")
    ub = bound(eng, x)
    n = x.nz()
    mz = to_z3(minlength, "int")
    if not eng.spec_mode:
        if not eng.branch(eng.sbool(FA(n, ub, lambda q: x.get(q).z >= 0))):
            raise ProgExc(ValueError, "'list' argument must have no negative elements")
        if not eng.branch(eng.sbool(mz >= 0)):
            raise ProgExc(ValueError, "'minlength' must not be negative")
    used(eng, "np.bincount(x, minlength=k), x non-negative ints: an array of length max(k, max(x) + 1) whose entry v is the number of positions of x holding v")
    out = SArr.fresh("int", name="bincount")
    L = out.nz()
    eng.assume(z3.And(L >= mz, L >= 0, FA(n, ub, lambda q: x.get(q).z < L), z3.Or(L == mz, EX(n, ub, lambda q: x.get(q).z + 1 == L))))
    v = z3.Int(fresh_name("bv"))
    eng.assume(z3.ForAll([v], z3.Implies(z3.And(v >= 0, v < L), out.get(v).z == filtered_count(eng, x, v)), patterns=[out.get(v).z]))
    return out


def filtered_count(eng, x, v):
    """number of positions of x holding v; when x = src[mask] (boolean selection) the count is taken in src: the number of positions i with
    mask[i] and src[i] == v (what the selection keeps), written out when a bound of len(src) is known"""
    src, mask = getattr(x, "src", None), getattr(x, "mask", None)
    if isinstance(src, SArr) and isinstance(mask, SArr):
        ub = bound(eng, src)
        if ub is not None:
            return SUM(src.nz(), ub, lambda q: z3.If(z3.And(mask.get(q).z, src.get(q).z == v), 1, 0))
        # symbolic length: the count in the selection equals the count in src for a value all of whose occurrences are selected, 0 for a
        # value none of whose occurrences is selected (the filter-count facts; xcheck block `filter-count`)
        occ_x, occ_s = occ_axioms(eng, x.arr), occ_axioms(eng, src.arr)
        key = ("fc18", x.arr.get_id())
        if key not in eng.ghost:
            eng.ghost[key] = True
            t, w = z3.Int(fresh_name("fcv")), z3.Function(fresh_name("fcw"), I, I)
            ns, nx = src.nz(), x.nz()
            hold = lambda val, pol: z3.Implies(z3.And(w(val) >= 0, w(val) < ns, src.get(w(val)).z == val), mask.get(w(val)).z if pol else z3.Not(mask.get(w(val)).z))
            # w(t) = a position that refutes "every (no) occurrence of t is selected", if there is one: with it the premises are quantifier-free
            eng.assume(z3.ForAll([t], z3.Or(occ_x(t, nx) == occ_s(t, ns), z3.And(w(t) >= 0, w(t) < ns, src.get(w(t)).z == t, z3.Not(mask.get(w(t)).z))), patterns=[occ_x(t, nx)]))
            used(eng, "a[mask] keeps, for a value all of whose occurrences are selected, its number of occurrences (else some occurrence is not selected)")
        return occ_x(v, x.nz())
    return count_of(eng, x, v)


def ufunc_add_at(eng, args, kwargs):
    """np.add.at(a, idx, c): a[v] += c for every position of idx holding v (unbuffered: repeated indices accumulate)"""
    from .models import check_frame

    from .values import NArr

    if len(args) == 3 and not kwargs and isinstance(args[0], NArr) and args[0].ndim == 1 and args[0].kind == "int" and kind_of(args[2]) == "int":
        # a target of concrete length: cell q grows by c times the number of positions of idx holding q
        a, c = args[0], to_z3(args[2], "int")
        idx = _as_int_sarr(eng, args[1], "np.add.at")
        ub, L = bound(eng, idx), len(a.items)
        check_frame(eng, a)
        if not eng.spec_mode:
            if not eng.branch(eng.sbool(FA(idx.nz(), ub, lambda q: z3.And(idx.get(q).z >= -L, idx.get(q).z < L)))):
                raise ProgExc(IndexError, "index out of bounds in np.add.at")
            eng.prove(eng.site("add-at-non-negative-indices"), FA(idx.nz(), ub, lambda q: idx.get(q).z >= 0), "safety", "np.add.at with negative (wrapping) indices is not modelled")
        used(eng, "np.add.at(a, idx, c): a[v] grows by c times the number of positions of idx holding v")
        a.items = [eng.snum(z3.simplify(to_z3(x, "int") + c * filtered_count(eng, idx, z3.IntVal(q))), "int") for q, x in enumerate(a.items)]
        return None
    if len(args) != 3 or kwargs or not isinstance(args[0], SArr) or args[0].kind != "int" or kind_of(args[2]) != "int" or getattr(args[0], "view_of", None) is not None:
        raise Unsupported("np.add.at form (modelled: np.add.at(1-D int array, 1-D int index array, int))")
    a, c = args[0], to_z3(args[2], "int")
    idx = _as_int_sarr(eng, args[1], "np.add.at")
    ub = bound(eng, idx)
    check_frame(eng, a)
    if not eng.spec_mode:
        if not eng.branch(eng.sbool(FA(idx.nz(), ub, lambda q: z3.And(idx.get(q).z >= -a.nz(), idx.get(q).z < a.nz())))):
            raise ProgExc(IndexError, "index out of bounds in np.add.at")
        eng.prove(eng.site("add-at-non-negative-indices"), FA(idx.nz(), ub, lambda q: idx.get(q).z >= 0), "safety", "np.add.at with negative (wrapping) indices is not modelled")
    used(eng, "np.add.at(a, idx, c): a[v] grows by c times the number of positions of idx holding v")
    old = a.arr
    v = z3.Int(fresh_name("av"))
    a.arr = z3.Lambda([v], z3.Select(old, v) + c * filtered_count(eng, idx, v))
    return None


def _arr_max(eng, a, initial, what):
    """maximum of a 1-D numeric array (with `initial`: of the entries and that value); ValueError on an empty array without initial"""
    ub = bound(eng, a)
    n = a.nz()
    if initial is None and not eng.spec_mode:
        if not eng.branch(eng.sbool(n > 0)):
            raise ProgExc(ValueError, "zero-size array to reduction operation maximum which has no identity")
    used(eng, f"{what}: an upper bound of every entry (and of `initial`) that is one of them")
    kind = a.kind if initial is None or kind_of(initial) == a.kind else "real"
    r = fresh(kind, "amax")
    E_ = lambda q: to_z3(a.get(q), kind)
    parts = [FA(n, ub, lambda q: r.z >= E_(q))]
    attained = EX(n, ub, lambda q: r.z == E_(q))
    if initial is not None:
        iz = to_z3(initial, kind)
        parts.append(r.z >= iz)
        attained = z3.Or(r.z == iz, attained)
    eng.assume(z3.And(attained, *parts))
    return r


def np_max(eng, args, kwargs):
    kw = dict(kwargs)
    initial = kw.pop("initial", None)
    if len(args) == 1 and not kw and isinstance(args[0], SArr) and args[0].kind in ("int", "real") and not hasattr(args[0], "__pyvc_getitem__"):
        return _arr_max(eng, args[0], initial, "np.max(1-D array, initial=)")
    from .values import NArr

    if len(args) == 1 and not kw and initial is not None and isinstance(args[0], NArr) and args[0].ndim == 1 and args[0].kind == "int":
        return _arr_max(eng, _as_int_sarr(eng, args[0], "np.max"), initial, "np.max(1-D array, initial=)")
    prev = _PREV.get(np.max)
    if prev is None or initial is not None:
        raise Unsupported("np.max form")
    return prev(eng, args, kwargs)


def _a_max(eng, recv, args, kwargs):
    kw = dict(kwargs)
    initial = kw.pop("initial", None)
    if args or kw or recv.kind not in ("int", "real"):
        raise Unsupported("ndarray.max form")
    return _arr_max(eng, recv, initial, "ndarray.max(initial=)")


def _a_sum(eng, recv, args, kwargs):
    ub = bound(eng, recv)
    if args or kwargs or ub is None or recv.kind not in ("int", "bool"):
        raise Unsupported("ndarray.sum of an array of unbounded symbolic length")
    return eng.snum(SUM(recv.nz(), ub, lambda q: to_z3(recv.get(q), "int")), "int")


def _bounded_any_all(is_all, stock):
    def method(eng, recv, args, kwargs):
        ub = bound(eng, recv) if isinstance(recv, SArr) else None
        if ub is None or args or kwargs or recv.kind != "bool":
            return stock(eng, recv, args, kwargs)
        return eng.sbool((FA if is_all else EX)(recv.nz(), ub, lambda q: recv.get(q).z))

    return method


def _bounded_np_any_all(is_all, stock):
    def model(eng, args, kwargs):
        a = args[0] if args else None
        ub = bound(eng, a) if isinstance(a, SArr) else None
        if ub is None or len(args) != 1 or kwargs:
            return stock(eng, args, kwargs)
        t = (lambda x: x.z) if a.kind == "bool" else (lambda x: x.z != 0)
        return eng.sbool((FA if is_all else EX)(a.nz(), ub, lambda q: t(a.get(q))))

    return model


# ------------------------------------------------------------------ pandas: the frame idioms of link_roots_to_nearest_
PANDAS = ("pandas-model(C18): default RangeIndex; df[bool mask] copies the selected rows keeping their index labels (= row positions); "
          ".iterrows() yields (label, row) in order; row[[c..]] / df[[c..]] select columns; DataFrame - Series aligns the Series' index "
          "with the columns (same labels required); DataFrame.to_numpy() stacks the columns; Series.iloc[k] is positional")


class Series18(SArr):
    """a column of a frame (values array + .iloc)"""

    def __pyvc_getattr__(self, eng, name):
        if name == "iloc":
            eng.assumptions.add(PANDAS)
            return SArr(self.arr, self.n, self.kind, name=self.name, dtype=self.dtype)  # Series.iloc[k] == values[k] (reads only)
        return models.method_of(eng, self, name)


class _Loc18(npmodels.DLoc):
    def __pyvc_setitem__(self, eng, key, val):
        if isinstance(key, tuple) and len(key) == 2 and isinstance(key[1], str):
            self.df.check_column_frame(eng, key[1])
        return npmodels.DLoc.__pyvc_setitem__(self, eng, key, val)


class DFrame(npmodels.DFrame):
    """the stock frame model (same class name: the engine recognises frames by it) plus boolean row selection and to_numpy.
    `frozen_cols`: columns of an input frame that the carrier must not write (a store into one of them, through df[col] = ... or
    df.loc[.., col] = ..., is a failed `frame-write` obligation, like a store into a frozen input)"""

    frozen_cols = frozenset()

    def __pyvc_snapshot__(self, memo):
        from .values import snapshot

        c = DFrame({k: snapshot(v, memo) for k, v in self.cols.items()}, self.n)
        c.uid = self.uid
        c.frozen_cols = self.frozen_cols
        return c

    def check_column_frame(self, eng, col):
        if col in self.frozen_cols and not eng.spec_mode:
            mark = len(eng.pc)
            eng.prove(eng.site("frame-write"), False, "frame", f"write to column {col!r} of the input frame (only {sorted(set(self.cols) - set(self.frozen_cols))} may be written)")
            del eng.pc[mark:]  # the failed claim is NOT assumed: the obligations that follow are proved in the state the store really produces

    def __pyvc_setitem__(self, eng, key, val):
        if isinstance(key, str):
            self.check_column_frame(eng, key)
        return npmodels.DFrame.__pyvc_setitem__(self, eng, key, val)

    def __pyvc_getitem__(self, eng, key):
        if isinstance(key, str):
            if key not in self.cols:
                raise ProgExc(KeyError, key)
            eng.assumptions.add("pandas-model:DataFrame with default RangeIndex; df[col] is the column's values")
            c = self.cols[key]
            return Series18(c.arr, c.n, c.kind, name=key, dtype=c.dtype)
        if isinstance(key, SArr) and key.kind == "bool":
            eng.assumptions.add(PANDAS)
            npmodels._len_eq(eng, SArr(key.arr, self.n, "bool"), key, "boolean row selection")
            pos = SArr(npmodels.lam(lambda i: i, "int"), self.n, "int", name="rowpos")
            flt = npmodels.mask_filter(eng, pos, key)  # ghost kappa (selected position -> row), rho (row -> selected position)
            return RowSel18({k: SArr(v.arr, v.n, v.kind, name=k) for k, v in self.cols.items()}, flt)
        if isinstance(key, models.PList) and key.items is not None:
            eng.assumptions.add(PANDAS)
            for k in key.items:
                if k not in self.cols:
                    raise ProgExc(KeyError, str(k))
            if len(set(key.items)) != len(key.items):
                raise Unsupported("column selection with a repeated label (pandas keeps both copies; the model's columns are keyed by label)")
            return DFrame({k: self.cols[k] for k in key.items}, self.n)
        return npmodels.DFrame.__pyvc_getitem__(self, eng, key)

    def __pyvc_getattr__(self, eng, name):
        if name in ("loc", "iloc", "at"):
            return _Loc18(self)
        if name == "to_numpy":
            eng.assumptions.add(PANDAS)
            return NativeMethod(lambda e, r, a, k: npmodels.stack_sarr(e, [SArr(c.arr, r.n, c.kind) for c in r.cols.values()], 1), self, name)
        if name == "copy":
            return NativeMethod(lambda e, r, a, k: DFrame({c: SArr(v.arr, v.n, v.kind, name=c, dtype=v.dtype) for c, v in r.cols.items()}, r.n), self, name)
        return npmodels.DFrame.__pyvc_getattr__(self, eng, name)

    def __pyvc_binop__(self, eng, op, a, b):
        import ast as _ast

        if a is self and isinstance(b, RowVec18) and isinstance(op, (_ast.Sub, _ast.Add)):
            eng.assumptions.add(PANDAS)
            if list(self.cols) != list(b.vals):
                raise Unsupported("DataFrame - Series with different labels (pandas would align and fill NaN)")
            return DFrame({k: npmodels.array_binop(eng, op, SArr(c.arr, self.n, c.kind), b.vals[k]) for k, c in self.cols.items()}, self.n)
        raise Unsupported("arithmetic on a DataFrame")


class RowSel18:
    """df[mask]: a copy of the selected rows (column values as they were at selection time)"""

    def __init__(self, cols, flt):
        self.cols, self.flt = cols, flt

    def __pyvc_getattr__(self, eng, name):
        if name == "iterrows":
            return NativeMethod(lambda e, r, a, k: RowIter18(r), self, name)
        raise Unsupported(f"attribute {name} of a row selection")


class Row18:
    """one row of a selection (a Series over the column labels)"""

    def __init__(self, cols, pos):
        self.cols, self.pos = cols, pos

    def __pyvc_getitem__(self, eng, key):
        if isinstance(key, str):
            return self.cols[key].get(self.pos)
        if isinstance(key, models.PList) and key.items is not None:
            if len(set(key.items)) != len(key.items):
                raise Unsupported("row selection with a repeated label")
            return RowVec18({k: self.cols[k].get(self.pos) for k in key.items})
        raise Unsupported("row subscript")


class RowVec18:
    def __init__(self, vals):
        self.vals = vals

    def __pyvc_binop__(self, eng, op, a, b):
        if isinstance(a, DFrame):
            return a.__pyvc_binop__(eng, op, a, b)
        raise Unsupported("arithmetic on a row")


class RowIter18(Opaque):
    """iterator of RowSel18.iterrows(): `start` rows have been taken by next()"""

    def __init__(self, sel):
        Opaque.__init__(self, None, {"__iter_seq__": lambda eng, v: v.seq(eng)})
        self.sel, self.start = sel, 0

    def element(self, eng, j):
        """(index label, row) of the j-th selected row"""
        pos = Sym(self.sel.flt.kappa(to_z3(j, "int")), "int")
        return (pos, Row18(self.sel.cols, pos))

    def remaining(self):
        return z3.simplify(self.sel.flt.nz() - self.start)

    def seq(self, eng):
        st = self.start
        return self.remaining(), (lambda k: self.element(eng, k.z + st))

    def __pyvc_snapshot__(self, memo):
        c = RowIter18(self.sel)
        c.start = self.start
        return c


def b_next(eng, args, kwargs):
    if len(args) == 1 and isinstance(args[0], RowIter18) and not kwargs:
        it = args[0]
        if not eng.branch(eng.sbool(it.remaining() > 0)):
            raise ProgExc(StopIteration, "next() on an exhausted iterator")
        el = it.element(eng, it.start)
        it.start += 1
        return el
    return models.BUILTIN_MODELS[next](eng, args, kwargs)


# ------------------------------------------------------------------ numpy: norm over rows, +inf masking, argmin
def np_norm(eng, args, kwargs):
    """np.linalg.norm(M, axis=1) of an (n, k) array with symbolic n: the Euclidean length of every row"""
    if len(args) == 1 and isinstance(args[0], npmodels.S2Arr) and not args[0].transposed and kwargs == {"axis": 1}:
        M = args[0]
        used(eng, "np.linalg.norm((n,k) array, axis=1): out[i] >= 0 and out[i]**2 == sum of the squares of row i (over the reals)")
        out = SArr.fresh("real", M.n, name="norm")
        i = z3.Int(fresh_name("ni"))
        sq = sum((to_z3(Sym(z3.Select(c, i), M.kind), "real") * to_z3(Sym(z3.Select(c, i), M.kind), "real") for c in M.cols), z3.RealVal(0))
        eng.assume(z3.ForAll([i], z3.Implies(z3.And(i >= 0, i < M.nz()), z3.And(out.get(i).z >= 0, out.get(i).z * out.get(i).z == sq)), patterns=[out.get(i).z]))
        out.norm_of = M  # ghost: the matrix whose row lengths these are (contracts name the components through it)
        return out
    prev = _PREV.get(np.linalg.norm)
    if prev is None:
        raise Unsupported("np.linalg.norm form")
    return prev(eng, args, kwargs)


class InfMasked18:
    """np.where(mask, +inf, data): `data` where the mask is False, +infinity elsewhere (no real value: kept symbolic)"""

    def __init__(self, mask, data):
        self.mask, self.data = mask, data
        self.idx = None

    def __pyvc_getattr__(self, eng, name):
        if name == "argmin":
            return NativeMethod(_inf_argmin, self, name)
        raise Unsupported(f"attribute {name} of an array holding +inf")

    def __pyvc_snapshot__(self, memo):
        return self


def _inf_argmin(eng, recv, args, kwargs):
    if args or kwargs:
        raise Unsupported("argmin with arguments")
    if recv.idx is not None:
        return recv.idx  # a pure function of the array: the same position every time
    mask, data = recv.mask, recv.data
    n = data.nz()
    if not eng.spec_mode and not eng.branch(eng.sbool(n > 0)):
        raise ProgExc(ValueError, "attempt to get argmin of an empty sequence")
    used(eng, "ndarray.argmin() of np.where(mask, +inf, data) over the reals: the FIRST position of the least unmasked value; position 0 when every entry is +inf")
    r = fresh("int", "argmin")
    y = z3.Int(fresh_name("y"))
    rng = z3.And(y >= 0, y < n)
    free = lambda t: z3.Not(mask.get(t).z)
    some = z3.Exists([y], z3.And(rng, free(y)))
    eng.assume(z3.And(r.z >= 0, r.z < n))
    eng.assume(z3.Implies(some, z3.And(free(r.z), z3.ForAll([y], z3.Implies(z3.And(rng, free(y)), z3.And(data.get(r.z).z <= data.get(y).z, z3.Implies(y < r.z, data.get(r.z).z < data.get(y).z)))))))
    eng.assume(z3.Implies(z3.Not(some), r.z == 0))
    recv.idx = r
    return r


def np_where(eng, args, kwargs):
    if len(args) == 3 and isinstance(args[0], SArr) and args[0].kind == "bool" and isinstance(args[1], float) and args[1] == float("inf") and isinstance(args[2], SArr):
        npmodels._len_eq(eng, args[0], args[2], "np.where")
        used(eng, "np.where(mask, +inf, data): kept as (mask, data); only argmin() is defined on it")
        return InfMasked18(args[0], args[2])
    return npmodels._np_where(eng, args, kwargs)


_PREV = {}


def install():
    from . import narr

    _PREV[np.linalg.norm] = models.EXTRA_MODELS.get(np.linalg.norm) or narr.NP_MODELS.get(np.linalg.norm)
    _PREV[np.max] = models.EXTRA_MODELS.get(np.max) or narr.NP_MODELS.get(np.max)
    models.EXTRA_MODELS[np.unique] = np_unique
    models.EXTRA_MODELS[next] = b_next
    models.EXTRA_MODELS[np.linalg.norm] = np_norm
    models.EXTRA_MODELS[np.where] = np_where
    models.EXTRA_MODELS[np.setdiff1d] = np_setdiff1d
    models.EXTRA_MODELS[np.isin] = np_isin
    if hasattr(np, "in1d"):
        models.EXTRA_MODELS[np.in1d] = np_isin
    models.EXTRA_MODELS[np.bincount] = np_bincount
    models.EXTRA_MODELS[np.add.at] = ufunc_add_at
    models.EXTRA_MODELS[np.max] = np_max
    models.EXTRA_MODELS[np.amax] = np_max
    try:  # np.zeros / np.full with a symbolic 1-D length (additive: concrete shapes go to the stock models)
        from . import ext_C01

        ext_C01.install()
    except Exception:  # noqa: BLE001 - without it np.zeros(n) of a symbolic n stays unsupported
        pass
    if npmodels.mask_filter is not mask_filter:
        npmodels.mask_filter = mask_filter  # a[mask] on an array whose length has a known bound: the same facts, written out
        npmodels.ARR_METHODS["any"] = _bounded_any_all(False, npmodels.ARR_METHODS["any"])
        npmodels.ARR_METHODS["all"] = _bounded_any_all(True, npmodels.ARR_METHODS["all"])
        npmodels.ARR_METHODS.setdefault("max", _a_max)
        npmodels.ARR_METHODS.setdefault("sum", _a_sum)
        models.EXTRA_MODELS[np.any] = _bounded_np_any_all(False, npmodels.NP_MODELS[np.any])
        models.EXTRA_MODELS[np.all] = _bounded_np_any_all(True, npmodels.NP_MODELS[np.all])
