"""C18 extensions of pyvc: library models used by the topology checkers / root repair (get_dsu, is_single_root,
link_roots_to_nearest_ and the copying wrappers).  Installed through pyvc.models.EXTRA_MODELS when contracts.C18 is
imported (vcheck imports it only for C18 and the properties that DEPEND on it).

Every model names what it assumes with used(...) so that evidence lists it under trusted_base; each one was cross-checked
against the real library on concrete inputs (tools/xcheck_C18.py).
"""
from __future__ import annotations

import numpy as np
import z3

from . import models
from .engine import ProgExc, Unsupported
from .values import NativeMethod, SArr, Sym, fresh, fresh_name, kind_of, to_z3, zint

I = z3.IntSort()


def used(eng, name):
    eng.assumptions.add("numpy-model:" + name)


# ------------------------------------------------------------------ np.unique
def np_unique(eng, args, kwargs):
    """np.unique(a) of a 1-D int array of symbolic length: the sorted distinct values.
    out (length m) is strictly increasing, every out[k] is a value of a (ghost witness wit(k)), every a[i] occurs
    in out (ghost position pos(i))."""
    if len(args) != 1 or kwargs or not isinstance(args[0], SArr) or args[0].kind != "int":
        raise Unsupported("np.unique form (modelled: np.unique(1-D int array))")
    a = args[0]
    used(eng, "np.unique(1-D int array): strictly increasing array of exactly the values that occur")
    out = SArr.fresh("int", name="uniq")
    tag = fresh_name("uq")
    wit, pos = z3.Function("wit_" + tag, I, I), z3.Function("pos_" + tag, I, I)
    k, k2, i = z3.Ints(f"k_{tag} k2_{tag} i_{tag}")
    n, m = a.nz(), out.nz()
    eng.assume(z3.And(m >= 0, m <= n))
    eng.assume(z3.ForAll([k], z3.Implies(z3.And(k >= 0, k < m), z3.And(wit(k) >= 0, wit(k) < n, out.get(k).z == a.get(wit(k)).z))))
    eng.assume(z3.ForAll([k, k2], z3.Implies(z3.And(k >= 0, k < k2, k2 < m), out.get(k).z < out.get(k2).z)))
    eng.assume(z3.ForAll([i], z3.Implies(z3.And(i >= 0, i < n), z3.And(pos(i) >= 0, pos(i) < m, out.get(pos(i)).z == a.get(i).z))))
    # ground INSTANCES of the three axioms above at the first positions (nothing new is assumed: they only give the
    # solver's E-matching the terms out[0], out[1], a[0] to start from -- `len(np.unique(a)) == 1` is decided by them)
    for kk in (0, 1):
        eng.assume(z3.Implies(kk < m, z3.And(wit(kk) >= 0, wit(kk) < n, out.get(kk).z == a.get(wit(kk)).z)))
    eng.assume(z3.Implies(1 < m, out.get(0).z < out.get(1).z))
    eng.assume(z3.Implies(0 < n, z3.And(pos(0) >= 0, pos(0) < m, out.get(pos(0)).z == a.get(0).z)))
    return out


def install():
    models.EXTRA_MODELS[np.unique] = np_unique
