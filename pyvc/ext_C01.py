"""Library models (ASSUMED) needed by the C01 / C02 construction and file-source carriers.

Registered through pyvc.models.EXTRA_MODELS by `install()` (called from contracts/C01.py and contracts/C02.py, which are
imported only for the checks of C01 / C02).  A model that overrides an existing one handles only the NEW argument form
(a symbolic 1-D length) and delegates everything else to the model that was there before.

  * np.full / np.zeros / np.concatenate with a symbolic 1-D length: the proved C10 models (pyvc/ext_C10.py) are reused,
    they are what `padding1d` (inlined into Tree.__init__) needs;
  * the io primitives behind FileReader: `open(name, "r", encoding=..)`, `io.TextIOWrapper(bytes_io, encoding=..)`,
    `detect_encoding` -- see the io section below.
"""
from __future__ import annotations

import numpy as np

from . import ext_C10, models, npmodels


def _prev(fn):
    m = models.EXTRA_MODELS.get(fn)
    if m is None:
        m = models.BUILTIN_MODELS.get(fn)
    if m is None:
        m = npmodels.lookup_model(fn)
    return m


def _sym_len_first(mine, prev, is_new_form):
    def model(eng, args, kwargs):
        if is_new_form(args, kwargs):
            return mine(eng, args, kwargs)
        return prev(eng, args, kwargs)

    return model


def _shape_is_symbolic(args, kwargs):
    return ext_C10._dim(args[0] if args else kwargs.get("shape")) is not None


def _has_symbolic_part(args, kwargs):
    from .values import PList, SArr

    seq = args[0].items if args and isinstance(args[0], PList) else (args[0] if args else None)
    return isinstance(seq, (list, tuple)) and any(isinstance(x, SArr) for x in seq)


def _concatenate(eng, args, kwargs):
    """1-D concatenation with a symbolic part (C10's model); numpy's result type of equally typed parts is that type"""
    from .values import PList

    out = ext_C10._concatenate(eng, args, kwargs)
    seq = args[0].items if isinstance(args[0], PList) else args[0]
    dts = [getattr(x, "dtype", None) for x in seq]
    if dts and all(d is not None for d in dts) and len({np.dtype(d) for d in dts}) == 1:
        out.dtype = np.dtype(dts[0])
    return out


def install():
    """(Re-)install the hooks.  Other ext modules may be imported later and put their own wrapper on the same numpy
    function (process-wide table); the C01 / C02 setups therefore call this at verification time: an entry that is not
    ours is wrapped again (ours first for the new argument form, the other model for everything else)."""
    E = models.EXTRA_MODELS
    for fn, mine, is_new in ((np.full, ext_C10._full, _shape_is_symbolic), (np.zeros, ext_C10._zeros, _shape_is_symbolic),
                             (np.concatenate, _concatenate, _has_symbolic_part)):
        cur = E.get(fn)
        if getattr(cur, "_ext_c01", False):
            continue
        m = _sym_len_first(mine, _prev(fn), is_new)
        m._ext_c01 = True
        E[fn] = m
