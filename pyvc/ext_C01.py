"""Library models (ASSUMED) needed by the C01 / C02 construction and file-source carriers.

Registered through pyvc.models.EXTRA_MODELS by `install()` (called from contracts/C01.py and contracts/C02.py, which are
imported only for the checks of C01 / C02).  A model that overrides an existing one handles only the NEW argument form
(a symbolic 1-D length) and delegates everything else to the model that was there before.

  * np.full / np.zeros / np.concatenate with a symbolic 1-D length: the proved C10 models (pyvc/ext_C10.py) are reused,
    they are what `padding1d` (inlined into Tree.__init__) needs;
  * the io primitives behind FileReader: `open(name, "r", encoding=..)`, `io.TextIOWrapper(bytes_io, encoding=..)`,
    `detect_encoding` -- see the io section below.
"""
from __future__ import annotations

import numpy as np

from . import ext_C10, models, npmodels


def _prev(fn):
    m = models.EXTRA_MODELS.get(fn)
    if m is None:
        m = models.BUILTIN_MODELS.get(fn)
    if m is None:
        m = npmodels.lookup_model(fn)
    return m


def _sym_len_first(mine, prev, is_new_form):
    def model(eng, args, kwargs):
        if is_new_form(args, kwargs):
            return mine(eng, args, kwargs)
        return prev(eng, args, kwargs)

    return model


def _shape_is_symbolic(args, kwargs):
    return ext_C10._dim(args[0] if args else kwargs.get("shape")) is not None


def _has_symbolic_part(args, kwargs):
    from .values import PList, SArr

    seq = args[0].items if args and isinstance(args[0], PList) else (args[0] if args else None)
    return isinstance(seq, (list, tuple)) and any(isinstance(x, SArr) for x in seq)


def _concatenate(eng, args, kwargs):
    """1-D concatenation with a symbolic part (C10's model); numpy's result type of equally typed parts is that type"""
    from .values import PList

    out = ext_C10._concatenate(eng, args, kwargs)
    seq = args[0].items if isinstance(args[0], PList) else args[0]
    dts = [getattr(x, "dtype", None) for x in seq]
    if dts and all(d is not None for d in dts) and len({np.dtype(d) for d in dts}) == 1:
        out.dtype = np.dtype(dts[0])
    return out


def install():
    """(Re-)install the hooks.  Other ext modules may be imported later and put their own wrapper on the same numpy
    function (process-wide table); the C01 / C02 setups therefore call this at verification time: an entry that is not
    ours is wrapped again (ours first for the new argument form, the other model for everything else)."""
    E = models.EXTRA_MODELS
    for fn, mine, is_new in ((np.full, ext_C10._full, _shape_is_symbolic), (np.zeros, ext_C10._zeros, _shape_is_symbolic),
                             (np.concatenate, _concatenate, _has_symbolic_part)):
        cur = E.get(fn)
        if getattr(cur, "_ext_c01", False):
            continue
        m = _sym_len_first(mine, _prev(fn), is_new)
        m._ext_c01 = True
        E[fn] = m


# =====================================================================================================================
# io primitives behind swcgeom.utils.file.FileReader  (ASSUMED models of C-level / third-party behaviour)
#
# A source (path, byte stream, text stream) is an abstract id `f`.  Its text is the uninterpreted line sequence
# line(f, 0 .. n_lines(f)-1); delivering line k may instead fail to decode (decode_error_at(f, k)); a path may be
# unreadable (source_unreadable(f)).  The declarations below are the SAME z3 functions as in contracts/C02.py (z3
# identifies declarations by name and signature).  What is assumed, and only this:
#   open(path, "r", encoding=e, **kw)   -> raises OSError iff source_unreadable(path); else a NEW text handle over the lines of path
#   open(path, "rb")                    -> same, a byte handle whose read() is bytes_of(path)
#   io.TextIOWrapper(bytes_io, encoding=e) -> a NEW text handle over the lines of the byte stream, READ FROM ITS CURRENT POSITION:
#                                          the model demands (named safety obligation) that the stream is at position 0
#   bytes_io.read() -> bytes_of(stream), leaves the position at the end; bytes_io.read(n) -> first_bytes_of(stream, n), an abstract value of
#                                          its own, leaves the position inside; bytes_io.seek(0, 0) rewinds; other seeks are refused
#   handle.close() is logged; a handle used as a context manager returns itself and closes on exit without suppressing
#   chardet.detect(data) -> {"encoding": some non-empty abstract string | None, "confidence": some real in [0, 1]}
# Every call is recorded in eng.ghost["io"] (a list of event dicts) so that contracts can say WHICH handle was opened /
# wrapped / closed with WHICH arguments, and that nothing else happened.
import io as _io  # noqa: E402

import z3  # noqa: E402

from .engine import ProgExc, Unsupported  # noqa: E402
from .values import Opaque, PDict, Sym, fresh, fresh_name, to_z3  # noqa: E402

_I, _B, _R = z3.IntSort(), z3.BoolSort(), z3.RealSort()
NL = z3.Function("n_lines", _I, _I)
LINE = z3.Function("line", _I, _I, _I)
DECERR = z3.Function("decode_error_at", _I, _I, _B)
UNREADABLE = z3.Function("source_unreadable", _I, _B)
BYTES_OF = z3.Function("bytes_of", _I, _I)
DETECTED = z3.Function("chardet_names_an_encoding", _I, _B)
DETENC = z3.Function("chardet_encoding", _I, _I)

LINE_WRAPPER = [lambda z: Sym(z, "ref")]  # contracts/C02.py puts its abstract-string class here

IO_OPEN = "io-model: open(path, 'r'|'rb', ..) raises OSError iff source_unreadable(path), else yields a new handle over the path's lines / bytes; close() is logged"
IO_WRAP = "io-model: io.TextIOWrapper(byte_stream, encoding=e) is a new text handle over the stream's lines, read from the CURRENT position (obligation: position 0)"
IO_ITER = ("io-model: iterating the text handle delivers line(f, 0..n_lines(f)-1) in order; delivering line k may instead raise UnicodeDecodeError "
           "(decode_error_at(f, k))")
IO_BYTES = "io-model: BytesIO.read() returns bytes_of(stream) and leaves the position at the end; seek(0, 0) rewinds"
IO_CHARDET = "chardet-model: detect(data) = {'encoding': a non-empty abstract string or None, 'confidence': a real in [0, 1]} (uninterpreted in data)"


def events(eng, op=None):
    ev = eng.ghost.setdefault("io", [])
    return ev if op is None else [e for e in ev if e["op"] == op]


def _positions(eng):
    return eng.ghost.setdefault("stream_pos", {})


def position(eng, stream):
    """0 | 'end' : where the next read of the byte stream starts"""
    return _positions(eng).get(stream.z.get_id(), 0)


def _close(eng, recv, args, kwargs):
    eng.ghost.setdefault("closed", []).append(recv.z)
    events(eng).append(dict(op="close", handle=recv))
    return None


def _closed(eng, v):
    """handle.closed: True once close() has been called on it"""
    return any(z.eq(v.z) for z in eng.ghost.get("closed", []))


def _ctx_enter(eng, recv, args, kwargs):
    return recv


def _ctx_exit(eng, recv, args, kwargs):
    _close(eng, recv, [], {})
    return False


# ---------------------------------------------------------------------------------------------------------------------
# Reading LINES from a text handle.  The handle has a ghost cursor c = number of lines of its source consumed so far
# (0 <= c <= n_lines(src)); every documented way of getting lines moves it:
#   iteration / iter(f) / enumerate(f, start) / list(f)   lines c .. n-1, lazily: delivering line k may raise UnicodeDecodeError
#   next(f)                        line c (StopIteration at the end);   f.readline() : line c, or "" at the end (a line is never empty)
#   f.readlines() / readlines(hint <= 0 | None)   the list of ALL remaining lines
#   f.readlines(hint > 0)          a PREFIX of the remaining lines: the shortest one whose total size EXCEEDS `hint` characters -- the
#                                  model: P lines, 1 <= P <= min(rest, hint + 1) when anything is left (line sizes are not modelled, a
#                                  line has at least one character), i.e. possibly FEWER than all of them
#   itertools.islice(f, k)         the next min(k, rest) lines, lazily
#   f.read() / read(-1) / read(None)  the remaining text: .splitlines(keepends=True) are the remaining lines, .splitlines() /
#                                  .split("\n") the lines WITHOUT their line break (other abstract strings; split adds the empty piece
#                                  behind a final line break)
#   f.read(n > 0)                  at most n characters: .splitlines(True) = some complete lines (possibly none, possibly not all) and
#                                  possibly one incomplete piece; afterwards the handle stands inside a line (only read(n) goes on)
#   f.seek(0) / seek(0, 0)         c := 0
# A bulk read (readlines / read) decodes everything it returns: it raises UnicodeDecodeError iff delivering one of those lines would.
# Every sequence handed out is logged as an io event  dict(op="lines", handle, how, start, count)  and remembered in the cursor
# (`seq_start`), so that a contract can say WHICH lines of the source a loop over that sequence has dealt with.
IO_LINES = ("io-model (line reading): a text handle has a ghost cursor (lines consumed); iteration / next / readline / readlines() / read() + "
            "splitlines(keepends=True) / itertools.islice deliver the lines from the cursor on, in order, each exactly once; readlines(hint > 0) "
            "delivers a non-empty PREFIX of them (at most `hint` + 1 lines), not necessarily all; a line is never the empty string; a bulk read raises "
            "UnicodeDecodeError iff one of the lines it covers does; read().splitlines(keepends=True) = the lines ASSUMES a text without the separators "
            "only str.splitlines knows (\\v \\f \\x1c-\\x1e \\x85 \\u2028 \\u2029, a lone \\r on a non-translating handle) "
            "(pyvc/ext_C01.py, cross-check tools/xcheck_io_lines.py)")
CHOMP = z3.Function("line_without_its_line_break", _I, _I)
ENDS_NL = z3.Function("text_ends_with_a_line_break", _I, _B)


class LineCursor:
    """ghost position of a text handle, counted in lines of its source"""

    def __init__(self, src):
        self.src = src
        self.z = z3.IntVal(0)
        self.seq_start = z3.IntVal(0)  # where the most recently handed-out line sequence starts
        self.iterating = False         # a lazy iteration over the handle is under way
        self.in_line = False           # a read(n) left the handle inside a line

    def __pyvc_havoc__(self, eng):
        self.z = z3.Const(fresh_name("lines_consumed"), _I)
        eng.assume(z3.And(self.z >= 0, self.z <= NL(self.src)))


class Cursors:
    """the cursors of the text handles a frame can reach (for a loop contract's `modifies`)"""

    def __init__(self, cs):
        self.cs = cs

    def __pyvc_havoc__(self, eng):
        for c in self.cs:
            c.__pyvc_havoc__(eng)


def handles_in(variables):
    from .values import Obj

    out = []
    for v in variables.values():
        for x in ([v] + list(v.fields.values()) if isinstance(v, Obj) else [v]):
            if isinstance(x, Opaque) and isinstance(getattr(x, "cursor", None), LineCursor) and not any(x is y for y in out):
                out.append(x)
    return out


def _ready(cur, what):
    if cur.iterating:
        raise Unsupported(f"{what} on a text handle while an iteration over it is under way")
    if cur.in_line:
        raise Unsupported(f"{what} on a text handle that a read(n) left inside a line")


def _start(eng, cur):
    eng.assumptions.add(IO_LINES)
    eng.assume(z3.And(NL(cur.src) >= 0, cur.z >= 0, cur.z <= NL(cur.src)))
    return cur.z


def _deliver(eng, src, kz):
    """line k of the source, as iteration / next / readline deliver it"""
    if eng.branch(eng.sbool(DECERR(src, kz))):
        raise ProgExc(UnicodeDecodeError, "codec can't decode")
    eng.assume(LINE(src, kz) != 0)
    return LINE_WRAPPER[0](LINE(src, kz))


def _decode_all(eng, src, lo, hi):
    """a bulk read of the lines lo .. hi-1 raises iff delivering one of them does"""
    j = z3.Const(fresh_name("undecodable_line"), _I)
    if eng.branch(Sym(z3.Const(fresh_name("some_line_of_the_bulk_read_is_undecodable"), _B), "bool")):
        eng.assume(z3.And(j >= lo, j < hi, DECERR(src, j)))
        raise ProgExc(UnicodeDecodeError, "codec can't decode")
    q = z3.Int(fresh_name("q"))
    eng.assume(z3.ForAll([q], z3.Implies(z3.And(q >= lo, q < hi), z3.Not(DECERR(src, q))), patterns=[DECERR(src, q)]))


def line_list(eng, src, start, count, chomp=False, name="lines"):
    """the list [line(src, start), ..., line(src, start + count - 1)] (elements wrapped like the lines of an iteration)"""
    from .values import PList

    i = z3.Int(fresh_name("li"))
    p = PList.fresh("ref", n=z3.simplify(count), name=name)
    p.cols = [z3.Lambda([i], CHOMP(LINE(src, start + i)) if chomp else LINE(src, start + i))]
    p.proto = {"__wrap__": LINE_WRAPPER[0]}
    return p


class LineIter:
    """lazy iteration over the lines of a handle from its cursor on (at most `limit` of them)"""

    def __init__(self, handle, limit=None):
        self.handle, self.limit = handle, limit

    def __pyvc_sequence__(self, eng):
        cur, src = self.handle.cursor, self.handle.src
        _ready(cur, "iteration")
        c0 = _start(eng, cur)
        n = NL(src) - c0
        if self.limit is not None:
            lim = z3.If(to_z3(self.limit, "int") < 0, z3.IntVal(0), to_z3(self.limit, "int"))
            n = z3.If(lim < n, lim, n)
        n = z3.simplify(n)
        eng.assumptions.add(IO_ITER)
        cur.iterating, cur.seq_start, self.c0, self.n = True, c0, c0, n
        events(eng).append(dict(op="lines", handle=self.handle, how="iteration" if self.limit is None else "islice", start=c0, count=n))
        cur.z = z3.simplify(c0 + n)  # where the handle stands when the iteration has run to its end
        return Sym(n, "int"), (lambda k: _deliver(eng, src, z3.simplify(c0 + k.z)))

    def __pyvc_iter_done__(self, eng, count):
        """the consumer stopped after `count` items (all of them, or a `break`)"""
        cur = self.handle.cursor
        cur.iterating = False
        cur.z = z3.simplify(self.c0 + to_z3(count, "int"))


def _iter_seq(eng, recv):
    it = LineIter(recv)
    recv.last_iter = it
    return it.__pyvc_sequence__(eng)


def _iter_done(eng, recv, count):
    it = getattr(recv, "last_iter", None)
    if it is not None:
        it.__pyvc_iter_done__(eng, count)


def _next(eng, recv, args, kwargs):
    cur = recv.cursor
    _ready(cur, "next()")
    c = _start(eng, cur)
    if not eng.branch(eng.sbool(c < NL(recv.src))):
        raise ProgExc(StopIteration, "")
    line = _deliver(eng, recv.src, c)
    cur.z = z3.simplify(c + 1)
    events(eng).append(dict(op="readline", handle=recv, at=c))
    return line


def _readline(eng, recv, args, kwargs):
    if kwargs or (args and not (len(args) == 1 and (args[0] is None or (isinstance(args[0], int) and args[0] < 0)))):
        raise Unsupported("readline(size) with a size limit")
    cur = recv.cursor
    _ready(cur, "readline()")
    c = _start(eng, cur)
    if not eng.branch(eng.sbool(c < NL(recv.src))):
        return LINE_WRAPPER[0](z3.IntVal(0))  # the empty string: end of file
    line = _deliver(eng, recv.src, c)
    cur.z = z3.simplify(c + 1)
    events(eng).append(dict(op="readline", handle=recv, at=c))
    return line


def _readlines(eng, recv, args, kwargs):
    hint = args[0] if args else kwargs.get("hint", -1)
    if len(args) > 1 or set(kwargs) - {"hint"}:
        raise Unsupported("readlines arguments")
    cur, src = recv.cursor, recv.src
    _ready(cur, "readlines()")
    c = _start(eng, cur)
    rest = NL(src) - c
    if hint is None or (isinstance(hint, int) and hint <= 0):
        count = rest
    else:
        if not isinstance(hint, int) and kind_of_int(hint) is None:
            raise Unsupported("readlines(hint) with a non-integer hint")
        hz = to_z3(hint, "int")
        count = z3.Const(fresh_name("lines_returned_by_readlines_hint"), _I)
        eng.assume(z3.If(hz <= 0, count == rest, z3.And(count >= 0, count <= rest, count <= hz + 1, z3.Implies(rest > 0, count >= 1))))
    _decode_all(eng, src, c, c + count)
    cur.z, cur.seq_start = z3.simplify(c + count), c
    events(eng).append(dict(op="lines", handle=recv, how="readlines", start=c, count=z3.simplify(count), hint=hint))
    return line_list(eng, src, c, count)


def kind_of_int(v):
    return "int" if isinstance(v, Sym) and v.kind == "int" else None


class TextRead:
    """what f.read(..) returned: the text of the lines start .. start+count-1 of the source, plus -- after a read(n) that stopped inside
    a line -- one incomplete piece.  Only the ways of cutting it into lines are modelled."""

    def __init__(self, handle, start, count, partial=None):
        self.handle, self.start, self.count, self.partial = handle, start, count, partial

    def __pyvc_truth__(self, eng):
        if self.partial is not None:
            return True
        return eng.sbool(self.count > 0)

    def __pyvc_isinstance__(self, cls):
        return cls is str

    def _lines(self, eng, chomp, how):
        from .values import PList

        src, cur = self.handle.src, self.handle.cursor
        cur.seq_start = self.start
        events(eng).append(dict(op="lines", handle=self.handle, how=how, start=self.start, count=z3.simplify(self.count)))
        lst = line_list(eng, src, self.start, self.count, chomp=chomp)
        if self.partial is not None:  # complete lines, then the incomplete piece
            i = z3.Int(fresh_name("li"))
            body = z3.Select(lst.cols[0], i)
            lst.cols = [z3.Lambda([i], z3.If(i < self.count, body, self.partial))]
            lst.n = z3.simplify(self.count + 1)
        return lst

    def __pyvc_getattr__(self, eng, name):
        if name == "splitlines":
            def splitlines(e, r, a, k):
                keep = a[0] if a else k.get("keepends", False)
                if not isinstance(keep, (bool, int)) or len(a) > 1 or set(k) - {"keepends"}:
                    raise Unsupported("splitlines arguments")
                return self._lines(e, not keep, "read+splitlines(keepends=True)" if keep else "read+splitlines()")
            return models.NativeMethod(splitlines, self, name)
        if name == "split":
            def split(e, r, a, k):
                if k or len(a) != 1 or a[0] != "\n":
                    raise Unsupported("split of a file's text other than split('\\n')")
                if self.partial is not None:
                    raise Unsupported("split('\\n') of a text that ends inside a line")
                # pieces = the lines without their line break, and one more (empty) piece behind a final line break (or for an empty text)
                lst = self._lines(e, True, "read+split('\\n')")
                i = z3.Int(fresh_name("li"))
                body = z3.Select(lst.cols[0], i)
                extra = z3.Or(self.count == 0, ENDS_NL(self.handle.src))
                lst.cols = [z3.Lambda([i], z3.If(i < self.count, body, z3.IntVal(0)))]
                lst.n = z3.simplify(self.count + z3.If(extra, 1, 0))
                return lst
            return models.NativeMethod(split, self, name)
        raise Unsupported(f"str.{name} of the text returned by read() has no model")


def _read(eng, recv, args, kwargs):
    if kwargs or len(args) > 1:
        raise Unsupported("read arguments")
    size = args[0] if args else -1
    cur, src = recv.cursor, recv.src
    if cur.iterating:
        raise Unsupported("read() on a text handle while an iteration over it is under way")
    eng.assumptions.add(IO_LINES)
    if size is None or (isinstance(size, int) and size < 0):
        _ready(cur, "read()")
        c = _start(eng, cur)
        _decode_all(eng, src, c, NL(src))
        cur.z = NL(src)
        events(eng).append(dict(op="read", handle=recv, start=c))
        return TextRead(recv, c, z3.simplify(NL(src) - c))
    if not (isinstance(size, int) or kind_of_int(size)):
        raise Unsupported("read(n) with a non-integer size")
    if isinstance(size, int) and size == 0:
        return ""
    # at most n characters: some complete lines and possibly an incomplete piece; "" only at the end of the text
    if cur.in_line:  # not the first chunk: where it starts inside the text is not tracked
        c, count = z3.Const(fresh_name("chunk_start"), _I), z3.IntVal(0)
        if not eng.branch(Sym(z3.Const(fresh_name("more_text_left"), _B), "bool")):
            return ""
        return TextRead(recv, c, count, partial=z3.Const(fresh_name("piece"), _I))
    c = _start(eng, cur)
    if not eng.branch(eng.sbool(c < NL(src))):
        return ""
    count = z3.Const(fresh_name("complete_lines_in_chunk"), _I)
    eng.assume(z3.And(count >= 0, count <= NL(src) - c, count <= to_z3(size, "int")))
    _decode_all(eng, src, c, c + count)
    events(eng).append(dict(op="read", handle=recv, start=c, size=size))
    if eng.branch(Sym(z3.Const(fresh_name("chunk_ends_at_a_line_boundary"), _B), "bool")):
        eng.assume(count >= 1)
        cur.z = z3.simplify(c + count)
        return TextRead(recv, c, count)
    cur.in_line = True
    cur.z = z3.simplify(c + count)
    piece = z3.Const(fresh_name("piece"), _I)
    eng.assume(piece != 0)
    return TextRead(recv, c, count, partial=piece)


def _seek(eng, recv, args, kwargs):
    if kwargs or tuple(args) not in ((0,), (0, 0)):
        raise Unsupported("text handle seek other than seek(0) / seek(0, 0)")
    cur = recv.cursor
    if cur.iterating:
        raise Unsupported("seek on a text handle while an iteration over it is under way")
    cur.z, cur.in_line = z3.IntVal(0), False
    events(eng).append(dict(op="seek", handle=recv))
    return 0


def _list_of(eng, recv):
    return _readlines(eng, recv, [], {})


def _iter_sentinel(eng, recv, method, sentinel):
    """iter(f.readline, ""): readline until it returns the empty string, i.e. the lines from the cursor on"""
    if method != "readline" or not (isinstance(sentinel, str) and sentinel == ""):
        raise Unsupported(f"iter(handle.{method}, sentinel) other than iter(f.readline, '')")
    it = LineIter(recv)
    recv.last_iter = it
    return it


def _line_proto(extra=None):
    proto = {"__iter_seq__": _iter_seq, "__iter_done__": _iter_done, "__next__": _next, "__list__": _list_of, "__iter_sentinel__": _iter_sentinel,
             "readline": _readline, "readlines": _readlines, "read": _read, "seek": _seek,
             "readable": lambda eng, recv, a, k: True, "__iter__": lambda eng, recv, a, k: recv,
             "close": _close, ".closed": _closed, "__enter__": _ctx_enter, "__exit__": _ctx_exit, "__isinstance__": (_io.TextIOBase,)}
    proto.update(extra or {})
    return proto


def text_handle(src, name="text_handle", extra=None):
    """a text handle delivering the lines of source `src` (z3 Int term); `.src` names the source, `.cursor` is its ghost position"""
    h = Opaque(z3.Const(fresh_name(name), _I), _line_proto(extra))
    h.src = src
    h.cursor = LineCursor(src)
    return h


def text_stream(name="text_stream", encoding="utf-8"):
    """a caller-supplied text stream (StringIO, an open text file): an abstract line source that is its own handle; its lines are
    what it delivers from the position the caller left it at"""
    z = z3.Const(fresh_name(name), _I)
    h = Opaque(z, _line_proto({".encoding": lambda eng, v: encoding}))
    h.src = z
    h.cursor = LineCursor(z)
    return h


def _islice(prev):
    def model(eng, args, kwargs):
        if args and isinstance(args[0], Opaque) and isinstance(getattr(args[0], "cursor", None), LineCursor) and not kwargs:
            if len(args) == 2:
                stop = args[1]
            elif len(args) in (3, 4) and args[1] in (0, None) and (len(args) == 3 or args[3] in (1, None)):
                stop = args[2]
            else:
                raise Unsupported("itertools.islice of a text handle with a start / step")
            it = LineIter(args[0], None if stop is None else stop)
            args[0].last_iter = it
            return it
        if prev is None:
            raise Unsupported("itertools.islice is modelled for text handles only")
        return prev(eng, args, kwargs)

    return model


BYTES_PREFIX = z3.Function("first_bytes_of", _I, _I, _I)


def _whole(args, kwargs):
    """read() / read(-1) / read(None): everything;  read(n): a size limit (anything else is refused)"""
    if kwargs or len(args) > 1:
        raise Unsupported("read arguments")
    if not args or args[0] is None or (isinstance(args[0], int) and not isinstance(args[0], bool) and args[0] < 0):
        return True
    if isinstance(args[0], bool) or not (isinstance(args[0], int) or (isinstance(args[0], Sym) and args[0].kind == "int")):
        raise Unsupported("read(n) with a non-integer size")
    return False


def byte_stream(name="byte_stream"):
    """a caller-supplied io.BytesIO: abstract bytes; only read() (everything) and seek(0, 0) are modelled"""
    def read(eng, recv, args, kwargs):
        eng.assumptions.add(IO_BYTES)
        if _whole(args, kwargs):
            if position(eng, recv) != 0:
                raise Unsupported("BytesIO.read() of a stream that is not at its start")
            _positions(eng)[recv.z.get_id()] = "end"
            events(eng).append(dict(op="read", handle=recv))
            return Sym(BYTES_OF(recv.z), "ref")
        # read(n): the first n bytes (an abstract value of its own: whatever is computed from it is not computed from all the bytes)
        if position(eng, recv) != 0:
            raise Unsupported("BytesIO.read(n) of a stream that is not at its start")
        _positions(eng)[recv.z.get_id()] = "inside"
        events(eng).append(dict(op="read", handle=recv, size=args[0]))
        return Sym(BYTES_PREFIX(recv.z, to_z3(args[0], "int")), "ref")

    def seek(eng, recv, args, kwargs):
        if kwargs or tuple(args) not in ((0,), (0, 0)):
            raise Unsupported("BytesIO.seek other than seek(0, 0)")
        eng.assumptions.add(IO_BYTES)
        _positions(eng)[recv.z.get_id()] = 0
        events(eng).append(dict(op="seek", handle=recv))
        return 0

    return Opaque(z3.Const(fresh_name(name), _I), {"read": read, "seek": seek, "close": _close, "__isinstance__": (_io.BytesIO,)})


def path_source(name="path"):
    """an abstract file-system path (a str)"""
    return Opaque(z3.Const(fresh_name(name), _I), {"__isinstance__": (str,)})


def _open_read(prev):
    def model(eng, args, kwargs):
        mode = args[1] if len(args) > 1 else kwargs.get("mode", "r")
        if mode not in ("r", "rb", "rt"):
            if prev is None:
                raise Unsupported(f"open() with mode {mode!r} has no model")
            return prev(eng, args, kwargs)
        name = args[0]
        if isinstance(name, str):  # a literal path names some file: an abstract source determined by the text of the path
            name = Opaque(z3.Int("path:" + name), {"__isinstance__": (str,)})
        if not isinstance(name, Opaque):
            raise Unsupported("open() for reading is modelled for an abstract or literal path only")
        eng.assumptions.add(IO_OPEN)
        if eng.branch(eng.sbool(UNREADABLE(name.z))):
            raise ProgExc(OSError, "cannot open")
        kw = {k: v for k, v in kwargs.items() if k != "mode"}
        if mode == "rb":
            def read(e, recv, a, k):
                if not _whole(a, k):
                    if getattr(recv, "was_read", False):
                        raise Unsupported("a second read of a byte handle")
                    recv.was_read = True
                    events(e).append(dict(op="read", handle=recv, size=a[0]))
                    return Sym(BYTES_PREFIX(name.z, to_z3(a[0], "int")), "ref")
                if getattr(recv, "was_read", False):
                    raise Unsupported("a second read of a byte handle")
                recv.was_read = True
                events(e).append(dict(op="read", handle=recv))
                return Sym(BYTES_OF(name.z), "ref")

            h = Opaque(z3.Const(fresh_name("byte_handle"), _I), {"read": read, "close": _close, "__enter__": _ctx_enter, "__exit__": _ctx_exit})
            h.src = name.z
        else:
            h = text_handle(name.z)
        events(eng).append(dict(op="open", handle=h, name=name, mode=mode, encoding=kw.pop("encoding", None), kwargs=kw))
        return h

    return model


def _text_io_wrapper(eng, args, kwargs):
    buf = args[0] if args else kwargs.get("buffer")
    if not (isinstance(buf, Opaque) and _io.BytesIO in buf.proto.get("__isinstance__", ())):
        raise Unsupported("io.TextIOWrapper is modelled over an abstract byte stream only")
    eng.assumptions.add(IO_WRAP)
    if not eng.spec_mode:
        eng.prove(eng.site("byte-stream-is-at-its-start-when-wrapped"), position(eng, buf) == 0, "safety",
                  "io.TextIOWrapper decodes from the buffer's current position: a consumed stream yields no lines")
    h = text_handle(buf.z)
    kw = dict(kwargs)
    kw.pop("buffer", None)
    events(eng).append(dict(op="wrap", handle=h, buffer=buf, encoding=kw.pop("encoding", args[1] if len(args) > 1 else None), kwargs=kw))
    return h


def _chardet_detect(eng, args, kwargs):
    (data,) = args
    if not (isinstance(data, Sym) and data.kind == "ref"):
        raise Unsupported("chardet.detect of concrete data")
    eng.assumptions.add(IO_CHARDET)
    conf = fresh("real", "confidence")
    eng.assume(z3.And(conf.z >= 0, conf.z <= 1))
    enc = None
    if eng.branch(eng.sbool(DETECTED(data.z))):
        enc = Opaque(DETENC(data.z), {"__isinstance__": (str,)})  # a non-empty string (an Opaque is truthy)
    events(eng).append(dict(op="detect", data=data, encoding=enc))
    return PDict({"encoding": enc, "confidence": conf, "language": ""})


def install_io(line_wrapper=None):
    import chardet

    if line_wrapper is not None:
        LINE_WRAPPER[0] = line_wrapper
    E = models.EXTRA_MODELS
    cur = E.get(open)
    if not getattr(cur, "_ext_c01", False):
        m = _open_read(cur)
        m._ext_c01 = True
        E[open] = m
    E[_io.TextIOWrapper] = _text_io_wrapper
    E[chardet.detect] = _chardet_detect
    import itertools

    cur = E.get(itertools.islice)
    if not getattr(cur, "_ext_c01", False):
        m = _islice(cur)
        m._ext_c01 = True
        E[itertools.islice] = m
