"""Library models (ASSUMED) needed by the C01 / C02 construction and file-source carriers.

Registered through pyvc.models.EXTRA_MODELS by `install()` (called from contracts/C01.py and contracts/C02.py, which are
imported only for the checks of C01 / C02).  A model that overrides an existing one handles only the NEW argument form
(a symbolic 1-D length) and delegates everything else to the model that was there before.

  * np.full / np.zeros / np.concatenate with a symbolic 1-D length: the proved C10 models (pyvc/ext_C10.py) are reused,
    they are what `padding1d` (inlined into Tree.__init__) needs;
  * the io primitives behind FileReader: `open(name, "r", encoding=..)`, `io.TextIOWrapper(bytes_io, encoding=..)`,
    `detect_encoding` -- see the io section below.
"""
from __future__ import annotations

import numpy as np

from . import ext_C10, models, npmodels


def _prev(fn):
    m = models.EXTRA_MODELS.get(fn)
    if m is None:
        m = models.BUILTIN_MODELS.get(fn)
    if m is None:
        m = npmodels.lookup_model(fn)
    return m


def _sym_len_first(mine, prev, is_new_form):
    def model(eng, args, kwargs):
        if is_new_form(args, kwargs):
            return mine(eng, args, kwargs)
        return prev(eng, args, kwargs)

    return model


def _shape_is_symbolic(args, kwargs):
    return ext_C10._dim(args[0] if args else kwargs.get("shape")) is not None


def _has_symbolic_part(args, kwargs):
    from .values import PList, SArr

    seq = args[0].items if args and isinstance(args[0], PList) else (args[0] if args else None)
    return isinstance(seq, (list, tuple)) and any(isinstance(x, SArr) for x in seq)


def _concatenate(eng, args, kwargs):
    """1-D concatenation with a symbolic part (C10's model); numpy's result type of equally typed parts is that type"""
    from .values import PList

    out = ext_C10._concatenate(eng, args, kwargs)
    seq = args[0].items if isinstance(args[0], PList) else args[0]
    dts = [getattr(x, "dtype", None) for x in seq]
    if dts and all(d is not None for d in dts) and len({np.dtype(d) for d in dts}) == 1:
        out.dtype = np.dtype(dts[0])
    return out


def install():
    """(Re-)install the hooks.  Other ext modules may be imported later and put their own wrapper on the same numpy
    function (process-wide table); the C01 / C02 setups therefore call this at verification time: an entry that is not
    ours is wrapped again (ours first for the new argument form, the other model for everything else)."""
    E = models.EXTRA_MODELS
    for fn, mine, is_new in ((np.full, ext_C10._full, _shape_is_symbolic), (np.zeros, ext_C10._zeros, _shape_is_symbolic),
                             (np.concatenate, _concatenate, _has_symbolic_part)):
        cur = E.get(fn)
        if getattr(cur, "_ext_c01", False):
            continue
        m = _sym_len_first(mine, _prev(fn), is_new)
        m._ext_c01 = True
        E[fn] = m


# =====================================================================================================================
# io primitives behind swcgeom.utils.file.FileReader  (ASSUMED models of C-level / third-party behaviour)
#
# A source (path, byte stream, text stream) is an abstract id `f`.  Its text is the uninterpreted line sequence
# line(f, 0 .. n_lines(f)-1); delivering line k may instead fail to decode (decode_error_at(f, k)); a path may be
# unreadable (source_unreadable(f)).  The declarations below are the SAME z3 functions as in contracts/C02.py (z3
# identifies declarations by name and signature).  What is assumed, and only this:
#   open(path, "r", encoding=e, **kw)   -> raises OSError iff source_unreadable(path); else a NEW text handle over the lines of path
#   open(path, "rb")                    -> same, a byte handle whose read() is bytes_of(path)
#   io.TextIOWrapper(bytes_io, encoding=e) -> a NEW text handle over the lines of the byte stream, READ FROM ITS CURRENT POSITION:
#                                          the model demands (named safety obligation) that the stream is at position 0
#   bytes_io.read() -> bytes_of(stream), leaves the position at the end; bytes_io.seek(0, 0) rewinds; other seeks are refused
#   handle.close() is logged; a handle used as a context manager returns itself and closes on exit without suppressing
#   chardet.detect(data) -> {"encoding": some non-empty abstract string | None, "confidence": some real in [0, 1]}
# Every call is recorded in eng.ghost["io"] (a list of event dicts) so that contracts can say WHICH handle was opened /
# wrapped / closed with WHICH arguments, and that nothing else happened.
import io as _io  # noqa: E402

import z3  # noqa: E402

from .engine import ProgExc, Unsupported  # noqa: E402
from .values import Opaque, PDict, Sym, fresh, fresh_name  # noqa: E402

_I, _B, _R = z3.IntSort(), z3.BoolSort(), z3.RealSort()
NL = z3.Function("n_lines", _I, _I)
LINE = z3.Function("line", _I, _I, _I)
DECERR = z3.Function("decode_error_at", _I, _I, _B)
UNREADABLE = z3.Function("source_unreadable", _I, _B)
BYTES_OF = z3.Function("bytes_of", _I, _I)
DETECTED = z3.Function("chardet_names_an_encoding", _I, _B)
DETENC = z3.Function("chardet_encoding", _I, _I)

LINE_WRAPPER = [lambda z: Sym(z, "ref")]  # contracts/C02.py puts its abstract-string class here

IO_OPEN = "io-model: open(path, 'r'|'rb', ..) raises OSError iff source_unreadable(path), else yields a new handle over the path's lines / bytes; close() is logged"
IO_WRAP = "io-model: io.TextIOWrapper(byte_stream, encoding=e) is a new text handle over the stream's lines, read from the CURRENT position (obligation: position 0)"
IO_ITER = ("io-model: iterating the text handle delivers line(f, 0..n_lines(f)-1) in order; delivering line k may instead raise UnicodeDecodeError "
           "(decode_error_at(f, k))")
IO_BYTES = "io-model: BytesIO.read() returns bytes_of(stream) and leaves the position at the end; seek(0, 0) rewinds"
IO_CHARDET = "chardet-model: detect(data) = {'encoding': a non-empty abstract string or None, 'confidence': a real in [0, 1]} (uninterpreted in data)"


def events(eng, op=None):
    ev = eng.ghost.setdefault("io", [])
    return ev if op is None else [e for e in ev if e["op"] == op]


def _positions(eng):
    return eng.ghost.setdefault("stream_pos", {})


def position(eng, stream):
    """0 | 'end' : where the next read of the byte stream starts"""
    return _positions(eng).get(stream.z.get_id(), 0)


def _close(eng, recv, args, kwargs):
    eng.ghost.setdefault("closed", []).append(recv.z)
    events(eng).append(dict(op="close", handle=recv))
    return None


def _closed(eng, v):
    """handle.closed: True once close() has been called on it"""
    return any(z.eq(v.z) for z in eng.ghost.get("closed", []))


def _ctx_enter(eng, recv, args, kwargs):
    return recv


def _ctx_exit(eng, recv, args, kwargs):
    _close(eng, recv, [], {})
    return False


def _line_iter(src):
    def it(eng, recv):
        def getter(k):
            if eng.branch(eng.sbool(DECERR(src, k.z))):
                raise ProgExc(UnicodeDecodeError, "codec can't decode")
            return LINE_WRAPPER[0](LINE(src, k.z))

        eng.assume(NL(src) >= 0)
        eng.assumptions.add(IO_ITER)
        return NL(src), getter

    return it


IO_READLINES = ("io-model: handle.readlines() on a fresh handle returns the list of ALL lines line(f, 0..n_lines(f)-1); readlines(hint) with a positive hint "
                "stops once the lines returned so far total at least `hint` characters: the FIRST m lines for some 0 <= m <= n_lines(f) (m >= 1 when there is a "
                "line) - nothing says m = n_lines(f); decoding happens in the call: UnicodeDecodeError if one of the lines returned does not decode")


def _readlines(src):
    def readlines(eng, recv, args, kwargs):
        if kwargs or len(args) > 1:
            raise Unsupported("readlines() argument form")
        hint = args[0] if args else None
        eng.assume(NL(src) >= 0)
        eng.assumptions.add(IO_READLINES)
        if hint is None or (isinstance(hint, int) and not isinstance(hint, bool) and hint <= 0):
            m = NL(src)
        elif isinstance(hint, int) and not isinstance(hint, bool):
            m = z3.Const(fresh_name("lines_returned"), _I)
            eng.assume(z3.And(m >= 0, m <= NL(src), z3.Implies(NL(src) >= 1, m >= 1)))
        else:
            raise Unsupported("readlines(hint) with a symbolic hint")
        # either one of the lines returned does not decode (a witness position) or every one of them does
        k, w = z3.Int(fresh_name("rl")), z3.Const(fresh_name("undecodable_line"), _I)
        if eng.branch(eng.sbool(z3.Const(fresh_name("some_line_undecodable"), z3.BoolSort()))):
            eng.assume(z3.And(w >= 0, w < m, DECERR(src, w)))
            raise ProgExc(UnicodeDecodeError, "codec can't decode")
        eng.assume(z3.ForAll([k], z3.Implies(z3.And(k >= 0, k < m), z3.Not(DECERR(src, k))), patterns=[DECERR(src, k)]))

        def seq(e, v):
            return m, (lambda kk: LINE_WRAPPER[0](LINE(src, kk.z)))

        return Opaque(z3.Const(fresh_name("lines_read"), _I), {"__iter_seq__": seq})

    return readlines


def text_handle(src, name="text_handle", extra=None):
    """a text handle delivering the lines of source `src` (z3 Int term); `.src` names the source"""
    proto = {"__iter_seq__": _line_iter(src), "readlines": _readlines(src), "close": _close, ".closed": _closed, "__enter__": _ctx_enter, "__exit__": _ctx_exit,
             "__isinstance__": (_io.TextIOBase,)}
    proto.update(extra or {})
    h = Opaque(z3.Const(fresh_name(name), _I), proto)
    h.src = src
    return h


def text_stream(name="text_stream", encoding="utf-8"):
    """a caller-supplied text stream (StringIO, an open text file): an abstract line source that is its own handle"""
    z = z3.Const(fresh_name(name), _I)
    proto = {"__iter_seq__": _line_iter(z), "readlines": _readlines(z), "close": _close, ".closed": _closed, "__enter__": _ctx_enter, "__exit__": _ctx_exit,
             "__isinstance__": (_io.TextIOBase,), ".encoding": lambda eng, v: encoding}
    h = Opaque(z, proto)
    h.src = z
    return h


def byte_stream(name="byte_stream"):
    """a caller-supplied io.BytesIO: abstract bytes; only read() (everything) and seek(0, 0) are modelled"""
    def read(eng, recv, args, kwargs):
        if args or kwargs:
            raise Unsupported("BytesIO.read(n)")
        eng.assumptions.add(IO_BYTES)
        _positions(eng)[recv.z.get_id()] = "end"
        events(eng).append(dict(op="read", handle=recv))
        return Sym(BYTES_OF(recv.z), "ref")

    def seek(eng, recv, args, kwargs):
        if kwargs or tuple(args) not in ((0,), (0, 0)):
            raise Unsupported("BytesIO.seek other than seek(0, 0)")
        eng.assumptions.add(IO_BYTES)
        _positions(eng)[recv.z.get_id()] = 0
        events(eng).append(dict(op="seek", handle=recv))
        return 0

    return Opaque(z3.Const(fresh_name(name), _I), {"read": read, "seek": seek, "close": _close, "__isinstance__": (_io.BytesIO,)})


def path_source(name="path"):
    """an abstract file-system path (a str)"""
    return Opaque(z3.Const(fresh_name(name), _I), {"__isinstance__": (str,)})


def _open_read(prev):
    def model(eng, args, kwargs):
        mode = args[1] if len(args) > 1 else kwargs.get("mode", "r")
        if mode not in ("r", "rb", "rt"):
            if prev is None:
                raise Unsupported(f"open() with mode {mode!r} has no model")
            return prev(eng, args, kwargs)
        name = args[0]
        if isinstance(name, str):  # a literal path names some file: an abstract source determined by the text of the path
            name = Opaque(z3.Int("path:" + name), {"__isinstance__": (str,)})
        if not isinstance(name, Opaque):
            raise Unsupported("open() for reading is modelled for an abstract or literal path only")
        eng.assumptions.add(IO_OPEN)
        if eng.branch(eng.sbool(UNREADABLE(name.z))):
            raise ProgExc(OSError, "cannot open")
        kw = {k: v for k, v in kwargs.items() if k != "mode"}
        if mode == "rb":
            def read(e, recv, a, k):
                if a or k:
                    raise Unsupported("file.read(n)")
                events(e).append(dict(op="read", handle=recv))
                return Sym(BYTES_OF(name.z), "ref")

            h = Opaque(z3.Const(fresh_name("byte_handle"), _I), {"read": read, "close": _close, "__enter__": _ctx_enter, "__exit__": _ctx_exit})
            h.src = name.z
        else:
            h = text_handle(name.z)
        events(eng).append(dict(op="open", handle=h, name=name, mode=mode, encoding=kw.pop("encoding", None), kwargs=kw))
        return h

    return model


def _text_io_wrapper(eng, args, kwargs):
    buf = args[0] if args else kwargs.get("buffer")
    if not (isinstance(buf, Opaque) and _io.BytesIO in buf.proto.get("__isinstance__", ())):
        raise Unsupported("io.TextIOWrapper is modelled over an abstract byte stream only")
    eng.assumptions.add(IO_WRAP)
    if not eng.spec_mode:
        eng.prove(eng.site("byte-stream-is-at-its-start-when-wrapped"), position(eng, buf) == 0, "safety",
                  "io.TextIOWrapper decodes from the buffer's current position: a consumed stream yields no lines")
    h = text_handle(buf.z)
    kw = dict(kwargs)
    kw.pop("buffer", None)
    events(eng).append(dict(op="wrap", handle=h, buffer=buf, encoding=kw.pop("encoding", args[1] if len(args) > 1 else None), kwargs=kw))
    return h


def _chardet_detect(eng, args, kwargs):
    (data,) = args
    if not (isinstance(data, Sym) and data.kind == "ref"):
        raise Unsupported("chardet.detect of concrete data")
    eng.assumptions.add(IO_CHARDET)
    conf = fresh("real", "confidence")
    eng.assume(z3.And(conf.z >= 0, conf.z <= 1))
    enc = None
    if eng.branch(eng.sbool(DETECTED(data.z))):
        enc = Opaque(DETENC(data.z), {"__isinstance__": (str,)})  # a non-empty string (an Opaque is truthy)
    events(eng).append(dict(op="detect", data=data, encoding=enc))
    return PDict({"encoding": enc, "confidence": conf, "language": ""})


def install_io(line_wrapper=None):
    import chardet

    if line_wrapper is not None:
        LINE_WRAPPER[0] = line_wrapper
    E = models.EXTRA_MODELS
    cur = E.get(open)
    if not getattr(cur, "_ext_c01", False):
        m = _open_read(cur)
        m._ext_c01 = True
        E[open] = m
    E[_io.TextIOWrapper] = _text_io_wrapper
    E[chardet.detect] = _chardet_detect
