"""History independence of accessors: extra attributes of the inputs are ARBITRARY (contract option `extra_attrs_arbitrary=True`).

A contract is proved for ONE call on inputs "as the setup builds them".  That speaks about every later call only if (a) no call changes
the inputs -- the frame obligations `safety/frame-attr-write` / `safety/frame-write` on frozen inputs -- and (b) whatever a call DOES leave on
an input cannot change a later answer.  (b) is what this module adds.  While the carrier runs in the ordinary way, every store of an attribute
that an INPUT object (one that existed at entry) did not have at entry is recorded: owner (access path from the parameters), name, and the
SHAPE of the stored value.  If there is any, the carrier is verified a second time (verify.Verifier.verify) on inputs that already carry all
those attributes, each with an arbitrary value of the recorded shape:

    scalar of kind k            a fresh symbolic scalar of kind k (a concrete bool / int / real is a scalar of its kind)
    None / str / other constant the same constant
    1-D array, symbolic length  a fresh array of the same element kind with an arbitrary length >= 0 and arbitrary contents
    array of concrete shape     the same shape, arbitrary contents
    tuple / list / dict         component-wise (symbolic list: arbitrary length and contents)
    instance of a class         a new instance whose recorded fields are arbitrary in the same way
    an object that existed at entry (the stored value IS an input, e.g. the pid column kept to recognise a replaced column):
                                either that very object as it is NOW (an identity says nothing about contents: they may have been written
                                in place since) or an arbitrary value of its shape -- both are explored

Several shapes stored under one name are alternatives.  Nothing ties the arbitrary values to the current columns: a field computed from an
earlier state of the columns IS arbitrary with respect to the current one.  The same obligations (same names) are emitted; a carrier whose
answer depends on such a field fails its postconditions in this pass, with the stale field in the counter-model.  The values are frozen
like their owner.  Constructors (`__init__`, `__post_init__`, `__new__`) are exempt: the object under construction has no history.

What this does NOT know: an object invariant that ties a cache to the columns (a memo keyed on the column CONTENTS and checked on every read is
correct, but its proof needs "memo = f(key)" as an invariant of the class).  Such a carrier fails its postconditions in the second pass;
stating class invariants over extra attributes (assumed at entry of the second pass, proved at every exit) is not implemented.
"""
from __future__ import annotations

import z3

from .engine import Unsupported
from .values import NArr, Obj, PDict, PList, SArr, Sym, fresh, kind_of

EXEMPT = ("__init__", "__post_init__", "__new__", "__init_subclass__")


def _children(v):
    if isinstance(v, Obj):
        return [(("field", k), x) for k, x in v.fields.items()]
    if isinstance(v, PDict) and v.items is not None:
        return [(("item", k), x) for k, x in v.items.items()]
    if isinstance(v, PList) and v.items is not None:
        return [(("elem", j), x) for j, x in enumerate(v.items)]
    if isinstance(v, (tuple, list)):
        return [(("elem", j), x) for j, x in enumerate(v)]
    if isinstance(v, dict):
        return [(("item", k), x) for k, x in v.items()]
    return []


def locate(vars, uid):
    """access path (parameter name, then fields / items / elements) of the object with this uid, or None"""
    seen = set()

    def walk(v, path):
        if id(v) in seen:
            return None
        seen.add(id(v))
        if getattr(v, "uid", None) == uid and isinstance(v, (Obj, SArr, NArr, PList, PDict)):
            return path
        for step, x in _children(v):
            r = walk(x, path + (step,))
            if r is not None:
                return r
        return None

    for nm in sorted(vars):
        r = walk(vars[nm], (("var", nm),))
        if r is not None:
            return r
    return None


def follow(vars, path):
    v = vars[path[0][1]]
    for kind, k in path[1:]:
        if kind == "field":
            v = v.fields[k]
        elif kind == "item":
            v = v.items[k] if isinstance(v, PDict) else v[k]
        else:
            v = v.items[k] if isinstance(v, PList) else v[k]
    return v


def describe(eng, val, vars, depth=0):
    """shape of a stored value (hashable)"""
    uid = getattr(val, "uid", None)
    shape = _shape(eng, val, vars, depth)
    if uid is not None and uid in eng.entry_uids and isinstance(val, (Obj, SArr, NArr, PList, PDict)):
        path = locate(vars, uid)
        if path is not None:
            return ("input", path, shape if not isinstance(val, Obj) else ("opaque", "an input object"))
    return shape


def _shape(eng, val, vars, depth):
    if depth > 6:
        return ("opaque", "nesting too deep")
    if val is None or isinstance(val, (str, bytes, type)):
        return ("const", val)
    k = kind_of(val)
    if k is not None:
        return ("scalar", k)
    if hasattr(val, "__pyvc_getitem__") or hasattr(val, "__pyvc_getattr__"):
        return ("opaque", type(val).__name__)
    if isinstance(val, SArr):
        return ("sarr", val.kind, val.dtype)
    if isinstance(val, NArr):
        return ("narr", val.shape, val.kind, val.dtype)
    if isinstance(val, tuple):
        return ("tuple", tuple(describe(eng, x, vars, depth + 1) for x in val))
    if isinstance(val, PList):
        if val.items is None:
            return ("slist", tuple(val.kinds), val.tup) if val.proto is None else ("opaque", "list of protocol objects")
        return ("list", tuple(describe(eng, x, vars, depth + 1) for x in val.items))
    if isinstance(val, PDict):
        if val.items is None:
            return ("sdict", val.vkind)
        try:
            return ("dict", tuple((key, describe(eng, x, vars, depth + 1)) for key, x in val.items.items()))
        except TypeError:
            return ("opaque", "dict")
    if isinstance(val, Obj):
        return ("obj", val.cls, tuple((nm, describe(eng, x, vars, depth + 1)) for nm, x in val.fields.items()))
    return ("opaque", type(val).__name__)


def record(eng, obj, name, val):
    """called by Interp.setattr_ for every plain field store (first pass only)"""
    c = eng.cur_contract
    if c is None or c.key.replace("@setter", "").rsplit(".", 1)[-1] in EXEMPT or obj.uid not in eng.entry_uids:
        return
    live = getattr(eng, "entry_live", None)
    if live is None or eng.top_old is None:
        return
    path = locate(live, obj.uid)
    if path is None:
        return
    try:
        then = follow(eng.top_old, path)
    except (KeyError, IndexError, AttributeError, TypeError):
        return
    if not isinstance(then, Obj) or name in then.fields:
        return  # a field the object had at entry: part of the state the contract describes
    desc = describe(eng, val, live)
    alts = eng.extra_attr_templates.setdefault(eng.base_variant, {}).setdefault((path, name), [])
    if desc not in alts:
        alts.append(desc)


def arbitrary(eng, desc, vars, frozen, name):
    tag = desc[0]
    if tag == "input":
        _, path, shape = desc
        try:
            same = follow(vars, path)
        except (KeyError, IndexError, AttributeError, TypeError):
            same = None
        if shape[0] == "opaque":
            if same is None:
                raise Unsupported(f"extra attribute {name}: the input object it referred to is not there")
            return same
        if same is not None and eng.branch(fresh("bool", f"{name}_is_still_that_input")):
            return same
        return arbitrary(eng, shape, vars, frozen, name)
    if tag == "const":
        return desc[1]
    if tag == "scalar":
        return fresh(desc[1], name)
    if tag == "sarr":
        a = SArr.fresh(desc[1], name=name, dtype=desc[2])
        eng.assume(a.nz() >= 0)
        a.frozen = frozen
        return a
    if tag == "narr":
        n = 1
        for s in desc[1]:
            n *= s
        a = NArr(desc[1], [fresh(desc[2], f"{name}_{j}") for j in range(n)], desc[2], desc[3])
        a.frozen = frozen
        return a
    if tag == "tuple":
        return tuple(arbitrary(eng, d, vars, frozen, f"{name}_{j}") for j, d in enumerate(desc[1]))
    if tag == "list":
        p = PList([arbitrary(eng, d, vars, frozen, f"{name}_{j}") for j, d in enumerate(desc[1])])
        p.frozen = frozen
        return p
    if tag == "slist":
        p = PList.fresh(list(desc[1]) if desc[2] else desc[1][0], name=name, tup=desc[2])
        eng.assume(p.nz() >= 0)
        p.frozen = frozen
        return p
    if tag == "sdict":
        d = PDict.fresh(desc[1], name=name)
        d.frozen = frozen
        return d
    if tag == "dict":
        d = PDict({key: arbitrary(eng, x, vars, frozen, f"{name}_{key}") for key, x in desc[1]})
        d.frozen = frozen
        return d
    if tag == "obj":
        o = Obj(desc[1], {nm: arbitrary(eng, x, vars, frozen, f"{name}_{nm}") for nm, x in desc[2]})
        o.frozen = frozen
        return o
    raise Unsupported(f"extra attribute {name}: no arbitrary value of shape {desc[1]} (a carrier keeps such a value on its input)")


def populate(eng, vars, templates):
    """second pass: every recorded extra attribute is present on its owner, with an arbitrary value of (one of) the recorded shape(s)"""
    for (path, name), alts in sorted(templates.items(), key=lambda kv: (str(kv[0][0]), kv[0][1])):
        try:
            owner = follow(vars, path)
        except (KeyError, IndexError, AttributeError, TypeError):
            continue
        if not isinstance(owner, Obj):
            continue
        desc = alts[-1]
        for d in alts[:-1]:
            if eng.branch(fresh("bool", f"{name}_alt")):
                desc = d
                break
        owner.fields[name] = arbitrary(eng, desc, vars, bool(getattr(owner, "frozen", False)), name)
    eng.assumptions.add("history independence: attributes a carrier leaves on its inputs are arbitrary values of the stored shape when the carrier is entered again (pyvc/extra_attrs.py)")
