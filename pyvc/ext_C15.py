"""Abstractions used by contracts/C15.py (Neurolucida ASC parser) -- registered through the extension hooks.

1. ABSTRACT TOKEN STREAM.  `Parser.lexer` is an object with one ghost field `g_cur` (number of tokens handed
   out so far minus one = index of the parser's look-ahead token).  The stream itself is a fixed but unknown
   sequence tok[0 .. NTOK) described by uninterpreted functions:
       TTYPE(i)  TokenType member (as its int value),   TVAL(i)  float value of a FLOAT token,
       TUP(i)    identity of str.upper(value) of a string-valued token (injective code of the text).
   `next(lexer, None)` yields tok[0], tok[1], ... then None for ever; a token is the scalar `oref` i + 1 (0 = None).
   Any read may instead raise ValueError (the real lexer does so for a word such as `3.5mm`).
   DEPTH(i) = number of '(' minus number of ')' among tok[0 .. i)  (ghost, defined by recursion on i; the instance
   for index c is added when token c is consumed).
2. ABSTRACT AST HEAP.  ASTNode / AST instances created by the parser are scalars `ref` 1, 2, ... in allocation order;
   their fields live in arrays of a ghost heap object (kind, parent, four point values, tree label, attach stamp).
   `add_child` is modelled by its contract (verified separately on real objects in contracts/C15.py);
   the `tokens` attribute (never read by the parser for a decision) is a write-only sink.
"""
from __future__ import annotations

import z3

from . import models
from .engine import ProgExc, Unsupported
from .values import NativeMethod, Obj, PList, SArr, Sym, fresh, fresh_name, kind_of, to_z3

I = z3.IntSort()
TTYPE = z3.Function("tok_type", I, I)
TVAL = z3.Function("tok_value", I, z3.RealSort())
TUP = z3.Function("tok_upper", I, I)
DEPTH = z3.Function("tok_depth", I, I)
NTOK = z3.Int("tok_n")

A_STREAM = ("C15 abstraction: Parser.lexer is an abstract one-shot token stream tok[0..N) (symbolic N, symbolic type/value per token); "
            "next(lexer, None) yields the tokens in order, then None for ever, or raises ValueError (lexer error) at any read "
            "[for the real Lexer this is the verified simulation step of the linked contracts Parser._read_token / Parser.__init__ (contracts/C15.py Part 3b) "
            "over the ghost definitions of the token stream of a text]")
A_DEPTH = "ghost definition: DEPTH(i+1) = DEPTH(i) + (1 if tok[i] is '(' else -1 if tok[i] is ')' else 0), DEPTH(0) = 0"
A_HEAP = ("C15 abstraction: AST nodes built by the parser are references into a ghost heap (allocation order); ASTNode.add_child is used through its "
          "contract (parent set, appended last, nothing else changed); the `tokens` lists are a write-only sink")
A_NT = "typing.NamedTuple constructor: the tuple of its fields in declaration order"
A_UPPER = "str.upper of a token value: TypeError for a FLOAT token's float, otherwise an opaque text compared by an injective code"


def _mod():
    import swcgeom.transforms.neurolucida_asc as m

    return m


def tt(name):
    """int value of a TokenType member of the CURRENT source."""
    return _mod().TokenType[name].value


def at(name):
    return _mod().ASTType[name].value


def str_code(s: str) -> int:
    """injective code of a text (big-endian bytes, offset so that it never collides with small ints)"""
    return int.from_bytes(b"\x01" + s.encode("utf-8"), "big")


def tokref(c):
    """the look-ahead token when the cursor is c: tok[c] (as c + 1) or None (0)"""
    return z3.If(z3.And(c >= 0, c < NTOK), c + 1, z3.IntVal(0))


def depth_step(c):
    t = TTYPE(c)
    return DEPTH(c + 1) == DEPTH(c) + z3.If(t == tt("BRACKET_LEFT"), 1, z3.If(t == tt("BRACKET_RIGHT"), -1, 0))


# ------------------------------------------------------------------ values
class SymEnum:
    """A member of an Enum class known only symbolically (z = its int value)."""

    def __init__(self, z, enum_cls):
        self.z = z
        self.enum_cls = enum_cls

    def __eq__(self, other):
        if isinstance(other, SymEnum):
            return _sb(self.z == other.z) if other.enum_cls is self.enum_cls else False
        if isinstance(other, self.enum_cls):
            return _sb(self.z == other.value)
        return False

    def __ne__(self, other):  # pragma: no cover  (the engine negates __eq__ itself)
        r = self.__eq__(other)
        return _sb(z3.Not(r.z)) if isinstance(r, Sym) else (not r)

    __hash__ = object.__hash__

    def __pyvc_getattr__(self, eng, name):
        if name == "name":
            return models.SymStr(["<", self.enum_cls.__name__, " member>"])
        if name == "value":
            return Sym(self.z, "int")
        raise Unsupported(f"attribute {name} of a symbolic enum member")


def _sb(z):
    z = z3.simplify(z)
    if z3.is_true(z):
        return True
    if z3.is_false(z):
        return False
    return Sym(z, "bool")


class TokVal:
    """`.value` of token idx: float(word) for FLOAT tokens, a text otherwise."""

    def __init__(self, idx):
        self.idx = idx

    def real(self):
        return TVAL(self.idx)


class TokenValue:
    """`.value` of a token seen through Lexer.__next__'s contract: a number part (FLOAT tokens) and a text part (all others)"""

    def __init__(self, real, text):
        self.real_z, self.text = real, text

    def __pyvc_snapshot__(self, memo):
        return self


def token_type_z(tok):
    """z3 Int: the TokenType value of a Token object (concrete member or symbolic)"""
    t = tok.fields["type"]
    return t.z if isinstance(t, SymEnum) else z3.IntVal(t.value)


def token_text(tok):
    """the text part of a token's value (str / symbolic string) or None"""
    from .ext_C15_text import SStr

    v = tok.fields["value"]
    if isinstance(v, TokenValue):
        return v.text
    return v if isinstance(v, (str, SStr)) else None


def token_real(tok):
    """the number part of a token's value (z3 Real) or None"""
    v = tok.fields["value"]
    if isinstance(v, TokenValue):
        return v.real_z
    return to_z3(v, "real") if kind_of(v) in ("real", "int") else None


class UpperLit:
    """str.upper(token.value) for a string-valued token: compared with literals through TUP."""

    def __init__(self, idx):
        self.idx = idx

    def __eq__(self, other):
        if isinstance(other, str):
            return _sb(TUP(self.idx) == str_code(other))
        if isinstance(other, UpperLit):
            return _sb(TUP(self.idx) == TUP(other.idx))
        return False

    __hash__ = object.__hash__


class ConcUpper(str):
    """str.upper(value) of token idx when the (upper-cased) text is fixed by the document shape"""

    def __new__(cls, text, idx):
        o = super().__new__(cls, text)
        o.idx = idx
        return o


class TokSink:
    """the `tokens` list of an abstract AST node: appended to, never read"""

    def __pyvc_getattr__(self, eng, name):
        if name in ("append", "extend"):
            return NativeMethod(lambda e, r, a, k: None, self, name)
        raise Unsupported(f"tokens.{name} on the abstract AST heap")


class _HeapCls:  # marker class of the ghost heap object
    pass


HEAP_INT = ("kind", "par", "ord", "nch", "label")
HEAP_REAL = ("vx", "vy", "vz", "vr")


def new_heap(S):
    f = dict(n=S.int("heap_n"), clock=S.int("heap_clock"))
    for k in HEAP_INT:
        f[k] = SArr.fresh("int", name="heap_" + k)
    for k in HEAP_REAL:
        f[k] = SArr.fresh("real", name="heap_" + k)
    return Obj(_HeapCls, f, name="heap")


def _state(eng):
    return eng.ghost.get("c15")


# ------------------------------------------------------------------ next()
_prev_next = models.BUILTIN_MODELS.get(next)


TPOS = z3.Function("tok_start", I, I)  # ghost: TPOS(k) = look-ahead index of the Lexer before it lexes token k
A_LINK = ("ghost definitions (token stream of a text): TPOS(0) = 0, TPOS(k+1) = the Lexer's look-ahead after the token lexed at TPOS(k); "
          "TTYPE(k) / TVAL(k) = type / float value of that token (well defined: Lexer.__next__'s postcondition gives token and new look-ahead as "
          "functions of the text and the old look-ahead); NTOK = least k such that only blanks follow TPOS(k) (exists: every token consumes at least "
          "one character); the instance for k is added when token k is handed out")


def _m_next_linked(eng, it, args):
    """next(lexer[, None]) on a REAL Lexer (fields r / next_char / lineno / column) that carries the ghost counter g_cur: the real
    Lexer.__next__ is used through its contract; ghost code advances the counter, stamps the token with its index and adds the
    definitional instances of the token-stream vocabulary for it"""
    from . import ext_C15_text as T

    if len(args) == 2 and args[1] is not None or len(args) > 2:
        raise Unsupported("next(lexer, default) with a default other than None")
    eng.assumptions.add(A_LINK)
    eng.assumptions.add(A_DEPTH)
    c = to_z3(it.fields["g_cur"], "int")
    try:
        tok = eng.call(eng.getattr_(it, "__next__"), [], {})
    except ProgExc as e:
        if isinstance(e.cls, type) and issubclass(e.cls, StopIteration) and len(args) == 2:
            tok = None
        else:
            raise
    eng.assume(depth_step(c))  # definitional instance for the token being consumed (as in the abstract model)
    it.fields["g_cur"] = Sym(z3.simplify(c + 1), "int")
    if tok is not None:
        if not (isinstance(tok, Obj) and "type" in tok.fields):
            raise Unsupported("Lexer.__next__ returned something that is not a Token")
        k = z3.simplify(c + 1)
        tok.fields["g_idx"] = Sym(k, "int")
        p, sl = it.fields["r"].pos, T.as_slice(it.fields["next_char"])
        if sl is None:
            raise Unsupported("Lexer.next_char is not one piece of the text")
        facts = [TTYPE(k) == token_type_z(tok), TPOS(k + 1) == p - (sl[1] - sl[0])]
        if token_real(tok) is not None:
            facts.append(TVAL(k) == token_real(tok))
        eng.assume(z3.And(*facts))
    return tok


def _m_next(eng, args, kwargs):
    it = args[0]
    if isinstance(it, Obj) and "g_cur" in it.fields and "r" in it.fields:
        return _m_next_linked(eng, it, args)
    if isinstance(it, Obj) and "g_cur" in it.fields:
        if len(args) == 2 and args[1] is not None or len(args) > 2:
            raise Unsupported("next(lexer, default) with a default other than None on the abstract token stream")
        eng.assumptions.add(A_STREAM)
        eng.assumptions.add(A_DEPTH)
        if not (_state(eng) or {}).get("no_lexer_error") and eng.branch(fresh("bool", "lexer_error")):
            raise ProgExc(ValueError, "lexer error (float(word) of a malformed number)")
        c = to_z3(it.fields["g_cur"], "int")
        eng.assume(depth_step(c))  # definitional instance for the token being consumed
        c1 = z3.simplify(c + 1)
        it.fields["g_cur"] = Sym(c1, "int")
        conc = (_state(eng) or {}).get("concrete")  # fixed-shape streams: token types / length are concrete, values symbolic
        if conc is not None and z3.is_int_value(c1):
            k = c1.as_long()
            if len(args) == 1 and not 0 <= k < len(conc):
                raise ProgExc(StopIteration, "end of the token stream")
            return Sym(z3.IntVal(k + 1 if 0 <= k < len(conc) else 0), "oref")
        if len(args) == 1 and not eng.branch(_sb(z3.And(c1 >= 0, c1 < NTOK))):
            raise ProgExc(StopIteration, "end of the token stream")  # next() without a default
        return Sym(z3.simplify(tokref(c1)), "oref")
    if _prev_next is not None:
        return _prev_next(eng, args, kwargs)
    raise Unsupported("next()")


# ------------------------------------------------- abstract AST for walk_ast
# An immutable AST given by ghost functions over node references R0 .. ENDALL-1 (0 = None), numbered in DOCUMENT ORDER:
#   W_KIND(x) ASTType value, W_NCH(x) number of children, W_CHILD(x, j) the j-th child, W_PAR(x) parent, W_END(x) first reference
#   behind the subtree of x, W_LABEL(x) code of a TREE node's value, W_V[c](x) the four numbers of a NODE,
#   W_RK(x) number of NODE-kind references before x, W_ENCL(x) the TREE node x lies in (0 = none).
W_KIND = z3.Function("ast_kind", I, I)
W_NCH = z3.Function("ast_nchildren", I, I)
W_CHILD = z3.Function("ast_child", I, I, I)
W_PAR = z3.Function("ast_parent", I, I)
W_END = z3.Function("ast_end", I, I)
W_LABEL = z3.Function("ast_label", I, I)
W_V = [z3.Function("ast_" + c, I, z3.RealSort()) for c in ("x", "y", "z", "r")]
W_RK = z3.Function("ast_points_before", I, I)
W_ENCL = z3.Function("ast_enclosing_tree", I, I)
A_WALK = ("C15 abstraction (walk_ast): the AST is an immutable tree given by ghost functions over node references (kind, children, "
          "parent, value); `node.children` is the sequence child(x, 0 .. nch(x)), `node.value` the four numbers of a NODE or the text of a TREE label "
          "(compared with literals through an injective code); a write to an AST node is refused")


class NodeVal(tuple):
    """`.value` of an abstract AST node: unpacks like the four numbers of a NODE, compares with a str like a TREE label"""

    def __new__(cls, ref):
        o = super().__new__(cls, [Sym(f(ref), "real") for f in W_V])
        o.ref = ref
        return o

    def __pyvc_compare__(self, eng, op, a, b):
        import ast as _ast

        other = b if a is self else a
        if isinstance(op, (_ast.Eq, _ast.NotEq)) and isinstance(other, str):
            r = _sb(W_LABEL(self.ref) == str_code(other))
            return r if isinstance(op, _ast.Eq) else eng.unop(_ast.Not(), r)
        return NotImplemented


class Kids:
    """`.children` of an abstract AST node (possibly reversed): an immutable sequence"""

    def __init__(self, ref, rev=False):
        self.ref, self.rev = ref, rev

    def __pyvc_snapshot__(self, memo):
        return self

    def __pyvc_sequence__(self, eng):
        n = W_NCH(self.ref)
        if self.rev:
            return n, (lambda k: Sym(W_CHILD(self.ref, n - 1 - to_z3(k, "int")), "oref"))
        return n, (lambda k: Sym(W_CHILD(self.ref, to_z3(k, "int")), "oref"))

    def __pyvc_getattr__(self, eng, name):
        raise Unsupported(f"children.{name} on the abstract AST (the AST is immutable)")


_prev_reversed = models.BUILTIN_MODELS.get(reversed)


def _m_reversed(eng, args, kwargs):
    if len(args) == 1 and isinstance(args[0], Kids):
        return Kids(args[0].ref, not args[0].rev)
    return _prev_reversed(eng, args, kwargs)


def walk_extend_hook(eng, recv, src):
    """contract option extend_hook: `lst.extend(<pairs over a symbolic sequence>)` on a symbolic list of tuples gives a list whose
    columns are fresh constants DEFINED pointwise (old entries kept, new entries = the source's, in order) instead of lambda terms"""
    from .values import Iter

    inner = src
    if isinstance(inner, Iter):
        if inner.consumed:
            return None
        inner.consumed = True
        inner = inner.seq
    if not (isinstance(inner, PList) and inner.items is None and recv.items is None and inner.tup == recv.tup and len(inner.kinds) == len(recv.kinds)):
        raise Unsupported("extend of a symbolic list by this kind of iterable")
    from .values import sort_of, zint

    n0, k = zint(recv.n), zint(inner.n)
    i = z3.Int(fresh_name("ex"))
    cols = []
    for c0, c1, k0 in zip(recv.cols, inner.cols, recv.kinds):
        c = z3.Const(fresh_name(recv.name + "_ext"), z3.ArraySort(I, sort_of(k0)))
        new_elem = z3.simplify(z3.Select(c1, i - n0))
        eng.assume(z3.ForAll([i], z3.Implies(z3.And(i >= 0, i < n0), z3.Select(c, i) == z3.Select(c0, i)), patterns=[z3.Select(c, i)]))
        eng.assume(z3.ForAll([i], z3.Implies(z3.And(i >= n0, i < n0 + k), z3.Select(c, i) == new_elem), patterns=[z3.Select(c, i)]))
        cols.append(c)
    recv.cols = cols
    recv.n = z3.simplify(n0 + k)
    eng.assumptions.add("list.extend on a symbolic list: the result is the old entries followed by the source's entries in order (defined pointwise)")
    return None


# ------------------------------------------------------------ scalar attrs
_prev_scalar_attr = models.scalar_attr


def _scalar_attr(eng, v, name):
    st = _state(eng)
    if st is not None and st.get("walk") and isinstance(v, Sym) and v.kind == "oref":
        eng.assumptions.add(A_WALK)
        if name not in ("type", "value", "children"):
            raise Unsupported(f"attribute {name} of an abstract AST node (walk_ast)")
        if not eng.spec_mode and not eng.branch(_sb(v.z != 0)):
            raise ProgExc(AttributeError, f"'NoneType' object has no attribute '{name}'")
        if name == "type":
            return SymEnum(W_KIND(v.z), _mod().ASTType)
        if name == "value":
            return NodeVal(v.z)
        return Kids(v.z)
    if st is not None and isinstance(v, Sym):
        if v.kind == "oref" and name in ("type", "value", "lineno", "column"):
            if not eng.spec_mode and not eng.branch(_sb(v.z != 0)):
                raise ProgExc(AttributeError, f"'NoneType' object has no attribute '{name}'")
            idx = z3.simplify(v.z - 1)
            conc = st.get("concrete")
            if name == "type":
                if conc is not None and z3.is_int_value(idx):
                    return _mod().TokenType[conc[idx.as_long()][0]]
                return SymEnum(TTYPE(idx), _mod().TokenType)
            if name == "value":
                return TokVal(idx)
            return Sym(z3.Const(fresh_name("tok_" + name), I), "int")
        if v.kind == "ref":
            h = st["heap"]
            if name == "type":
                return SymEnum(z3.Select(h.fields["kind"].arr, v.z), _mod().ASTType)
            if name == "tokens":
                return TokSink()
            if name == "add_child":
                return NativeMethod(_m_add_child, v, name)
            raise Unsupported(f"attribute {name} of an abstract AST node")
    return _prev_scalar_attr(eng, v, name)


def _m_add_child(eng, recv, args, kwargs):
    (ch,) = args
    h = _state(eng)["heap"].fields
    if not (isinstance(ch, Sym) and ch.kind == "ref"):
        raise Unsupported("add_child of a non-abstract node")
    eng.assumptions.add(A_HEAP)
    p, c = recv.z, ch.z
    h["par"].arr = z3.Store(h["par"].arr, c, p)
    h["ord"].arr = z3.Store(h["ord"].arr, c, to_z3(h["clock"], "int"))
    h["clock"] = Sym(z3.simplify(to_z3(h["clock"], "int") + 1), "int")
    h["nch"].arr = z3.Store(h["nch"].arr, p, z3.Select(h["nch"].arr, p) + 1)
    return None


# --------------------------------------------------------- constructors
def _alloc(eng, kindv, value):
    h = _state(eng)["heap"].fields
    eng.assumptions.add(A_HEAP)
    nid = z3.simplify(to_z3(h["n"], "int") + 1)
    h["n"] = Sym(nid, "int")
    kz = kindv.z if isinstance(kindv, SymEnum) else z3.IntVal(kindv.value)
    h["kind"].arr = z3.Store(h["kind"].arr, nid, kz)
    h["par"].arr = z3.Store(h["par"].arr, nid, z3.IntVal(0))
    h["nch"].arr = z3.Store(h["nch"].arr, nid, z3.IntVal(0))
    if isinstance(value, tuple) and len(value) == 4:
        for f, x in zip(HEAP_REAL, value):
            xz = x.real() if isinstance(x, TokVal) else to_z3(x, "real")
            h[f].arr = z3.Store(h[f].arr, nid, xz)
    elif isinstance(value, ConcUpper):
        h["label"].arr = z3.Store(h["label"].arr, nid, TUP(value.idx))
    elif isinstance(value, UpperLit):
        h["label"].arr = z3.Store(h["label"].arr, nid, TUP(value.idx))
    elif isinstance(value, str):
        h["label"].arr = z3.Store(h["label"].arr, nid, z3.IntVal(str_code(value)))
    return Sym(nid, "ref")


def _bind(names, defaults, args, kwargs):
    vals = dict(zip(names, args))
    if len(args) > len(names):
        raise ProgExc(TypeError, "too many positional arguments")
    for k, v in kwargs.items():
        if k not in names or k in vals:
            raise ProgExc(TypeError, f"unexpected argument {k}")
        vals[k] = v
    for k in names:
        if k not in vals:
            if k not in defaults:
                raise ProgExc(TypeError, f"missing argument {k}")
            vals[k] = defaults[k]
    return vals


def _empty(v):
    return v is None or (isinstance(v, PList) and v.items == [])


def _m_astnode(eng, args, kwargs):
    if _state(eng) is None:
        return eng.instantiate(_mod().ASTNode, args, kwargs)
    b = _bind(["type", "value", "tokens", "children"], dict(value=None, tokens=None, children=None), args, kwargs)
    if not _empty(b["children"]):
        raise Unsupported("ASTNode(children=[...]) on the abstract heap")
    return _alloc(eng, b["type"], b["value"])


def _m_ast(eng, args, kwargs):
    if _state(eng) is None:
        return eng.instantiate(_mod().AST, args, kwargs)
    b = _bind(["children", "source"], dict(children=None, source=""), args, kwargs)
    if not _empty(b["children"]):
        raise Unsupported("AST(children=[...]) on the abstract heap")
    return _alloc(eng, _mod().ASTType.ROOT, None)


def _namedtuple_model(cls):
    def m(eng, args, kwargs):
        eng.assumptions.add(A_NT)
        b = _bind(list(cls._fields), dict(getattr(cls, "_field_defaults", {})), args, kwargs)
        return tuple(b[f] for f in cls._fields)

    return m


def _m_upper(eng, args, kwargs):
    (v,) = args
    if isinstance(v, TokVal):
        eng.assumptions.add(A_UPPER)
        conc = (_state(eng) or {}).get("concrete")
        if conc is not None and z3.is_int_value(v.idx):
            t, lit = conc[v.idx.as_long()]
            if t == "FLOAT":
                raise ProgExc(TypeError, "str.upper of a float")
            if lit is not None:
                return ConcUpper(lit, v.idx)
        if eng.branch(_sb(TTYPE(v.idx) == tt("FLOAT"))):
            raise ProgExc(TypeError, "str.upper of a float")
        return UpperLit(v.idx)
    if isinstance(v, str):
        return v.upper()
    raise ProgExc(TypeError, "descriptor 'upper' requires a 'str' object")


# ------------------------------------------------- exception objects in handlers
class _TB:  # marker classes of the traceback model
    pass


class _OpaqueName:
    """an unknown function name: every comparison with a text is an independent unknown"""

    def __eq__(self, other):
        return fresh("bool", "name_eq")

    __hash__ = object.__hash__


A_TB = ("exception model: __cause__ of an exception raised by a contract-level call is None or some exception object; "
        "__traceback__ is a chain of 3 frames with unknown function names")


def _exc_getattr(self, eng, name):
    if name == "__cause__":
        if self.cause is not None:
            return self.cause
        if not hasattr(self, "_c15_cause"):
            eng.assumptions.add(A_TB)
            self._c15_cause = Obj(ValueError, {}, name="cause") if eng.branch(fresh("bool", "has_cause")) else None
        return self._c15_cause
    if name == "__traceback__":
        if not hasattr(self, "_c15_tb"):
            eng.assumptions.add(A_TB)
            tb = None
            for _ in range(3):
                tb = Obj(_TB, dict(tb_next=tb, tb_frame=Obj(_TB, dict(f_code=Obj(_TB, dict(co_name=_OpaqueName()))))), name="traceback")
            self._c15_tb = tb
        return self._c15_tb
    try:
        return getattr(self, name)
    except AttributeError:
        raise ProgExc(AttributeError, name)


# ------------------------------------------------------- concrete text reader
class ConcreteReader:
    """io.StringIO over a concrete text: read(1) and readline() only (what the Lexer uses)."""

    def __init__(self, text):
        self.text = text
        self.pos = 0

    def rest(self):
        return self.text[self.pos:]

    def __pyvc_getattr__(self, eng, name):
        if name == "read":
            return NativeMethod(ConcreteReader._read, self, name)
        if name == "readline":
            return NativeMethod(ConcreteReader._readline, self, name)
        raise Unsupported(f"reader.{name}")

    @staticmethod
    def _read(eng, recv, args, kwargs):
        eng.assumptions.add("io model: concrete text reader, read(1) returns the next character or '' at the end, readline() the rest of the line incl. its newline")
        if list(args) != [1] or kwargs:
            raise Unsupported("reader.read(n) with n != 1")
        ch = recv.text[recv.pos:recv.pos + 1]
        recv.pos += len(ch)
        return ch

    @staticmethod
    def _readline(eng, recv, args, kwargs):
        if args or kwargs:
            raise Unsupported("reader.readline(size)")
        k = recv.text.find("\n", recv.pos)
        end = len(recv.text) if k < 0 else k + 1
        line = recv.text[recv.pos:end]
        recv.pos = end
        return line


_prev_is_pure_native = models.is_pure_native


def _is_pure_native(fn):
    import re

    if isinstance(getattr(fn, "__self__", None), (re.Pattern, re.Match)):
        return True  # regex matching on concrete strings is run natively
    return _prev_is_pure_native(fn)


def install():
    models.is_pure_native = _is_pure_native
    ProgExc.__pyvc_getattr__ = _exc_getattr
    m = _mod()
    models.EXTRA_MODELS[next] = _m_next
    models.EXTRA_MODELS[reversed] = _m_reversed
    models.EXTRA_MODELS[str.upper] = _m_upper
    models.EXTRA_MODELS[m.ASTNode] = _m_astnode
    models.EXTRA_MODELS[m.AST] = _m_ast
    for cls in (m.ASCNode, m.ASCColor, m.ASCComment):
        models.EXTRA_MODELS[cls] = _namedtuple_model(cls)
    models.scalar_attr = _scalar_attr
    from . import verify

    if hasattr(verify, "EXTRA_EXC"):
        for cls in (m.TokenTypeError, m.LiteralTokenError, m.AssertionTokenTypeError):
            verify.EXTRA_EXC[cls.__name__] = cls
