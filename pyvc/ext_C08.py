"""Library models and value classes added for property C08 (branches, paths, tips, furcations).

Everything here is reached through the extension points of pyvc.models (EXTRA_MODELS / EXTRA_METHODS) or through
objects handed in by contracts/C08.py; no shared engine file is edited.  Models that strengthen an existing one
are active only while a C08 carrier is verified (`eng.prop == "C08"`), so other properties keep their behaviour.
"""
from __future__ import annotations

import itertools

import numpy as np
import z3

from . import models, npmodels
from .engine import Frame, ProgExc, Unsupported
from .values import Iter, NArr, NativeMethod, Obj, PList, SArr, Sym, fresh_name, kind_of, to_z3, zint


def _mine(eng):
    return getattr(eng, "prop", None) == "C08"


# ---------------------------------------------------------------------------------------------------------------
# counting: rank / select view of np.count_nonzero
def mask_key(mask):
    """Canonical key of a boolean array term: the body at a fixed index name, so that two lambda arrays with
    the same body (built by the code and by a clause) denote the same count function."""
    c = z3.Int("i!canon")
    return z3.simplify(z3.Select(mask.arr, c)).sexpr()


def count_rs(eng, mask, upto=None):
    """cnt(i) = number of True entries of `mask` below i (rank), pos(k) = position of the k-th True entry (select).
    Assumed facts (all theorems about counting the True entries of a finite boolean sequence):
      cnt(0) = 0; cnt(i+1) = cnt(i) + [mask[i]]; 0 <= cnt(i) <= i; cnt monotone;
      for 0 <= k < cnt(i):  0 <= pos(k) < i, mask[pos(k)], cnt(pos(k)) = k;
      two masks of one length with equal entries have equal counts."""
    key = ("cnt-rs", mask_key(mask))
    hit = eng.ghost.get(key)
    if hit is None:
        eng.assumptions.add("numpy-model:np.count_nonzero (rank/select: unfolding, monotone rank, k-th True position exists, masks with equal entries have equal counts)")
        tag = fresh_name("cnt")
        f = z3.Function(tag, z3.IntSort(), z3.IntSort())
        pos = z3.Function(tag + "_pos", z3.IntSort(), z3.IntSort())
        i, j, k = z3.Int("i_" + tag), z3.Int("j_" + tag), z3.Int("k_" + tag)
        b = lambda t: z3.If(to_z3(mask.get(t), "bool"), 1, 0)
        eng.assume(f(0) == 0)
        eng.assume(z3.ForAll([i], z3.Implies(i >= 0, f(i + 1) == f(i) + b(i)), patterns=[f(i + 1)]))
        eng.assume(z3.ForAll([i], z3.Implies(i >= 0, z3.And(f(i) >= 0, f(i) <= i)), patterns=[f(i)]))
        eng.assume(z3.ForAll([i, j], z3.Implies(z3.And(0 <= i, i <= j), f(i) <= f(j)), patterns=[z3.MultiPattern(f(i), f(j))]))
        eng.assume(z3.ForAll([k, i], z3.Implies(z3.And(0 <= k, k < f(i), i >= 0),
                                                z3.And(0 <= pos(k), pos(k) < i, to_z3(mask.get(pos(k)), "bool"), f(pos(k)) == k)),
                             patterns=[z3.MultiPattern(pos(k), f(i))]))
        # the count depends only on the entries: two masks that agree below n have the same count at n
        reg = eng.ghost.setdefault(("cnt-rs-all",), [])
        e = z3.Int("e_" + tag)
        for f2, mask2 in reg:
            same = z3.ForAll([e], z3.Implies(z3.And(0 <= e, e < mask.nz()), to_z3(mask.get(e), "bool") == to_z3(mask2.get(e), "bool")))
            eng.assume(z3.Implies(z3.And(mask.nz() == mask2.nz(), same), f(mask.nz()) == f2(mask2.nz())))
        reg.append((f, mask))
        hit = (f, pos)
        eng.ghost[key] = hit
    f, pos = hit
    n = mask.nz() if upto is None else to_z3(upto, "int")
    return Sym(f(n), "int"), f, pos


def _np_count_nonzero(eng, args, kwargs):
    if not _mine(eng) or len(args) != 1 or kwargs or not isinstance(args[0], SArr):
        return npmodels._np_count_nonzero(eng, args, kwargs)
    a = args[0]
    if a.kind != "bool":
        a = SArr(npmodels.lam(lambda i: a.get(i).z != 0, "bool"), a.n, "bool")
    return count_rs(eng, a)[0]


models.EXTRA_MODELS[np.count_nonzero] = _np_count_nonzero


# ---------------------------------------------------------------------------------------------------------------
# np.setdiff1d(a, b, assume_unique=True)
def _np_setdiff1d(eng, args, kwargs):
    """numpy: `ar1[isin(ar1, ar2, assume_unique=True, invert=True)]` — the entries of `a`, IN THE ORDER OF `a`, whose
    value does not occur in `b` (the result is sorted only if `a` is).  The documented requirement that the inputs
    have no repeated values is kept for `a` as an obligation; for `b` it is not needed (repeated values of `b` only
    touch the flags of `b`'s own entries in numpy's sort-based and table-based algorithms; cross-checked against
    numpy 2.x on 20 000 random inputs with repeated `b` values)."""
    a, b = args[0], args[1]
    au = kwargs.get("assume_unique", args[2] if len(args) > 2 else False)
    if all(isinstance(x, NArr) and x.ndim == 1 and all(isinstance(i, int) and not isinstance(i, bool) for i in x.items) for x in (a, b)) and isinstance(au, bool):
        # concrete integer arrays (fixed-topology variants): numpy itself computes the result
        eng.assumptions.add("numpy-model:np.setdiff1d on concrete integer arrays: evaluated by numpy itself")
        r = np.setdiff1d(np.array(a.items, dtype=np.int64), np.array(b.items, dtype=np.int64), assume_unique=au)
        return NArr((len(r),), [int(i) for i in r], "int")
    if not (isinstance(a, SArr) and isinstance(b, SArr)):
        raise Unsupported("np.setdiff1d on non-symbolic arrays")
    if au is not True:
        raise Unsupported("np.setdiff1d without assume_unique=True (sorting/unique not modelled)")
    eng.assumptions.add("numpy-model:np.setdiff1d(a, b, assume_unique=True) = a[~isin(a, b)] in a's order; a must have distinct values (obligation), b need not")
    if not eng.spec_mode:
        p, q = z3.Ints(fresh_name("p") + " " + fresh_name("q"))
        eng.prove(eng.site("setdiff1d-first-argument-has-distinct-values"),
                  z3.ForAll([p, q], z3.Implies(z3.And(0 <= p, p < q, q < a.nz()), a.get(p).z != a.get(q).z)), "safety")
    j = z3.Int(fresh_name("sj"))
    k = npmodels._join_kind(a.kind, b.kind)
    mask = SArr(npmodels.lam(lambda i: z3.Not(z3.Exists([j], z3.And(j >= 0, j < b.nz(), to_z3(b.get(j), k) == to_z3(a.get(i), k)))), "bool"), a.n, "bool")
    return npmodels.mask_filter(eng, a, mask)


models.EXTRA_MODELS[np.setdiff1d] = _np_setdiff1d


# ---------------------------------------------------------------------------------------------------------------
# lists of objects of symbolic length:  [Cls(fixed..., x) for x in <symbolic array>]
class ObjList(PList):
    """Symbolic-length list whose elements are instances of one class that differ only in scalar fields:
    element k has fields `fixed` (shared values) and, for each name in `varying`, the entry k of a z3 array."""

    def __init__(self, cls, fixed, varying, n, avarying=None):
        super().__init__()
        self.items = None
        self.cls_, self.fixed = cls, dict(fixed)
        # array-valued fields that differ per element: name -> (Array Int (Array Int kind), Array Int Int [lengths], kind); every element
        # owns its array (the comprehension evaluated the constructor once per position)
        self.avarying = dict(avarying or {})
        self.vnames = list(varying)
        self.kinds = [varying[v][1] for v in self.vnames]
        self.cols = [varying[v][0] for v in self.vnames]
        self.tup = False
        self.n = n
        self.name = "objs"

    def get(self, i):
        iz = to_z3(i, "int")
        f = dict(self.fixed)
        for nm, c, k in zip(self.vnames, self.cols, self.kinds):
            f[nm] = Sym(z3.simplify(z3.Select(c, iz)), k)
        for nm, (arrs, lens, k) in self.avarying.items():
            f[nm] = SArr(z3.simplify(z3.Select(arrs, iz)), z3.simplify(z3.Select(lens, iz)), k, name=nm)
        return Obj(self.cls_, f)

    def col(self, name):
        return self.cols[self.vnames.index(name)]


def _obj_comprehension(eng, n, fr, kind, first):
    """[elt for x in S] over a symbolic-length S where elt builds an object (a node handle): evaluated once,
    symbolically in the position, like pyvc.npmodels.symbolic_comprehension."""
    gens = n.generators
    length, getter = models.as_sequence(eng, first)
    i = z3.Int(fresh_name("ci"))
    sub = Frame(parent=fr, globs=fr.globs, func=fr.func)
    eng.assign(gens[0].target, getter(Sym(i, "int")), sub)
    nz = length.z if isinstance(length, Sym) else zint(length)
    saved = list(eng.pc)
    eng.pc.append(z3.And(i >= 0, i < nz))
    eng.pure_mode = getattr(eng, "pure_mode", 0) + 1
    from .values import next_uid

    mark = next_uid()
    before = _UidsUpTo(mark)
    try:
        vv = eng.ev(n.elt, sub)
    finally:
        eng.pure_mode -= 1
        new = eng.pc[len(saved) + 1:]
        eng.pc = saved
        for h in new:
            eng.pc.append(z3.ForAll([i], z3.Implies(z3.And(i >= 0, i < nz), h)))
    if not isinstance(vv, Obj):
        return None
    fixed, varying, avarying = {}, {}, {}
    for nm, val in vv.fields.items():
        if isinstance(val, Sym):
            varying[nm] = (z3.Lambda([i], val.z), val.kind)
        elif kind_of(val) is not None:
            varying[nm] = (z3.Lambda([i], to_z3(val)), kind_of(val))
        elif isinstance(val, SArr) and val.uid not in before:  # an array allocated by the element expression (e.g. np.array(entry))
            avarying[nm] = (_eta(i, val.arr), _eta(i, val.nz()), val.kind)
        else:
            fixed[nm] = val
    out = ObjList(vv.cls, fixed, varying, z3.simplify(nz), avarying)
    return Iter(out) if kind == "gen" else out


def _eta(i, body):
    """Lambda i. body, written as the array A itself when body is A[i] with i not free in A"""
    if z3.is_select(body) and body.arg(1).eq(i) and not _mentions(body.arg(0), i):
        return body.arg(0)
    return z3.Lambda([i], body)


def _mentions(t, v):
    todo, seen = [t], set()
    while todo:
        a = todo.pop()
        if a.get_id() in seen:
            continue
        seen.add(a.get_id())
        if a.eq(v):
            return True
        if z3.is_app(a):
            todo.extend(a.children())
        elif z3.is_quantifier(a):
            todo.append(a.body())
    return False


class _UidsUpTo:
    def __init__(self, mark):
        self.mark = mark

    def __contains__(self, uid):
        return uid <= self.mark


class ModelsProxy:
    """`eng.models` replacement (contract option `models=`): the pyvc.models module with comprehensions that
    build objects over a symbolic sequence added."""

    def __getattr__(self, name):
        return getattr(models, name)

    def comprehension(self, eng, n, fr, kind):
        gens = n.generators
        if kind in ("list", "gen") and len(gens) == 1 and not gens[0].ifs and isinstance(n.elt, __import__("ast").Call):
            first = eng.ev(gens[0].iter, fr)
            if isinstance(first, (SArr,)) or (isinstance(first, PList) and first.items is None):
                pc0, nob = list(eng.pc), len(eng.obligs)
                r = _obj_comprehension(eng, n, fr, kind, first)
                if r is not None:
                    return r
                eng.pc = pc0
                del eng.obligs[nob:]
                return npmodels.symbolic_comprehension(eng, n, fr, kind, first)
        return models.comprehension(eng, n, fr, kind)


MODELS = ModelsProxy()


# ---------------------------------------------------------------------------------------------------------------
# dict[int, list] of unknown prior content, used through stores of list OBJECTS (aliasing matters)
class RefDict:
    """`d[key] = obj`: the stores made by the carrier are recorded in order as (key, object); reading a key that
    the carrier has not stored is outside the model."""

    def __init__(self, writes=()):
        from .values import next_uid

        self.writes = list(writes)
        self.uid = next_uid()

    def __pyvc_setitem__(self, eng, key, val):
        self.writes.append((key, val))

    def __pyvc_getitem__(self, eng, key):
        for k, v in reversed(self.writes):
            if (isinstance(k, Sym) and isinstance(key, Sym) and k.z.eq(key.z)) or (not isinstance(k, Sym) and not isinstance(key, Sym) and k == key):
                return v
            raise Unsupported("RefDict: read of a key that may alias an earlier store")
        raise Unsupported("RefDict: read of a key not stored by the carrier")

    def __pyvc_snapshot__(self, memo):
        from .values import snapshot

        c = RefDict([(k, snapshot(v, memo)) for k, v in self.writes])
        c.uid = self.uid
        return c


def ilen(p):
    """z3 length of an int list (concrete or symbolic PList)."""
    return zint(len(p.items)) if p.items is not None else zint(p.n)


def iat(p, i, kind="int"):
    """z3 entry i of an int list (concrete or symbolic PList)."""
    if p.items is not None:
        return models._ite_chain(p.items, i, kind)
    return z3.Select(p.cols[0], i)


# ---------------------------------------------------------------------------------------------------------------
# itertools.chain over lists of symbolic length
def _chain(eng, args, kwargs):
    if not _mine(eng) or not args or all(isinstance(a, PList) and a.items is not None for a in args) or not all(isinstance(a, PList) for a in args):
        return models._b_chain(eng, args, kwargs)
    eng.assumptions.add("stdlib-model:itertools.chain(l1, ..., lk) yields the entries of l1, then l2, ... in order")
    acc = args[0]
    for b in args[1:]:
        acc = models.concat_lists(eng, acc, b)
    return Iter(acc)


models.EXTRA_MODELS[itertools.chain] = _chain


# ---------------------------------------------------------------------------------------------------------------
# list.reverse() on symbolic lists; lists of objects with runs of unknown length
class SymSeg:
    """Marker element of a concrete list: a run (of unknown length, possibly empty) of unknown objects, identified
    by `tag`; `rev` tells whether the run currently appears in reverse order.  A list holding such markers is a
    rope: append / extend / reverse keep the structure exact; its length is not a number, so len() is refused."""

    def __init__(self, tag, rev=False):
        self.tag, self.rev = tag, rev

    def flipped(self):
        return SymSeg(self.tag, not self.rev)

    def __repr__(self):
        return f"<run {self.tag}{' reversed' if self.rev else ''}>"


def has_runs(v):
    return isinstance(v, PList) and v.items is not None and any(isinstance(x, SymSeg) for x in v.items)


def _m_reverse(eng, recv, args, kwargs):
    if not _mine(eng) or not isinstance(recv, PList):
        return models.LIST_METHODS["reverse"](eng, recv, args, kwargs)
    models.check_frame(eng, recv)
    if recv.items is not None:
        recv.items = [x.flipped() if isinstance(x, SymSeg) else x for x in reversed(recv.items)]
        return None
    eng.assumptions.add("stdlib-model:list.reverse() reverses in place (entry i becomes entry n-1-i)")
    n = zint(recv.n)
    i = z3.Int(fresh_name("rv"))
    recv.cols = [z3.Lambda([i], z3.Select(c, n - 1 - i)) for c in recv.cols]
    return None


models.EXTRA_METHODS[(PList, "reverse")] = _m_reverse


def _len(eng, args, kwargs):
    if args and has_runs(args[0]):
        raise Unsupported("len() of a list that contains runs of unknown length")
    return models._b_len(eng, args, kwargs)


models.EXTRA_MODELS[len] = _len


# ---------------------------------------------------------------------------------------------------------------
# lists of int lists (and lists of those) of symbolic lengths: the values that Tree.get_paths hands through the traversal
AII = z3.ArraySort(z3.IntSort(), z3.IntSort())
AAII = z3.ArraySort(z3.IntSort(), AII)
AAAII = z3.ArraySort(z3.IntSort(), AAII)


def frozen_ints(content, n, name="ints"):
    """an immutable int list (a write through it is a failed frame obligation)"""
    p = PList()
    p.items, p.cols, p.kinds, p.tup, p.n = None, [content], ["int"], False, n
    p.name, p.frozen = name, True
    return p


class LList(PList):
    """list (symbolic length n) of int lists: entry k is the list Select(val, k)[0 .. Select(lens, k)).  The element lists are
    immutable in this model: they are handed out as frozen snapshots."""

    def __init__(self, val, lens, n, name="ll"):
        super().__init__()
        self.items, self.cols, self.kinds, self.tup, self.n, self.name = None, [val, lens], ["int*", "int"], False, n, name

    @staticmethod
    def fresh(eng, name="ll", n=None):
        n = z3.Int(fresh_name(name + "_len")) if n is None else n
        v, l = z3.Const(fresh_name(name + "_v"), AAII), z3.Const(fresh_name(name + "_l"), AII)
        i = z3.Int(fresh_name("i"))
        eng.assume(z3.And(n >= 0, z3.ForAll([i], z3.Select(l, i) >= 0)))
        return LList(v, l, n, name)

    def get(self, i):
        iz = to_z3(i, "int")
        return frozen_ints(z3.Select(self.cols[0], iz), z3.Select(self.cols[1], iz), self.name + "_entry")

    def promote(self, *a, **k):
        raise Unsupported("promotion of a list of lists")

    def __pyvc_getitem__(self, eng, idx):
        if isinstance(idx, slice):
            raise Unsupported("slice of a list of lists of symbolic length")
        return self.get(models.norm_index(eng, idx, self.n, "list index"))


def ll_view(v):
    """(val: Array Int (Array Int Int), lens: Array Int Int, n) of a list of int lists: an LList, or a concrete list whose
    items are int lists"""
    if isinstance(v, LList):
        return v.cols[0], v.cols[1], zint(v.n)
    if isinstance(v, PList) and v.items is not None and all(isinstance(x, PList) and not isinstance(x, LList) for x in v.items):
        val, lens = z3.K(z3.IntSort(), z3.K(z3.IntSort(), z3.IntVal(0))), z3.K(z3.IntSort(), z3.IntVal(0))
        for k, x in enumerate(v.items):
            if x.items is None:
                if x.kinds != ["int"] or x.tup:
                    return None
                c, ln = x.cols[0], zint(x.n)
            else:
                c = z3.K(z3.IntSort(), z3.IntVal(0))
                for j, e in enumerate(x.items):
                    if kind_of(e) not in ("int", "bool"):
                        return None
                    c = z3.Store(c, j, to_z3(e, "int"))
                ln = z3.IntVal(len(x.items))
            val, lens = z3.Store(val, k, c), z3.Store(lens, k, ln)
        return val, lens, z3.IntVal(len(v.items))
    return None


class StarSeq:
    """`*seq` of a sequence of symbolic length, handed to the callee's model as one marker argument"""

    def __init__(self, seq):
        self.seq = seq


class LLList(PList):
    """list (symbolic length n) of lists of int lists: entry k is LList(Select(val, k), Select(lens, k), Select(ns, k))"""

    def __init__(self, val, lens, ns, n, name="lll"):
        super().__init__()
        self.items, self.cols, self.kinds, self.tup, self.n, self.name = None, [val, lens, ns], ["int**", "int*", "int"], False, n, name

    @staticmethod
    def fresh(eng, n, name="lll"):
        v, l, ns = z3.Const(fresh_name(name + "_v"), AAAII), z3.Const(fresh_name(name + "_l"), AAII), z3.Const(fresh_name(name + "_n"), AII)
        i, j = z3.Int(fresh_name("i")), z3.Int(fresh_name("j"))
        eng.assume(z3.ForAll([i], z3.Select(ns, i) >= 0))
        eng.assume(z3.ForAll([i, j], z3.Select(z3.Select(l, i), j) >= 0))
        return LLList(v, l, ns, n, name)

    def get(self, i):
        iz = to_z3(i, "int")
        return LList(z3.Select(self.cols[0], iz), z3.Select(self.cols[1], iz), z3.Select(self.cols[2], iz), self.name + "_entry")

    def promote(self, *a, **k):
        raise Unsupported("promotion of a list of lists of lists")

    def __pyvc_getitem__(self, eng, idx):
        if isinstance(idx, slice):
            raise Unsupported("slice of a list of lists of symbolic length")
        return self.get(models.norm_index(eng, idx, self.n, "list index"))

    def __pyvc_star__(self, eng):
        return StarSeq(self)


def chain_star(eng, lll):
    """itertools.chain(*L) for a list L (symbolic length K) of lists of int lists: the concatenation.  Ghost offsets:
    off(0) = 0, off(k+1) = off(k) + len(L[k]), off monotone; the result has off(K) entries, entry off(k) + j is L[k][j]
    (0 <= j < len(L[k])), and every position i < off(K) lies in exactly one segment seg(i)."""
    eng.assumptions.add("stdlib-model:itertools.chain(*L) over a list of lists of symbolic length = their concatenation (ghost offsets off(k) = len(L[0]) + ... + len(L[k-1]), monotone; seg(i) = the list that position i comes from)")
    val3, lens2, ns = lll.cols
    K = zint(lll.n)
    tag = fresh_name("cat")
    off = z3.Function(tag + "_off", z3.IntSort(), z3.IntSort())
    seg = z3.Function(tag + "_seg", z3.IntSort(), z3.IntSort())
    k, k2, i = z3.Int("k_" + tag), z3.Int("m_" + tag), z3.Int("i_" + tag)
    eng.assume(off(0) == 0)
    eng.assume(z3.ForAll([k], z3.Implies(z3.And(0 <= k, k < K), off(k + 1) == off(k) + z3.Select(ns, k)), patterns=[off(k + 1), z3.Select(ns, k)]))
    eng.assume(z3.ForAll([k, k2], z3.Implies(z3.And(0 <= k, k <= k2, k2 <= K), off(k) <= off(k2)), patterns=[z3.MultiPattern(off(k), off(k2))]))
    eng.assume(z3.ForAll([i], z3.Implies(z3.And(0 <= i, i < off(K)), z3.And(0 <= seg(i), seg(i) < K, off(seg(i)) <= i, i < off(seg(i) + 1))), patterns=[seg(i)]))
    n = off(K)
    # the result's entries as fresh arrays with pointwise definitions (no lambda terms: cheaper for the solver)
    outv, outl = z3.Const(tag + "_v", AAII), z3.Const(tag + "_l", AII)
    src = lambda arr3: z3.Select(z3.Select(arr3, seg(i)), i - off(seg(i)))
    eng.assume(z3.ForAll([i], z3.Select(outv, i) == src(val3), patterns=[z3.Select(outv, i)]))
    eng.assume(z3.ForAll([i], z3.Select(outl, i) == src(lens2), patterns=[z3.Select(outl, i)]))
    out = LList(outv, outl, n, "chained")
    eng.ghost["last-chain"] = dict(off=off, seg=seg, K=K, src=lll, out=out)
    return out


_chain0 = _chain


def _chain(eng, args, kwargs):  # noqa: F811
    if _mine(eng) and len(args) == 1 and isinstance(args[0], StarSeq) and isinstance(args[0].seq, LLList):
        return Iter(chain_star(eng, args[0].seq))
    return _chain0(eng, args, kwargs)


models.EXTRA_MODELS[itertools.chain] = _chain


def _list(eng, args, kwargs):
    v = args[0] if args else None
    inner = v.seq if isinstance(v, Iter) and not v.consumed else v
    if isinstance(inner, LList):
        if isinstance(v, Iter):
            v.consumed = True
        return LList(inner.cols[0], inner.cols[1], inner.n, "listed")  # a new list object with the same (immutable) element lists
    return models._b_list(eng, args, kwargs)


models.EXTRA_MODELS[list] = _list


# ---------------------------------------------------------------------------------------------------------------
# proof steps in a reduced context
def _has_nested_array(t, cache={}):
    """does the formula mention a term whose sort is an array of arrays (contents of lists of lists)?"""
    key = t.get_id()
    if key in cache and cache[key][0].eq(t):  # the cached term is kept alive, so its id cannot be reused by another term
        return cache[key][1]
    todo, seen, hit = [t], set(), False
    while todo and not hit:
        a = todo.pop()
        if a.get_id() in seen:
            continue
        seen.add(a.get_id())
        if z3.is_quantifier(a):
            todo.append(a.body())
            continue
        so = a.sort()
        if so.kind() == z3.Z3_ARRAY_SORT and so.range().kind() == z3.Z3_ARRAY_SORT:
            hit = True
        elif z3.is_app(a):
            todo.extend(a.children())
    cache[key] = (t, hit)
    return hit


def prove_without_list_contents(eng, label, goal, kind="annotation", note=""):
    """Like eng.prove, but the obligation's hypotheses are the SUBSET of the path condition that does not speak about the contents of
    lists of lists (nested arrays).  Sound: fewer hypotheses prove a stronger statement.  For steps that are pure arithmetic /
    uninterpreted-function reasoning the array theory only costs time."""
    from .engine import Oblig

    hyps = [h for h in eng.pc if not _has_nested_array(h)]
    note = (note + " " if note else "") + "[reduced context]" + (f" [variant {eng.variant}]" if getattr(eng, "variant", "") else "")
    eng.obligs.append(Oblig(f"{eng.prop}/{label}", hyps, goal, kind, note))
    eng.pc.append(goal)


def _symbols(t, cache={}):
    """names of the uninterpreted function symbols and constants of a formula"""
    key = t.get_id()
    if key in cache and cache[key][0].eq(t):  # the cached term is kept alive, so its id cannot be reused by another term
        return cache[key][1]
    out, todo, seen = set(), [t], set()
    while todo:
        a = todo.pop()
        if a.get_id() in seen:
            continue
        seen.add(a.get_id())
        if z3.is_quantifier(a):
            todo.append(a.body())
            for k in range(a.num_patterns()):
                todo.extend(a.pattern(k).children())
        elif z3.is_app(a):
            if a.decl().kind() == z3.Z3_OP_UNINTERPRETED:
                out.add(a.decl().name())
            todo.extend(a.children())
    cache[key] = (t, out)
    return out


def _is_quantified(t):
    todo, seen = [t], set()
    while todo:
        a = todo.pop()
        if a.get_id() in seen:
            continue
        seen.add(a.get_id())
        if z3.is_quantifier(a):
            return True
        if z3.is_app(a):
            todo.extend(a.children())
    return False


def prove_in_vocabulary(eng, label, goal, vocabulary, kind="annotation", note=""):
    """Like eng.prove, but the hypotheses are a SUBSET of the path condition: every quantifier-free fact, and the quantified facts
    that speak only about the given vocabulary (z3 function declarations / constants, or names).  Sound (fewer hypotheses prove a
    stronger statement); it keeps a proof step independent of unrelated facts, so that the solver's work is small and repeatable."""
    from .engine import Oblig

    names = set()
    for s in vocabulary:
        if isinstance(s, str):
            names.add(s)
        elif isinstance(s, z3.FuncDeclRef):
            names.add(s.name())
        else:
            names |= _symbols(s)  # a term: every uninterpreted symbol in it
    hyps = [h for h in eng.pc if not _is_quantified(h) or _symbols(h) <= names]
    note = (note + " " if note else "") + "[context restricted to: " + ", ".join(sorted(names)) + "]" + (f" [variant {eng.variant}]" if getattr(eng, "variant", "") else "")
    eng.obligs.append(Oblig(f"{eng.prop}/{label}", hyps, goal, kind, note))
    eng.pc.append(goal)


# ---------------------------------------------------------------------------------------------------------------
# lists of Path / Branch objects on one tree (symbolic length), and lists of (such a list, int list) pairs:
# the values that Tree.get_branches hands through the traversal
def pointwise(eng, sort, name, body_of, i=None):
    """a fresh array A with  forall i. A[i] == body_of(i)  (pattern A[i]); no lambda term is created"""
    a = z3.Const(fresh_name(name), sort)
    i = z3.Int(fresh_name("pw")) if i is None else i
    eng.assume(z3.ForAll([i], z3.Select(a, i) == body_of(i), patterns=[z3.Select(a, i)]))
    return a


class BranchSeq(PList):
    """list (symbolic length n) of objects of ONE class (Tree.Path / Tree.Branch) that share all fields (`fixed`: attach, names,
    source) except their index array: entry k has idx = cols[0][k] [0 .. cols[1][k]).  The objects are values here: identity is not
    observed, the index array of a stored object is never written (the handed-out arrays are frozen)."""

    def init_seq(self, idx=None, lens=None, n=0, cls=None, fixed=None, name="branches"):
        self.items, self.kinds, self.tup, self.name = None, ["int*", "int"], False, name
        self.cols = [idx if idx is not None else z3.Const(fresh_name(name + "_idx"), AAII), lens if lens is not None else z3.Const(fresh_name(name + "_len"), AII)]
        self.n, self.cls_, self.fixed = n, cls, (dict(fixed) if fixed is not None else None)
        return self

    @staticmethod
    def make(idx=None, lens=None, n=0, cls=None, fixed=None, name="branches"):
        return BranchSeq().init_seq(idx, lens, n, cls, fixed, name)

    def get(self, i):
        iz = to_z3(i, "int")
        if self.cls_ is None:
            raise Unsupported("element of a list of branches whose class is not known yet")
        a = SArr(z3.Select(self.cols[0], iz), z3.Select(self.cols[1], iz), "int", name="idx")
        a.frozen = True
        return Obj(self.cls_, dict(self.fixed, idx=a))

    def promote(self, *a, **k):
        raise Unsupported("promotion of a list of branches")

    def __pyvc_getitem__(self, eng, idx):
        if isinstance(idx, slice):
            raise Unsupported("slice of a list of branches of symbolic length")
        return self.get(models.norm_index(eng, idx, self.n, "list index"))

    def adopt(self, cls, fixed):
        if self.cls_ is None:
            self.cls_, self.fixed = cls, dict(fixed)
            return
        if cls is not self.cls_ or set(fixed) != set(self.fixed) or any(not _same_value(fixed[k], self.fixed[k]) for k in fixed):
            raise Unsupported(f"list of branches: objects of another class / on another tree ({cls} vs {self.cls_}; {sorted(fixed)} vs {sorted(self.fixed)}; " + ", ".join(k for k in fixed if k in self.fixed and not _same_value(fixed[k], self.fixed[k])) + ")")


def _same_value(a, b):
    return a is b or (type(a) is type(b) and not isinstance(a, (Obj, PList, SArr, NArr, Sym)) and a == b)


def branch_seq_empty(eng, lst):
    """loop-contract `types` hint: a still empty concrete list that will receive Branch objects becomes an (empty) BranchSeq in place"""
    if lst.items:
        raise Unsupported("branch_seq_empty: the list is not empty")
    lst.__class__ = BranchSeq
    lst.init_seq(name=getattr(lst, "name", "branches") or "branches")
    eng.assumptions.add("list-model: a list of Path/Branch objects on one tree is stored as the list of their index arrays (the objects are values: identity is never observed, a stored index array is never written)")


def _bs_obj_fields(x):
    if not (isinstance(x, Obj) and isinstance(x.fields.get("idx"), SArr) and x.fields["idx"].kind == "int"):
        raise Unsupported("append of something that is not a Path/Branch object with an int index array")
    return x.cls, {k: v for k, v in x.fields.items() if k != "idx"}, x.fields["idx"]


def _bs_append(eng, recv, args, kwargs):
    (x,) = args
    models.check_frame(eng, recv)
    cls, fixed, idx = _bs_obj_fields(x)
    recv.adopt(cls, fixed)
    n = zint(recv.n)
    recv.cols = [z3.Store(recv.cols[0], n, idx.arr), z3.Store(recv.cols[1], n, idx.nz())]
    recv.n = z3.simplify(n + 1)
    idx.frozen = True  # the object's array is now also reachable through the list: values only
    return None


def _bs_reverse(eng, recv):
    models.check_frame(eng, recv)
    eng.assumptions.add("stdlib-model:list.reverse() reverses in place (entry i becomes entry n-1-i)")
    n = zint(recv.n)
    c0, c1 = recv.cols
    recv.cols = [pointwise(eng, AAII, recv.name + "_ridx", lambda i: z3.Select(c0, n - 1 - i)), pointwise(eng, AII, recv.name + "_rlen", lambda i: z3.Select(c1, n - 1 - i))]
    return None


def _bs_extend(eng, recv, args, kwargs):
    (src,) = args
    models.check_frame(eng, recv)
    if isinstance(src, Iter):
        src.consumed, src = True, src.seq
    if not isinstance(src, BranchSeq):
        raise Unsupported("extend of a list of branches by something else")
    eng.assumptions.add("stdlib-model:list.extend(l2) appends the entries of l2 in order")
    if src.cls_ is not None:
        recv.adopt(src.cls_, src.fixed)
    n = zint(recv.n)
    c0, c1, s0, s1 = recv.cols + src.cols
    recv.cols = [pointwise(eng, AAII, recv.name + "_xidx", lambda i: z3.If(i < n, z3.Select(c0, i), z3.Select(s0, i - n))),
                 pointwise(eng, AII, recv.name + "_xlen", lambda i: z3.If(i < n, z3.Select(c1, i), z3.Select(s1, i - n)))]
    recv.n = z3.simplify(n + zint(src.n))
    return None


models.EXTRA_METHODS[(BranchSeq, "append")] = _bs_append
models.EXTRA_METHODS[(BranchSeq, "extend")] = _bs_extend

_m_reverse0 = _m_reverse


def _m_reverse(eng, recv, args, kwargs):  # noqa: F811
    if isinstance(recv, BranchSeq):
        return _bs_reverse(eng, recv)
    if _mine(eng) and isinstance(recv, PList) and recv.items is None and not isinstance(recv, (LList, LLList)) and recv.kinds == ["int"]:
        models.check_frame(eng, recv)
        eng.assumptions.add("stdlib-model:list.reverse() reverses in place (entry i becomes entry n-1-i)")
        n, c = zint(recv.n), recv.cols[0]
        recv.cols = [pointwise(eng, AII, recv.name + "_rev", lambda i: z3.Select(c, n - 1 - i))]
        return None
    return _m_reverse0(eng, recv, args, kwargs)


models.EXTRA_METHODS[(PList, "reverse")] = _m_reverse


class PairList(PList):
    """list (symbolic length n) of (BranchSeq, int list) pairs: entry k = (branches with index arrays cols[0][k][i] of lengths
    cols[1][k][i], i < cols[2][k];  ints cols[3][k][0 .. cols[4][k]) ).  `get` hands out MUTABLE objects (the leave callback of
    get_branches consumes its children's results); aliasing between two reads of one entry is not modelled, so an entry may be read
    only once per path (`view` is the read of specification code)."""

    def __init__(self, eng, n, cls, fixed, name="pre"):
        super().__init__()
        mk = lambda suffix, sort: z3.Const(fresh_name(f"{name}_{suffix}"), sort)
        self.items, self.kinds, self.tup, self.n, self.name = None, ["int**", "int*", "int", "int*", "int"], True, n, name
        self.cols = [mk("bidx", AAAII), mk("blen", AAII), mk("bn", AII), mk("ch", AAII), mk("cn", AII)]
        self.cls_, self.fixed, self.reads = cls, dict(fixed), 0
        i, j, k, k2 = z3.Int(fresh_name("i")), z3.Int(fresh_name("j")), z3.Int(fresh_name("k")), z3.Int(fresh_name("m"))
        bn = self.cols[2]
        eng.assume(z3.ForAll([i], z3.And(z3.Select(bn, i) >= 0, z3.Select(self.cols[4], i) >= 0)))
        eng.assume(z3.ForAll([i, j], z3.Select(z3.Select(self.cols[1], i), j) >= 0))
        # ghost: loff(k) = (number of branches of entry 0) + 1 + ... + (number of branches of entry k-1) + 1, and the entry lseg(p) whose
        # block [loff(k), loff(k+1)) holds position p  (what a consumer that emits len(branches_k) + 1 items per entry produces)
        tag = fresh_name("blk")
        self.loff, self.lseg = z3.Function(tag + "_off", z3.IntSort(), z3.IntSort()), z3.Function(tag + "_seg", z3.IntSort(), z3.IntSort())
        loff, lseg, K = self.loff, self.lseg, zint(n)
        eng.assume(loff(0) == 0)
        eng.assume(z3.ForAll([k], z3.Implies(z3.And(0 <= k, k < K), loff(k + 1) == loff(k) + z3.Select(bn, k) + 1), patterns=[loff(k + 1), z3.Select(bn, k)]))
        eng.assume(z3.ForAll([k, k2], z3.Implies(z3.And(0 <= k, k <= k2, k2 <= K), loff(k) <= loff(k2)), patterns=[z3.MultiPattern(loff(k), loff(k2))]))
        eng.assume(z3.ForAll([i], z3.Implies(z3.And(0 <= i, i < loff(K)), z3.And(0 <= lseg(i), lseg(i) < K, loff(lseg(i)) <= i, i < loff(lseg(i) + 1))), patterns=[lseg(i)]))
        eng.assumptions.add("ghost definitions per list of child results: loff(k) = sum over the first k entries of (number of branches + 1), monotone; lseg(p) = the entry whose block holds position p")

    def view(self, k):
        kz = to_z3(k, "int")
        b = BranchSeq.make(z3.Select(self.cols[0], kz), z3.Select(self.cols[1], kz), z3.Select(self.cols[2], kz), self.cls_, self.fixed, self.name + "_branches")
        c = PList()
        c.items, c.cols, c.kinds, c.tup, c.n, c.name = None, [z3.Select(self.cols[3], kz)], ["int"], False, z3.Select(self.cols[4], kz), self.name + "_chain"
        return (b, c)

    def get(self, k):
        self.reads += 1
        if self.reads > 1:
            raise Unsupported("second read of an entry of the child results (aliasing between two reads is not modelled)")
        return self.view(k)

    def promote(self, *a, **k):
        raise Unsupported("promotion of a list of pairs")

    def __pyvc_getitem__(self, eng, idx):
        if isinstance(idx, slice):
            raise Unsupported("slice of the child results")
        return self.get(models.norm_index(eng, idx, self.n, "list index"))


# ---------------------------------------------------------------------------------------------------------------
# np.nonzero of a CONCRETE 1-D mask (fixed-topology variants of BranchTree.from_tree): the positions of the true entries in order;
# the model is the one of pyvc.ext_C10 (it falls back to the stock symbolic model for every other argument)
def _np_nonzero(eng, args, kwargs):
    from .ext_C10 import _nonzero

    return _nonzero(eng, args, kwargs)


models.EXTRA_MODELS[np.nonzero] = _np_nonzero


# ---------------------------------------------------------------------------------------------------------------
# lists of Node handles on one tree (pyvc.ext_C07.NodeList: stored as the list of the handles' indices): `append` of a handle
from .ext_C07 import NodeList, _nl_append  # noqa: E402

models.EXTRA_METHODS[(NodeList, "append")] = _nl_append
