"""Library models and value classes added for property C08 (branches, paths, tips, furcations).

Everything here is reached through the extension points of pyvc.models (EXTRA_MODELS / EXTRA_METHODS) or through
objects handed in by contracts/C08.py; no shared engine file is edited.  Models that strengthen an existing one
are active only while a C08 carrier is verified (`eng.prop == "C08"`), so other properties keep their behaviour.
"""
from __future__ import annotations

import itertools

import numpy as np
import z3

from . import models, npmodels
from .engine import Frame, ProgExc, Unsupported
from .values import Iter, NArr, NativeMethod, Obj, PList, SArr, Sym, fresh_name, kind_of, to_z3, zint


def _mine(eng):
    return getattr(eng, "prop", None) == "C08"


# ---------------------------------------------------------------------------------------------------------------
# counting: rank / select view of np.count_nonzero
def mask_key(mask):
    """Canonical key of a boolean array term: the body at a fixed index name, so that two lambda arrays with
    the same body (built by the code and by a clause) denote the same count function."""
    c = z3.Int("i!canon")
    return z3.simplify(z3.Select(mask.arr, c)).sexpr()


def count_rs(eng, mask, upto=None):
    """cnt(i) = number of True entries of `mask` below i (rank), pos(k) = position of the k-th True entry (select).
    Assumed facts (all theorems about counting the True entries of a finite boolean sequence):
      cnt(0) = 0; cnt(i+1) = cnt(i) + [mask[i]]; 0 <= cnt(i) <= i; cnt monotone;
      for 0 <= k < cnt(i):  0 <= pos(k) < i, mask[pos(k)], cnt(pos(k)) = k;
      two masks of one length with equal entries have equal counts."""
    key = ("cnt-rs", mask_key(mask))
    hit = eng.ghost.get(key)
    if hit is None:
        eng.assumptions.add("numpy-model:np.count_nonzero (rank/select: unfolding, monotone rank, k-th True position exists, masks with equal entries have equal counts)")
        tag = fresh_name("cnt")
        f = z3.Function(tag, z3.IntSort(), z3.IntSort())
        pos = z3.Function(tag + "_pos", z3.IntSort(), z3.IntSort())
        i, j, k = z3.Int("i_" + tag), z3.Int("j_" + tag), z3.Int("k_" + tag)
        b = lambda t: z3.If(to_z3(mask.get(t), "bool"), 1, 0)
        eng.assume(f(0) == 0)
        eng.assume(z3.ForAll([i], z3.Implies(i >= 0, f(i + 1) == f(i) + b(i)), patterns=[f(i + 1)]))
        eng.assume(z3.ForAll([i], z3.Implies(i >= 0, z3.And(f(i) >= 0, f(i) <= i)), patterns=[f(i)]))
        eng.assume(z3.ForAll([i, j], z3.Implies(z3.And(0 <= i, i <= j), f(i) <= f(j)), patterns=[z3.MultiPattern(f(i), f(j))]))
        eng.assume(z3.ForAll([k, i], z3.Implies(z3.And(0 <= k, k < f(i), i >= 0),
                                                z3.And(0 <= pos(k), pos(k) < i, to_z3(mask.get(pos(k)), "bool"), f(pos(k)) == k)),
                             patterns=[z3.MultiPattern(pos(k), f(i))]))
        # the count depends only on the entries: two masks that agree below n have the same count at n
        reg = eng.ghost.setdefault(("cnt-rs-all",), [])
        e = z3.Int("e_" + tag)
        for f2, mask2 in reg:
            same = z3.ForAll([e], z3.Implies(z3.And(0 <= e, e < mask.nz()), to_z3(mask.get(e), "bool") == to_z3(mask2.get(e), "bool")))
            eng.assume(z3.Implies(z3.And(mask.nz() == mask2.nz(), same), f(mask.nz()) == f2(mask2.nz())))
        reg.append((f, mask))
        hit = (f, pos)
        eng.ghost[key] = hit
    f, pos = hit
    n = mask.nz() if upto is None else to_z3(upto, "int")
    return Sym(f(n), "int"), f, pos


def _np_count_nonzero(eng, args, kwargs):
    if not _mine(eng) or len(args) != 1 or kwargs or not isinstance(args[0], SArr):
        return npmodels._np_count_nonzero(eng, args, kwargs)
    a = args[0]
    if a.kind != "bool":
        a = SArr(npmodels.lam(lambda i: a.get(i).z != 0, "bool"), a.n, "bool")
    return count_rs(eng, a)[0]


models.EXTRA_MODELS[np.count_nonzero] = _np_count_nonzero


# ---------------------------------------------------------------------------------------------------------------
# np.setdiff1d(a, b, assume_unique=True)
def _np_setdiff1d(eng, args, kwargs):
    """numpy: `ar1[isin(ar1, ar2, assume_unique=True, invert=True)]` — the entries of `a`, IN THE ORDER OF `a`, whose
    value does not occur in `b` (the result is sorted only if `a` is).  The documented requirement that the inputs
    have no repeated values is kept for `a` as an obligation; for `b` it is not needed (repeated values of `b` only
    touch the flags of `b`'s own entries in numpy's sort-based and table-based algorithms; cross-checked against
    numpy 2.x on 20 000 random inputs with repeated `b` values)."""
    a, b = args[0], args[1]
    au = kwargs.get("assume_unique", args[2] if len(args) > 2 else False)
    if not (isinstance(a, SArr) and isinstance(b, SArr)):
        raise Unsupported("np.setdiff1d on non-symbolic arrays")
    if au is not True:
        raise Unsupported("np.setdiff1d without assume_unique=True (sorting/unique not modelled)")
    eng.assumptions.add("numpy-model:np.setdiff1d(a, b, assume_unique=True) = a[~isin(a, b)] in a's order; a must have distinct values (obligation), b need not")
    if not eng.spec_mode:
        p, q = z3.Ints(fresh_name("p") + " " + fresh_name("q"))
        eng.prove(eng.site("setdiff1d-first-argument-has-distinct-values"),
                  z3.ForAll([p, q], z3.Implies(z3.And(0 <= p, p < q, q < a.nz()), a.get(p).z != a.get(q).z)), "safety")
    j = z3.Int(fresh_name("sj"))
    k = npmodels._join_kind(a.kind, b.kind)
    mask = SArr(npmodels.lam(lambda i: z3.Not(z3.Exists([j], z3.And(j >= 0, j < b.nz(), to_z3(b.get(j), k) == to_z3(a.get(i), k)))), "bool"), a.n, "bool")
    return npmodels.mask_filter(eng, a, mask)


models.EXTRA_MODELS[np.setdiff1d] = _np_setdiff1d


# ---------------------------------------------------------------------------------------------------------------
# lists of objects of symbolic length:  [Cls(fixed..., x) for x in <symbolic array>]
class ObjList(PList):
    """Symbolic-length list whose elements are instances of one class that differ only in scalar fields:
    element k has fields `fixed` (shared values) and, for each name in `varying`, the entry k of a z3 array."""

    def __init__(self, cls, fixed, varying, n):
        super().__init__()
        self.items = None
        self.cls_, self.fixed = cls, dict(fixed)
        self.vnames = list(varying)
        self.kinds = [varying[v][1] for v in self.vnames]
        self.cols = [varying[v][0] for v in self.vnames]
        self.tup = False
        self.n = n
        self.name = "objs"

    def get(self, i):
        iz = to_z3(i, "int")
        f = dict(self.fixed)
        for nm, c, k in zip(self.vnames, self.cols, self.kinds):
            f[nm] = Sym(z3.simplify(z3.Select(c, iz)), k)
        return Obj(self.cls_, f)

    def col(self, name):
        return self.cols[self.vnames.index(name)]


def _obj_comprehension(eng, n, fr, kind, first):
    """[elt for x in S] over a symbolic-length S where elt builds an object (a node handle): evaluated once,
    symbolically in the position, like pyvc.npmodels.symbolic_comprehension."""
    gens = n.generators
    length, getter = models.as_sequence(eng, first)
    i = z3.Int(fresh_name("ci"))
    sub = Frame(parent=fr, globs=fr.globs, func=fr.func)
    eng.assign(gens[0].target, getter(Sym(i, "int")), sub)
    nz = length.z if isinstance(length, Sym) else zint(length)
    saved = list(eng.pc)
    eng.pc.append(z3.And(i >= 0, i < nz))
    eng.pure_mode = getattr(eng, "pure_mode", 0) + 1
    try:
        vv = eng.ev(n.elt, sub)
    finally:
        eng.pure_mode -= 1
        new = eng.pc[len(saved) + 1:]
        eng.pc = saved
        for h in new:
            eng.pc.append(z3.ForAll([i], z3.Implies(z3.And(i >= 0, i < nz), h)))
    if not isinstance(vv, Obj):
        return None
    fixed, varying = {}, {}
    for nm, val in vv.fields.items():
        if isinstance(val, Sym):
            varying[nm] = (z3.Lambda([i], val.z), val.kind)
        elif kind_of(val) is not None:
            varying[nm] = (z3.Lambda([i], to_z3(val)), kind_of(val))
        else:
            fixed[nm] = val
    out = ObjList(vv.cls, fixed, varying, z3.simplify(nz))
    return Iter(out) if kind == "gen" else out


class ModelsProxy:
    """`eng.models` replacement (contract option `models=`): the pyvc.models module with comprehensions that
    build objects over a symbolic sequence added."""

    def __getattr__(self, name):
        return getattr(models, name)

    def comprehension(self, eng, n, fr, kind):
        gens = n.generators
        if kind in ("list", "gen") and len(gens) == 1 and not gens[0].ifs and isinstance(n.elt, __import__("ast").Call):
            first = eng.ev(gens[0].iter, fr)
            if isinstance(first, (SArr,)) or (isinstance(first, PList) and first.items is None):
                pc0, nob = list(eng.pc), len(eng.obligs)
                r = _obj_comprehension(eng, n, fr, kind, first)
                if r is not None:
                    return r
                eng.pc = pc0
                del eng.obligs[nob:]
                return npmodels.symbolic_comprehension(eng, n, fr, kind, first)
        return models.comprehension(eng, n, fr, kind)


MODELS = ModelsProxy()


# ---------------------------------------------------------------------------------------------------------------
# dict[int, list] of unknown prior content, used through stores of list OBJECTS (aliasing matters)
class RefDict:
    """`d[key] = obj`: the stores made by the carrier are recorded in order as (key, object); reading a key that
    the carrier has not stored is outside the model."""

    def __init__(self, writes=()):
        from .values import next_uid

        self.writes = list(writes)
        self.uid = next_uid()

    def __pyvc_setitem__(self, eng, key, val):
        self.writes.append((key, val))

    def __pyvc_getitem__(self, eng, key):
        for k, v in reversed(self.writes):
            if (isinstance(k, Sym) and isinstance(key, Sym) and k.z.eq(key.z)) or (not isinstance(k, Sym) and not isinstance(key, Sym) and k == key):
                return v
            raise Unsupported("RefDict: read of a key that may alias an earlier store")
        raise Unsupported("RefDict: read of a key not stored by the carrier")

    def __pyvc_snapshot__(self, memo):
        from .values import snapshot

        c = RefDict([(k, snapshot(v, memo)) for k, v in self.writes])
        c.uid = self.uid
        return c


def ilen(p):
    """z3 length of an int list (concrete or symbolic PList)."""
    return zint(len(p.items)) if p.items is not None else zint(p.n)


def iat(p, i, kind="int"):
    """z3 entry i of an int list (concrete or symbolic PList)."""
    if p.items is not None:
        return models._ite_chain(p.items, i, kind)
    return z3.Select(p.cols[0], i)


# ---------------------------------------------------------------------------------------------------------------
# itertools.chain over lists of symbolic length
def _chain(eng, args, kwargs):
    if not _mine(eng) or not args or all(isinstance(a, PList) and a.items is not None for a in args) or not all(isinstance(a, PList) for a in args):
        return models._b_chain(eng, args, kwargs)
    eng.assumptions.add("stdlib-model:itertools.chain(l1, ..., lk) yields the entries of l1, then l2, ... in order")
    acc = args[0]
    for b in args[1:]:
        acc = models.concat_lists(eng, acc, b)
    return Iter(acc)


models.EXTRA_MODELS[itertools.chain] = _chain


# ---------------------------------------------------------------------------------------------------------------
# list.reverse() on symbolic lists; lists of objects with runs of unknown length
class SymSeg:
    """Marker element of a concrete list: a run (of unknown length, possibly empty) of unknown objects, identified
    by `tag`; `rev` tells whether the run currently appears in reverse order.  A list holding such markers is a
    rope: append / extend / reverse keep the structure exact; its length is not a number, so len() is refused."""

    def __init__(self, tag, rev=False):
        self.tag, self.rev = tag, rev

    def flipped(self):
        return SymSeg(self.tag, not self.rev)

    def __repr__(self):
        return f"<run {self.tag}{' reversed' if self.rev else ''}>"


def has_runs(v):
    return isinstance(v, PList) and v.items is not None and any(isinstance(x, SymSeg) for x in v.items)


def _m_reverse(eng, recv, args, kwargs):
    if not _mine(eng) or not isinstance(recv, PList):
        return models.LIST_METHODS["reverse"](eng, recv, args, kwargs)
    models.check_frame(eng, recv)
    if recv.items is not None:
        recv.items = [x.flipped() if isinstance(x, SymSeg) else x for x in reversed(recv.items)]
        return None
    eng.assumptions.add("stdlib-model:list.reverse() reverses in place (entry i becomes entry n-1-i)")
    n = zint(recv.n)
    i = z3.Int(fresh_name("rv"))
    recv.cols = [z3.Lambda([i], z3.Select(c, n - 1 - i)) for c in recv.cols]
    return None


models.EXTRA_METHODS[(PList, "reverse")] = _m_reverse


def _len(eng, args, kwargs):
    if args and has_runs(args[0]):
        raise Unsupported("len() of a list that contains runs of unknown length")
    return models._b_len(eng, args, kwargs)


models.EXTRA_MODELS[len] = _len
