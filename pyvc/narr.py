"""numpy arrays of *concrete shape* holding symbolic scalars (geometry code).

Index arithmetic, broadcasting and shape errors are delegated to real numpy on
integer index arrays, so a shape mismatch in the carrier surfaces exactly as the
ValueError numpy would raise (a failed `unexpected-ValueError` obligation).
"""
from __future__ import annotations

import ast
from fractions import Fraction

import numpy as np
import z3

from .engine import ProgExc, Unsupported
from .values import NArr, NativeMethod, PDict, PList, SArr, Sym, fresh, fresh_name, kind_of, to_z3, frac


def used(eng, name):
    eng.assumptions.add("numpy-model:" + name)


def kind_of_dtype(dt):
    from .npmodels import kind_of_dtype as k

    return k(dt)


def idx_of(a: NArr):
    return np.arange(len(a.items)).reshape(a.shape)


def from_list(items, kind=None, dtype=None):
    items = list(items)
    if kind is None:
        ks = {kind_of(x) for x in items}
        kind = "real" if "real" in ks else ("int" if "int" in ks else ("bool" if ks == {"bool"} else "real"))
    return NArr((len(items),), items, kind, dtype)


def from_index(src_items, ix, kind, dtype=None):
    ix = np.asarray(ix)
    return NArr(ix.shape, [src_items[j] for j in ix.reshape(-1)], kind, dtype)


def _nested(eng, v):
    """nested python structure -> (shape, flat items)"""
    if isinstance(v, NArr):
        return v.shape, list(v.items)
    if isinstance(v, PList):
        if v.items is None:
            raise Unsupported("np.array of a symbolic-length list inside a concrete structure")
        v = v.items
    if isinstance(v, (list, tuple)):
        subs = [_nested(eng, x) for x in v]
        if not subs:
            return (0,), []
        sh = subs[0][0]
        if any(s[0] != sh for s in subs):
            raise ProgExc(ValueError, "setting an array element with a sequence (inhomogeneous shape)")
        flat = [y for s in subs for y in s[1]]
        return (len(subs),) + tuple(sh), flat
    if isinstance(v, np.ndarray):
        return v.shape, [(_wrap(x)) for x in v.reshape(-1).tolist()]
    if kind_of(v) is not None:
        return (), [v]
    raise Unsupported(f"np.array element {type(v).__name__}")


def _wrap(x):
    return frac(x) if isinstance(x, float) else x


def array(eng, src, kind, dt):
    shape, flat = _nested(eng, src)
    if kind is None:
        ks = {kind_of(x) for x in flat}
        kind = "real" if "real" in ks else ("int" if "int" in ks else ("bool" if ks == {"bool"} else "real"))
    flat = [cast(eng, x, kind, dt, getattr(src, "dtype", None)) for x in flat]
    return NArr(shape, flat, kind, dt)


def cast(eng, x, kind, dt=None, src_dt=None):
    """x converted to `kind`; dt / src_dt: the numpy dtypes of target and source when the caller knows them (a symbolic float is converted to an
    integer dtype by the cast model of ext_C05_frame: truncation toward zero inside the target range)"""
    k = kind_of(x)
    if k == kind:
        return x
    if kind == "real":
        return Sym(to_z3(x, "real"), "real") if isinstance(x, Sym) else frac(x)
    if kind == "int" and k == "bool":
        return Sym(to_z3(x, "int"), "int") if isinstance(x, Sym) else int(x)
    if kind == "int" and k == "real":
        if isinstance(x, Sym):
            if dt is None:
                raise Unsupported("real -> int cast of a symbolic value")
            from .ext_C05_frame import cast_fn

            try:
                sd, dd = np.dtype(src_dt) if src_dt is not None else np.dtype("float64"), np.dtype(dt)
            except TypeError:
                raise Unsupported("real -> int cast of a symbolic value (dtype not understood)")
            return Sym(cast_fn(eng, sd, dd)(x.z), "int")
        return int(x)
    if kind == "bool":
        return eng.truth(x)
    return x


def astype(eng, a, kind, dt):
    return NArr(a.shape, [cast(eng, x, kind, dt, a.dtype) for x in a.items], kind, dt)


def _as_narr(eng, v):
    if isinstance(v, NArr):
        return v
    if isinstance(v, (PList, list, tuple)):
        return array(eng, v, None, None)
    if kind_of(v) is not None:
        return NArr((), [v], kind_of(v))
    raise Unsupported(f"array operand {type(v).__name__}")


def emap(eng, f, *ops, kind=None):
    arrs = [_as_narr(eng, o) for o in ops]
    try:
        bix = np.broadcast_arrays(*[idx_of(a) for a in arrs])
    except ValueError as e:
        raise ProgExc(ValueError, str(e))
    shape = bix[0].shape
    flats = [b.reshape(-1) for b in bix]
    its = [a.items for a in arrs]
    out = [f(*[it[fl[j]] for it, fl in zip(its, flats)]) for j in range(int(np.prod(shape, dtype=int)))]
    if kind is None:
        ks = {kind_of(x) for x in out}
        kind = "real" if "real" in ks else ("int" if "int" in ks else ("bool" if ks and ks <= {"bool"} else arrs[0].kind))
    if shape == () and all(not isinstance(o, NArr) or o.shape == () for o in ops) and not any(isinstance(o, NArr) for o in ops):
        return out[0]
    return NArr(shape, out, kind)


def binop(eng, op, a, b):
    if isinstance(a, SArr) or isinstance(b, SArr):
        raise Unsupported("mixing symbolic-length and concrete-shape arrays")
    if isinstance(op, ast.MatMult):
        return matmul(eng, a, b)
    if isinstance(op, (ast.BitAnd, ast.BitOr)):
        f = (lambda x, y: eng.and_(eng.truth(x), eng.truth(y))) if isinstance(op, ast.BitAnd) else (lambda x, y: eng.or_(eng.truth(x), eng.truth(y)))
        return emap(eng, f, a, b, kind="bool")
    return emap(eng, lambda x, y: eng.binop(op, x, y), a, b)


def unop(eng, op, a):
    return emap(eng, lambda x: eng.unop(op, x), a)


def compare(eng, op, a, b):
    return emap(eng, lambda x, y: eng.compare(op, x, y), a, b, kind="bool")


def inplace(eng, op, cur, val):
    from .models import check_frame

    check_frame(eng, cur.root())
    r = binop(eng, op, cur, val)
    if not isinstance(r, NArr) or r.shape != cur.shape:
        raise ProgExc(ValueError, "non-broadcastable output operand")
    if cur.kind == "int" and r.kind == "real":
        raise ProgExc(TypeError, "Cannot cast ufunc output from float to int (same_kind)")
    cur.items = [cast(eng, x, cur.kind) for x in r.items]


def _native_index(eng, idx):
    if isinstance(idx, tuple):
        return tuple(_native_index(eng, x) for x in idx)
    if isinstance(idx, slice):
        for x in (idx.start, idx.stop, idx.step):
            if isinstance(x, Sym):
                raise Unsupported("symbolic slice bound on a concrete-shape array")
        return idx
    if isinstance(idx, NArr):
        if idx.kind == "bool" and any(isinstance(x, Sym) for x in idx.items):
            # a symbolic boolean mask is decided bit by bit: one path per feasible mask (spec mode refuses to fork)
            return np.array([bool(eng.branch(eng.truth(x))) for x in idx.items], dtype=bool).reshape(idx.shape)
        if any(isinstance(x, Sym) for x in idx.items):
            raise Unsupported("symbolic index array")
        # the dtype comes from the KIND of the index array, not from its items: an EMPTY integer array (`ids[mask]` with nothing selected)
        # would otherwise become numpy's default float64 and the gather `a[empty]` a spurious IndexError ("arrays used as indices must be of integer type")
        dt = bool if idx.kind == "bool" else (np.intp if idx.kind == "int" else None)
        return np.array([bool(x) if idx.kind == "bool" else int(x) for x in idx.items], dtype=dt).reshape(idx.shape)
    if isinstance(idx, PList):
        if idx.items is None or any(isinstance(x, Sym) for x in idx.items):
            raise Unsupported("symbolic index list")
        return [int(x) for x in idx.items]
    if isinstance(idx, Sym):
        raise Unsupported("symbolic index into a concrete-shape array")
    if idx is None or idx is Ellipsis or isinstance(idx, (int, np.integer)):
        return idx
    raise Unsupported(f"index {type(idx).__name__}")


def _is_basic(idx):
    xs = idx if isinstance(idx, tuple) else (idx,)
    return all(x is None or x is Ellipsis or isinstance(x, (int, np.integer, slice)) for x in xs)


def _sym_index_array(a, idx):
    """`idx` is a 1-D integer index array with symbolic entries into the 1-D array `a` (an SArr of concrete length counts)"""
    from .values import SArr

    if isinstance(idx, SArr) and isinstance(idx.n, int) and not isinstance(idx.n, bool) and idx.kind == "int" and not hasattr(idx, "__pyvc_getitem__"):
        idx = NArr((idx.n,), [idx.get(j) for j in range(idx.n)], "int")
    if isinstance(idx, NArr) and a.ndim == 1 and idx.ndim == 1 and idx.kind == "int" and any(isinstance(x, Sym) for x in idx.items):
        return idx
    return None


def _sym_positions(eng, idx, n, what):
    """z3 positions of a symbolic index array, normalised as numpy does (negative entries count from the end); one bounds decision for
    the whole array"""
    zs = [to_z3(x, "int") for x in idx.items]
    if eng.spec_mode:
        return zs
    ok = z3.And(*[z3.And(z >= 0, z < n) for z in zs])
    if getattr(eng, "strict_index", False):
        eng.prove(eng.site("index-in-bounds"), ok, "safety", what)
        return zs
    if eng.branch(eng.sbool(ok)):
        return zs
    if eng.branch(eng.sbool(z3.And(*[z3.And(z >= -n, z < n) for z in zs]))):
        return [z3.If(z < 0, z + n, z) for z in zs]
    raise ProgExc(IndexError, what)


def getitem(eng, a, idx):
    sidx = _sym_index_array(a, idx) if not isinstance(idx, (Sym, int, slice, tuple)) else None
    if sidx is not None:
        # a[index array] with symbolic entries on a 1-D array of concrete length: cell j of the result is a[idx[j]] (a case split per cell)
        n = len(a.items)
        if n == 0:
            raise ProgExc(IndexError, "index array into an empty array")
        used(eng, "fancy-index-gather-is-fresh")
        out = []
        for iz in _sym_positions(eng, sidx, n, "index array"):
            z = to_z3(a.items[-1], a.kind)
            for j in range(n - 2, -1, -1):
                z = z3.If(iz == j, to_z3(a.items[j], a.kind), z)
            out.append(Sym(z3.simplify(z), a.kind))
        return NArr((len(out),), out, a.kind, a.dtype)
    if isinstance(idx, Sym) and a.ndim == 1:
        from .models import norm_index

        n = len(a.items)
        iz = norm_index(eng, idx, n, "array index")
        items = a.items
        z = to_z3(items[-1], a.kind)
        for j in range(n - 2, -1, -1):
            z = z3.If(iz == j, to_z3(items[j], a.kind), z)
        return Sym(z, a.kind)
    if isinstance(idx, NArr) and idx.kind == "int" and a.ndim == 1 and len(a.items) and any(isinstance(x, Sym) for x in idx.items):
        # gather through an integer index array with symbolic entries (`ids[ids[mask]]`): element by element, each lookup with the bounds
        # treatment of a scalar index (an out-of-range entry is the program's IndexError on that path); the result is fresh storage
        used(eng, "fancy-index-gather-is-fresh")
        return NArr(idx.shape, [getitem(eng, a, x) for x in idx.items], a.kind, a.dtype)
    ni = _native_index(eng, idx)
    try:
        ix = idx_of(a)[ni]
    except IndexError as e:
        raise ProgExc(IndexError, str(e))
    if np.ndim(ix) == 0:
        return a.items[int(ix)]
    if _is_basic(ni):
        used(eng, "basic-slice-is-view")
        rootflat = ix.reshape(-1).tolist()
        return NArr(ix.shape, [], a.kind, a.dtype, view_of=(a, rootflat)) if True else None
    used(eng, "fancy-index-gather-is-fresh")
    return from_index(a.items, ix, a.kind, a.dtype)


def setitem(eng, a, idx, val):
    from .models import check_frame

    check_frame(eng, a.root())
    sidx = _sym_index_array(a, idx) if not isinstance(idx, (Sym, int, slice, tuple)) else None
    if sidx is not None and a.view_of is None:
        # a[index array] = values with symbolic positions: cell idx[j] receives values[j].  Determined for pairwise distinct positions
        # (cells nobody names keep their content); with a repeated position numpy documents no winner: the array is then arbitrary.
        n, m = len(a.items), len(sidx.items)
        v = _as_narr(eng, val)
        if v.ndim == 0:
            vals = [v.items[0]] * m
        elif v.ndim == 1 and len(v.items) == m:
            vals = list(v.items)
        else:
            raise ProgExc(ValueError, "shape mismatch: value array could not be broadcast to indexing result")
        if a.kind == "int" and v.kind == "real":
            raise Unsupported("store of reals into an int array")
        used(eng, "index-array store a[idx] = values at symbolic positions: cell idx[j] receives values[j] (pairwise distinct positions; repeated positions: unspecified)")
        pos = _sym_positions(eng, sidx, n, "index array store")
        distinct = z3.Distinct(*pos) if m > 1 else z3.BoolVal(True)
        cells = [to_z3(x, a.kind) for x in a.items]
        for iz, x in zip(pos, vals):
            vz = to_z3(cast(eng, x, a.kind), a.kind)
            cells = [z3.If(iz == j, vz, c) for j, c in enumerate(cells)]
        from .values import fresh

        a.items = [Sym(z3.simplify(z3.If(distinct, c, fresh(a.kind, "repeated").z)), a.kind) for c in cells]
        return
    if isinstance(idx, Sym) and a.ndim == 1 and kind_of(val) is not None:
        # a[i] = v at a symbolic position of a 1-D array: every item becomes ite(i == j, v, old) (bounds are an obligation)
        from .models import norm_index

        iz = norm_index(eng, idx, len(a.items), "array store")
        used(eng, "1d-store-at-symbolic-position")
        if a.kind == "int" and kind_of(val) == "real":
            raise Unsupported("store of a real into an int array")
        vz = to_z3(cast(eng, val, a.kind), a.kind)
        a.items = [Sym(z3.If(iz == j, vz, to_z3(x, a.kind)), a.kind) for j, x in enumerate(a.items)]
        return
    ni = _native_index(eng, idx)
    try:
        ix = idx_of(a)[ni]
    except IndexError as e:
        raise ProgExc(IndexError, str(e))
    items = list(a.items)
    if np.ndim(ix) == 0:
        if isinstance(val, NArr):
            if len(val.items) != 1:
                raise ProgExc(ValueError, "setting an array element with a sequence")
            val = val.items[0]
        items[int(ix)] = cast(eng, val, a.kind) if not (a.kind == "int" and kind_of(val) == "real" and isinstance(val, Sym)) else val
        a.items = items
        return
    v = _as_narr(eng, val)
    try:
        vix = np.broadcast_to(idx_of(v), ix.shape)
    except ValueError as e:
        raise ProgExc(ValueError, str(e))
    vit = v.items
    for j, k in zip(ix.reshape(-1), vix.reshape(-1)):
        items[int(j)] = cast(eng, vit[int(k)], a.kind)
    a.items = items


def rows(eng, a):
    if a.ndim == 0:
        raise ProgExc(TypeError, "iteration over a 0-d array")
    return [getitem(eng, a, i) for i in range(a.shape[0])]


def _sym2(*vals):
    """an operand that belongs to the symbolic 2-D model (npmodels.S2Arr and its helpers)?"""
    from . import npmodels

    return npmodels.has_s2(*vals)


def matmul(eng, a, b):
    if _sym2(a, b):
        from . import npmodels

        return npmodels.s2_matmul(eng, a, b)
    used(eng, "dot-product")
    a, b = _as_narr(eng, a), _as_narr(eng, b)
    if a.ndim == 0 or b.ndim == 0:
        return binop(eng, ast.Mult(), a, b)
    A, B = idx_of(a), idx_of(b)
    a1 = A.reshape(1, -1) if a.ndim == 1 else A
    b1 = B.reshape(-1, 1) if b.ndim == 1 else B
    if a1.ndim != 2 or b1.ndim != 2:
        raise Unsupported("dot of arrays with ndim > 2")
    if a1.shape[1] != b1.shape[0]:
        raise ProgExc(ValueError, f"shapes {a.shape} and {b.shape} not aligned")
    ai, bi = a.items, b.items
    out = []
    for r in range(a1.shape[0]):
        for c in range(b1.shape[1]):
            acc = 0
            for k in range(a1.shape[1]):
                acc = eng.binop(ast.Add(), acc, eng.binop(ast.Mult(), ai[a1[r, k]], bi[b1[k, c]]))
            out.append(acc)
    shape = ()
    if a.ndim == 2:
        shape += (a1.shape[0],)
    if b.ndim == 2:
        shape += (b1.shape[1],)
    if shape == ():
        return out[0]
    return NArr(shape, out, "real" if "real" in (a.kind, b.kind) else a.kind)


# ------------------------------------------------------------------ methods
def _m_dot(eng, recv, args, kwargs):
    return matmul(eng, recv, args[0])


def _m_copy(eng, recv, args, kwargs):
    return NArr(recv.shape, list(recv.items), recv.kind, recv.dtype)


def _m_item(eng, recv, args, kwargs):
    if len(recv.items) != 1:
        raise ProgExc(ValueError, "can only convert an array of size 1 to a Python scalar")
    return recv.items[0]


def _m_sum(eng, recv, args, kwargs):
    return np_sum(eng, [recv] + list(args), kwargs)


def _m_reshape(eng, recv, args, kwargs):
    shp = args[0] if len(args) == 1 and isinstance(args[0], (tuple, list)) else tuple(args)
    if any(isinstance(d, Sym) for d in shp):
        # a symbolic extent of a concrete-size array: numpy accepts exactly one value for it (size / product of the others)
        sym = [j for j, d in enumerate(shp) if isinstance(d, Sym)]
        rest = 1
        for j, d in enumerate(shp):
            if j not in sym:
                rest *= int(d)
        if len(sym) != 1 or rest <= 0 or len(recv.items) % rest:
            raise Unsupported("reshape with symbolic extents")
        c = len(recv.items) // rest
        if not eng.branch(eng.sbool(to_z3(shp[sym[0]], "int") == c)):
            raise ProgExc(ValueError, "cannot reshape array")
        shp = tuple(c if j == sym[0] else int(d) for j, d in enumerate(shp))
    try:
        ix = idx_of(recv).reshape(shp)
    except ValueError as e:
        raise ProgExc(ValueError, str(e))
    return from_index(recv.items, ix, recv.kind, recv.dtype)


def _m_transpose(eng, recv, args, kwargs):
    ix = idx_of(recv).transpose(*args)
    return from_index(recv.items, ix, recv.kind, recv.dtype)


def _m_tolist(eng, recv, args, kwargs):
    def rec(ix):
        if ix.ndim == 0:
            return recv.items[int(ix)]
        return PList([rec(x) for x in ix])

    return rec(idx_of(recv))


def _m_astype(eng, recv, args, kwargs):
    return astype(eng, recv, kind_of_dtype(args[0]), args[0])


def _m_any(eng, recv, args, kwargs):
    acc = False
    for x in recv.items:
        acc = eng.or_(acc, eng.truth(x))
    return acc


def _m_all(eng, recv, args, kwargs):
    acc = True
    for x in recv.items:
        acc = eng.and_(acc, eng.truth(x))
    return acc


def _m_flatten(eng, recv, args, kwargs):
    return NArr((len(recv.items),), list(recv.items), recv.kind, recv.dtype)


def _m_min(eng, recv, args, kwargs):
    from .models import _minmax

    return _minmax(eng, [PList(recv.items)], {}, True)


def _m_max(eng, recv, args, kwargs):
    from .models import _minmax

    return _minmax(eng, [PList(recv.items)], {}, False)


METHODS = {
    "dot": _m_dot, "copy": _m_copy, "item": _m_item, "sum": _m_sum, "reshape": _m_reshape,
    "transpose": _m_transpose, "tolist": _m_tolist, "astype": _m_astype, "any": _m_any, "all": _m_all,
    "flatten": _m_flatten, "ravel": _m_flatten, "min": _m_min, "max": _m_max,
}


def method_of(eng, v, name):
    if name == "T":
        return from_index(v.items, idx_of(v).T, v.kind, v.dtype)
    if name in METHODS:
        return NativeMethod(METHODS[name], v, name)
    return None


# ------------------------------------------------------------- np functions
def np_sum(eng, args, kwargs):
    if isinstance(args[0], SArr) or _sym2(args[0]):
        from . import npmodels

        return npmodels.s2_reduce(eng, "sum", args, kwargs)
    a = _as_narr(eng, args[0])
    axis = kwargs.get("axis", args[1] if len(args) > 1 else None)
    ix = idx_of(a)
    if axis is None:
        acc = 0
        for x in a.items:
            acc = eng.binop(ast.Add(), acc, x)
        return acc
    ix = np.moveaxis(ix, axis, -1)
    outshape = ix.shape[:-1]
    out = []
    for row in ix.reshape(-1, ix.shape[-1]):
        acc = 0
        for j in row:
            acc = eng.binop(ast.Add(), acc, a.items[j])
        out.append(acc)
    return NArr(outshape, out, a.kind)


def np_dot(eng, args, kwargs):
    return matmul(eng, args[0], args[1])


def np_cross(eng, args, kwargs):
    used(eng, "np.cross")
    a, b = _as_narr(eng, args[0]), _as_narr(eng, args[1])
    if a.shape != (3,) or b.shape != (3,):
        raise Unsupported("np.cross on non 3-vectors")
    (a0, a1, a2), (b0, b1, b2) = a.items, b.items
    m, s = (lambda x, y: eng.binop(ast.Mult(), x, y)), (lambda x, y: eng.binop(ast.Sub(), x, y))
    return NArr((3,), [s(m(a1, b2), m(a2, b1)), s(m(a2, b0), m(a0, b2)), s(m(a0, b1), m(a1, b0))], "real")


def np_norm(eng, args, kwargs):
    if isinstance(args[0], SArr) or _sym2(args[0]):
        from . import npmodels

        return npmodels.s2_norm(eng, args, kwargs)
    used(eng, "np.linalg.norm=sqrt(sum of squares) over the reals")
    a = _as_narr(eng, args[0])
    axis = kwargs.get("axis")
    sq = emap(eng, lambda x: eng.binop(ast.Mult(), x, x), a)
    if axis is None:
        return eng.sqrt(np_sum(eng, [sq], {}), nonneg_known=True)
    s = np_sum(eng, [sq], {"axis": axis})
    return emap(eng, lambda x: eng.sqrt(x, nonneg_known=True), s, kind="real")


def np_eye(eng, args, kwargs):
    n = args[0]
    return NArr((n, n), [1 if r == c else 0 for r in range(n) for c in range(n)], "real")


def _shape_arg(s):
    if isinstance(s, PList):
        s = tuple(s.items)
    if isinstance(s, int):
        return (s,)
    return tuple(int(x) for x in s)


def np_zeros(eng, args, kwargs):
    sh = _shape_arg(args[0])
    dt = kwargs.get("dtype", args[1] if len(args) > 1 else None)
    k = kind_of_dtype(dt) if dt is not None else "real"
    return NArr(sh, [0] * int(np.prod(sh, dtype=int)), k, dt)


def np_ones(eng, args, kwargs):
    sh = _shape_arg(args[0])
    dt = kwargs.get("dtype", args[1] if len(args) > 1 else None)
    k = kind_of_dtype(dt) if dt is not None else "real"
    return NArr(sh, [1] * int(np.prod(sh, dtype=int)), k, dt)


def np_full(eng, args, kwargs):
    sh = _shape_arg(args[0])
    fv = kwargs.get("fill_value", args[1] if len(args) > 1 else None)
    dt = kwargs.get("dtype")
    k = kind_of_dtype(dt) if dt is not None else kind_of(fv)
    return NArr(sh, [fv] * int(np.prod(sh, dtype=int)), k, dt)


def np_hstack(eng, args, kwargs):
    """np.hstack / np.column_stack: concrete-shape operands are evaluated through np.concatenate's index arithmetic"""
    seq = args[0].items if isinstance(args[0], PList) else list(args[0])
    which = kwargs.pop("__which__", "hstack")
    if _sym2(seq) or (which == "column_stack" and any(isinstance(x, SArr) for x in seq)):
        from . import npmodels

        main = next((x for x in seq if type(x).__name__ != "SArr" and hasattr(x, "transposed")), None)
        if main is not None and main.transposed:
            raise Unsupported("np.hstack / np.column_stack of (k,n) symbolic arrays (along the symbolic axis)")
        return npmodels.s2_hstack(eng, seq, which)
    if any(isinstance(x, SArr) for x in seq):
        return np_concatenate(eng, [PList(list(seq))], {})  # np.hstack of 1-D arrays = np.concatenate
    arrs = [_as_narr(eng, x) for x in seq]
    if which == "column_stack":
        arrs = [from_index(a.items, idx_of(a).reshape(-1, 1), a.kind, a.dtype) if a.ndim < 2 else a for a in arrs]
        return np_concatenate(eng, [PList(arrs)], {"axis": 1})
    if all(a.ndim == 1 for a in arrs):
        return np_concatenate(eng, [PList(arrs)], {"axis": 0})
    return np_concatenate(eng, [PList(arrs)], {"axis": 1})


def np_column_stack(eng, args, kwargs):
    return np_hstack(eng, args, dict(kwargs, __which__="column_stack"))


def np_einsum(eng, args, kwargs):
    from . import npmodels

    return npmodels.s2_einsum(eng, args, kwargs)


def np_mean(eng, args, kwargs):
    from . import npmodels

    if isinstance(args[0], SArr) or _sym2(args[0]):
        return npmodels.s2_reduce(eng, "mean", args, kwargs)
    a = _as_narr(eng, args[0])
    axis = kwargs.get("axis", args[1] if len(args) > 1 else None)
    s = np_sum(eng, [a], {} if axis is None else {"axis": axis})
    cnt = len(a.items) if axis is None else a.shape[axis]
    if cnt == 0:
        raise Unsupported("mean of an empty array")
    return emap(eng, lambda x: eng.binop(ast.Div(), x, cnt), s) if isinstance(s, NArr) else eng.binop(ast.Div(), s, cnt)


def np_stack(eng, args, kwargs):
    seq0 = args[0].items if isinstance(args[0], PList) else list(args[0])
    if seq0 and all(isinstance(x, SArr) for x in seq0):
        from . import npmodels

        return npmodels.stack_sarr(eng, seq0, kwargs.get("axis", args[1] if len(args) > 1 else 0))
    arrs = [_as_narr(eng, x) for x in (args[0].items if isinstance(args[0], PList) else args[0])]
    axis = kwargs.get("axis", args[1] if len(args) > 1 else 0)
    off, ixs, items = 0, [], []
    for a in arrs:
        ixs.append(idx_of(a) + off)
        off += len(a.items)
        items.extend(a.items)
    try:
        ix = np.stack(ixs, axis=axis)
    except ValueError as e:
        raise ProgExc(ValueError, str(e))
    ks = {a.kind for a in arrs}
    return from_index(items, ix, "real" if "real" in ks else arrs[0].kind)


def np_concatenate(eng, args, kwargs):
    seq = args[0].items if isinstance(args[0], PList) else args[0]
    if _sym2(seq):
        from . import npmodels

        return npmodels.s2_concatenate(eng, args, kwargs)
    if any(isinstance(x, SArr) for x in seq):
        from . import npmodels

        return npmodels.concat_sarr(eng, list(seq))
    arrs = []
    for x in seq:
        if kind_of(x) is not None:
            raise ProgExc(ValueError, "zero-dimensional arrays cannot be concatenated")
        arrs.append(_as_narr(eng, x))
    axis = kwargs.get("axis", args[1] if len(args) > 1 else 0)
    off, ixs, items = 0, [], []
    for a in arrs:
        ixs.append(idx_of(a) + off)
        off += len(a.items)
        items.extend(a.items)
    try:
        ix = np.concatenate(ixs, axis=axis)
    except ValueError as e:
        raise ProgExc(ValueError, str(e))
    ks = {a.kind for a in arrs}
    return from_index(items, ix, "real" if "real" in ks else arrs[0].kind)


def np_sqrt(eng, args, kwargs):
    v = args[0]
    if isinstance(v, SArr) or _sym2(v):
        from . import npmodels

        return npmodels.s2_sqrt(eng, v)
    if isinstance(v, NArr):
        return emap(eng, lambda x: eng.sqrt(x), v, kind="real")
    return eng.sqrt(v)


def trig(eng, theta):
    """(cos, sin) of a symbolic angle: an abstract point of the unit circle,
    cached per angle term; cos(-t) = cos t, sin(-t) = -sin t."""
    if not isinstance(theta, Sym):
        fr_ = frac(theta)
        if fr_ == 0:
            return 1, 0
    tz = to_z3(theta, "real")
    tab = eng.ghost.setdefault("trig", [])
    for (uz, c, s) in tab:
        if z3.is_true(z3.simplify(uz == tz)):
            return c, s
    eng.assumptions.add("trig:(cos t, sin t) abstracted to a point of the unit circle; cos(-t)=cos t, sin(-t)=-sin t")
    c, s = fresh("real", "cos"), fresh("real", "sin")
    eng.assume(c.z * c.z + s.z * s.z == 1)
    for (uz, c2, s2) in tab:
        if z3.is_true(z3.simplify(uz == -tz)):
            eng.assume(z3.And(c.z == to_z3(c2, "real"), s.z == -to_z3(s2, "real")))
    tab.append((tz, c, s))
    for fact in TRIG_FACTS:  # further named facts of the real cosine / sine, installed by an extension (pyvc/ext_C12.py)
        fact(eng, tz, c, s, tab)
    return c, s


TRIG_FACTS = []


def np_cos(eng, args, kwargs):
    return trig(eng, args[0])[0]


def np_sin(eng, args, kwargs):
    return trig(eng, args[0])[1]


def _uninterp(name):
    f = z3.Function(name, z3.RealSort(), z3.RealSort())

    def model(eng, args, kwargs):
        eng.assumptions.add(f"uninterpreted:{name}")
        v = args[0]
        if isinstance(v, NArr):
            return emap(eng, lambda x: Sym(f(to_z3(x, "real")), "real"), v, kind="real")
        return Sym(f(to_z3(v, "real")), "real")

    return model


def np_abs(eng, args, kwargs):
    from .models import _b_abs

    v = args[0]
    if isinstance(v, NArr):
        return emap(eng, lambda x: _b_abs(eng, [x], {}), v)
    return _b_abs(eng, [v], {})


def np_clip(eng, args, kwargs):
    v, lo, hi = args[0], args[1], args[2]

    def f(x):
        k = "real"
        xz, lz, hz = to_z3(x, k), to_z3(lo, k), to_z3(hi, k)
        return eng.snum(z3.If(xz < lz, lz, z3.If(xz > hz, hz, xz)), k)

    if isinstance(v, NArr):
        return emap(eng, f, v, kind="real")
    return f(v)


def _close(eng, a, b, rtol, atol):
    k = "real"
    if getattr(eng, "exact_tolerances", False):
        eng.assumptions.add("np.isclose/np.allclose treated as exact equality (tolerance bands collapsed over the reals)")
        return eng.compare(ast.Eq(), a, b)
    az, bz = to_z3(a, k), to_z3(b, k)
    d = z3.If(az - bz >= 0, az - bz, bz - az)
    ab = z3.If(bz >= 0, bz, -bz)
    return eng.sbool(d <= to_z3(atol, k) + to_z3(rtol, k) * ab)


def np_isclose(eng, args, kwargs):
    used(eng, "np.isclose: |a-b| <= atol + rtol*|b| over the reals")
    rtol = kwargs.get("rtol", args[2] if len(args) > 2 else Fraction(1, 100000))
    atol = kwargs.get("atol", args[3] if len(args) > 3 else Fraction(1, 100000000))
    a, b = args[0], args[1]
    if isinstance(a, NArr) or isinstance(b, NArr):
        return emap(eng, lambda x, y: _close(eng, x, y, rtol, atol), a, b, kind="bool")
    return _close(eng, a, b, rtol, atol)


def np_allclose(eng, args, kwargs):
    r = np_isclose(eng, args, kwargs)
    if isinstance(r, NArr):
        return _m_all(eng, r, [], {})
    return r


def np_array_equal(eng, args, kwargs):
    if isinstance(args[0], SArr) and isinstance(args[1], SArr) and len(args) == 2 and not kwargs:
        # two 1-D arrays of symbolic length (this form used to be Unsupported): same length and equal entries
        used(eng, "np.array_equal of two 1-D arrays: equal lengths and equal entries")
        a, b = args
        k = "real" if "real" in (a.kind, b.kind) else ("int" if "int" in (a.kind, b.kind) else a.kind)
        i = z3.Int(fresh_name("ae"))
        return eng.sbool(z3.And(a.nz() == b.nz(), z3.ForAll([i], z3.Implies(z3.And(i >= 0, i < a.nz()), to_z3(a.get(i), k) == to_z3(b.get(i), k)))))
    a, b = _as_narr(eng, args[0]), _as_narr(eng, args[1])
    if a.shape != b.shape:
        return False
    acc = True
    for x, y in zip(a.items, b.items):
        acc = eng.and_(acc, eng.compare(ast.Eq(), x, y))
    return acc


def np_minmax(is_min):
    def model(eng, args, kwargs):
        from .models import _minmax

        a = _as_narr(eng, args[0])
        return _minmax(eng, [PList(a.items)], {}, is_min)

    return model


def np_maximum(eng, args, kwargs):
    from .models import _minmax

    return emap(eng, lambda x, y: _minmax(eng, [x, y], {}, False), args[0], args[1])


def np_minimum(eng, args, kwargs):
    from .models import _minmax

    return emap(eng, lambda x, y: _minmax(eng, [x, y], {}, True), args[0], args[1])


def np_asarray(eng, args, kwargs):
    """np.asarray(a[, dtype]): an ndarray argument is returned ITSELF (no copy) unless a different dtype is requested"""
    v = args[0]
    if isinstance(v, (NArr, SArr)) and "dtype" not in kwargs and len(args) == 1:
        return v
    from .npmodels import _np_array, kind_of_dtype

    dt = kwargs.get("dtype", args[1] if len(args) > 1 else None)
    if isinstance(v, (NArr, SArr)) and dt is not None and set(kwargs) <= {"dtype"} and len(args) <= 2:
        have = getattr(v, "dtype", None)
        if have is not None:
            if np.dtype(have) == np.dtype(dt):
                eng.assumptions.add("numpy-model:np.asarray(a, dtype) returns a itself when a already has that dtype")
                return v
        elif kind_of_dtype(dt) == v.kind:
            # the array's width is not recorded (only int / real / bool): numpy hands back the argument itself exactly when its dtype
            # is already the requested one -- both outcomes are explored
            eng.assumptions.add("numpy-model:np.asarray(a, dtype) returns a itself when a already has that dtype (unrecorded width: both cases explored)")
            if eng.branch(fresh("bool", "asarray_dtype_already_matches")):
                return v
    return _np_array(eng, args, kwargs)


def where(eng, m, a, b):
    def f(c, x, y):
        c = eng.truth(c)
        if c is True:
            return x
        if c is False:
            return y
        k = "real" if "real" in (kind_of(x), kind_of(y)) else "int"
        return Sym(z3.If(c.z, to_z3(x, k), to_z3(y, k)), k)

    return emap(eng, f, m, a, b)


def np_outer(eng, args, kwargs):
    a, b = _as_narr(eng, args[0]), _as_narr(eng, args[1])
    out = [eng.binop(ast.Mult(), x, y) for x in a.items for y in b.items]
    return NArr((len(a.items), len(b.items)), out, "real")


def np_random_rand(eng, args, kwargs):
    """np.random.rand() / np.random.rand(n): arbitrary reals in [0, 1).  The draw of all zeros (probability 2^-53n) is ignored.
    Contract option `almost_surely=[(label, fn(eng, draw) -> z3 Bool)]`: further requirements on the random oracle that hold for
    almost every draw (the excluded set must be a null set of the cube; the contract author says which one) -- assumed for every
    draw made while the carrier is executed, and listed in the evidence as `almost-surely:<label>`."""
    used(eng, "np.random.rand: arbitrary reals in [0, 1), not all of them 0 (the probability-zero draw of all zeros is ignored)")
    n = args[0] if args else None
    if len(args) > 1 or kwargs or not (n is None or isinstance(n, int)):
        raise Unsupported("np.random.rand form")
    vs = [fresh("real", "rand") for _ in range(1 if n is None else n)]
    for v in vs:
        eng.assume(z3.And(v.z >= 0, v.z < 1))
    if vs:
        eng.assume(z3.Or(*[v.z > 0 for v in vs]))
    draw = NArr((len(vs),), vs, "real")
    for lab, fn in (getattr(eng, "almost_surely", None) or []):
        eng.assumptions.add(f"almost-surely:{lab} (requirement on the draws of np.random.rand; the excluded draws form a null set)")
        eng.assume(fn(eng, draw))
    return vs[0] if n is None else draw


def np_argminmax(is_min):
    def model(eng, args, kwargs):
        """np.argmin / np.argmax of a concrete-shape array (flattened): the FIRST position of the extremum, decided by
        forking on the comparisons (so the result is a concrete index on every path)"""
        a = args[0]
        if isinstance(a, PList) and a.items is not None:
            a = _as_narr(eng, a)
        if not isinstance(a, NArr) or kwargs or len(args) != 1:
            raise Unsupported("np.argmin / np.argmax form")
        used(eng, "np.argmin/np.argmax: first position of the extremum of the flattened array")
        if not a.items:
            raise ProgExc(ValueError, "attempt to get argmin of an empty sequence")
        cur = 0
        for j in range(1, len(a.items)):
            if eng.branch(eng.compare(ast.Lt() if is_min else ast.Gt(), a.items[j], a.items[cur])):
                cur = j
        return cur

    return model


NP_MODELS = {
    np.argmin: np_argminmax(True), np.argmax: np_argminmax(False),
    np.random.rand: np_random_rand,
    np.dot: np_dot, np.matmul: np_dot, np.cross: np_cross, np.linalg.norm: np_norm, np.eye: np_eye, np.identity: np_eye,
    np.zeros: np_zeros, np.ones: np_ones, np.full: np_full, np.stack: np_stack, np.concatenate: np_concatenate,
    np.sum: np_sum, np.sqrt: np_sqrt, np.cos: np_cos, np.sin: np_sin, np.arccos: _uninterp("arccos"),
    np.arcsin: _uninterp("arcsin"), np.arctan: _uninterp("arctan"), np.degrees: _uninterp("degrees"),
    np.abs: np_abs, np.absolute: np_abs, np.clip: np_clip, np.isclose: np_isclose, np.allclose: np_allclose,
    np.array_equal: np_array_equal, np.min: np_minmax(True), np.max: np_minmax(False), np.maximum: np_maximum,
    np.minimum: np_minimum, np.asarray: np_asarray, np.outer: np_outer,
    np.hstack: np_hstack, np.column_stack: np_column_stack, np.einsum: np_einsum, np.mean: np_mean,
}
