"""C06 extensions of pyvc: Python sets of ints, and `any` over a symbolic list of bools.

SymSet -- a Python `set` whose elements are ints (node ids): a membership array `mem: Int -> Bool`.  Aliasing is concrete
(two names alias iff they hold the same SymSet object), mutation replaces `mem` in place.  Supported: `x in s`,
`s.remove(x)` (KeyError when absent), `s.add(x)`, `s.discard(x)`, iteration (`for x in s`: a ghost enumeration of the members,
each exactly once, order unconstrained -- weaker than any concrete order, hence sound for order-independent clients), `len`
is NOT modelled.  `set(array_or_list_of_ints)` builds the set of the entries (definition with a Skolem witness function).
Everything is reached through the extension hooks (`models.EXTRA_MODELS`, `__pyvc_contains__`, `__pyvc_iter_seq__`,
`__pyvc_getattr__`, `__pyvc_havoc__`, `__pyvc_snapshot__`); each model records itself in the evidence's trusted base.
"""
from __future__ import annotations

import z3

from . import ext_C08  # noqa: F401  (object comprehensions `[Node(t, i) for i in ids]`: ext_C08.MODELS, used as contract option `models=`)
from . import models
from .engine import ProgExc, Unsupported
from .values import Iter, NArr, NativeMethod, PList, SArr, Sym, fresh_name, kind_of, next_uid, to_z3, zint

I, B = z3.IntSort(), z3.BoolSort()


def used(eng, what):
    eng.assumptions.add("python-model:" + what)


class SymSet:
    def __init__(self, mem, name="s"):
        self.mem = mem
        self.name = name
        self.uid = next_uid()
        self.frozen = False

    def __repr__(self):
        return f"SymSet<{self.name}#{self.uid}>"

    def has(self, x):
        return z3.Select(self.mem, to_z3(x, "int"))

    # ---- hooks
    def __pyvc_contains__(self, eng, item):
        if kind_of(item) not in ("int", "bool"):
            raise Unsupported("membership test of a non-integer in a set of ints")
        return eng.sbool(self.has(item))

    def __pyvc_snapshot__(self, memo):
        c = SymSet(self.mem, self.name)
        c.uid, c.frozen = self.uid, self.frozen
        return c

    def __pyvc_havoc__(self, eng):
        self.mem = z3.Const(fresh_name(self.name + "_mem"), z3.ArraySort(I, B))

    def _write(self, eng, x, present):
        if self.frozen and not eng.spec_mode:
            eng.prove(eng.site("frame-write"), False, "frame", f"write to input storage {self!r}")
        self.mem = z3.Store(self.mem, to_z3(x, "int"), z3.BoolVal(present))

    def __pyvc_getattr__(self, eng, name):
        if name == "remove":
            def remove(e, recv, args, kwargs):
                used(e, "set.remove (KeyError when the element is absent)")
                (x,) = args
                if not e.branch(recv.__pyvc_contains__(e, x)):
                    raise ProgExc(KeyError, "set.remove of an absent element")
                recv._write(e, x, False)

            return NativeMethod(remove, self, name)
        if name == "discard":
            def discard(e, recv, args, kwargs):
                used(e, "set.discard")
                recv._write(e, args[0], False)

            return NativeMethod(discard, self, name)
        if name == "add":
            def add(e, recv, args, kwargs):
                used(e, "set.add")
                recv._write(e, args[0], True)

            return NativeMethod(add, self, name)
        if name == "copy":
            def copy(e, recv, args, kwargs):
                used(e, "set.copy")
                return SymSet(recv.mem, recv.name + "_copy")

            return NativeMethod(copy, self, name)
        raise Unsupported(f"set method {name} is not modelled")

    def enumeration(self, eng):
        """ghost enumeration (ks, m, pos) of the CURRENT members: ks(0..m-1) are the members, each once; pos is the inverse"""
        key = ("setelems", self.uid, self.mem.get_id())
        if key not in eng.ghost:
            used(eng, "iteration over a set enumerates every member exactly once (order unconstrained)")
            tag = fresh_name("se")
            ks, pos, m = z3.Function(tag, I, I), z3.Function(tag + "_pos", I, I), z3.Int(tag + "_m")
            j, q = z3.Int("j_" + tag), z3.Int("q_" + tag)
            eng.assume(m >= 0)
            eng.assume(z3.ForAll([j], z3.Implies(z3.And(j >= 0, j < m), z3.And(z3.Select(self.mem, ks(j)), pos(ks(j)) == j)), patterns=[ks(j)]))
            eng.assume(z3.ForAll([q], z3.Implies(z3.Select(self.mem, q), z3.And(pos(q) >= 0, pos(q) < m, ks(pos(q)) == q)), patterns=[pos(q)]))
            eng.ghost[key] = (ks, m, pos, self.mem)
        return eng.ghost[key]

    def __pyvc_iter_seq__(self, eng):
        ks, m, pos, _ = self.enumeration(eng)
        eng.ghost[("setelems-last", self.uid)] = (ks, m, pos, self.mem)  # the enumeration the running loop walks (for its invariants)
        return m, (lambda k: Sym(ks(k.z), "int"))


def _b_set(eng, args, kwargs):
    if kwargs or len(args) > 1:
        raise Unsupported("set(...) with unexpected arguments")
    if not args:
        used(eng, "set() is the empty set")
        return SymSet(z3.K(I, z3.BoolVal(False)))
    src = args[0]
    if isinstance(src, Iter):  # set(one-shot iterator) takes everything that is still to come
        if src.consumed:
            return _b_set(eng, [], {})
        inner, src.consumed = src.seq, True
        return _b_set(eng, [inner], {})
    if isinstance(src, SymSet):
        return SymSet(src.mem, src.name + "_copy")
    if isinstance(src, PList) and src.items is not None and all(kind_of(x) in ("int", "bool") for x in src.items):
        used(eng, "set(list of ints) is the set of its entries")
        mem = z3.K(I, z3.BoolVal(False))
        for x in src.items:
            mem = z3.Store(mem, to_z3(x, "int"), z3.BoolVal(True))
        return SymSet(mem)
    if isinstance(src, NArr) and src.kind == "int":
        return _b_set(eng, [PList(list(src.items))], {})
    if isinstance(src, SArr) and src.kind == "int":
        arr, n = src.arr, src.nz()
    elif isinstance(src, PList) and src.items is None and src.kinds == ["int"]:
        arr, n = src.cols[0], zint(src.n)
    else:
        raise Unsupported(f"set() of {type(src).__name__}")
    used(eng, "set(sequence of ints) is the set of its entries (membership array defined with a witness position per member)")
    tag = fresh_name("set")
    mem = z3.Const(tag + "_mem", z3.ArraySort(I, B))
    wit = z3.Function(tag + "_wit", I, I)
    i, q = z3.Int("i_" + tag), z3.Int("q_" + tag)
    eng.assume(z3.ForAll([i], z3.Implies(z3.And(i >= 0, i < n), z3.Select(mem, z3.Select(arr, i)))))
    eng.assume(z3.ForAll([q], z3.Implies(z3.Select(mem, q), z3.And(wit(q) >= 0, wit(q) < n, z3.Select(arr, wit(q)) == q))))
    return SymSet(mem)


def _b_any(eng, args, kwargs):
    (src,) = args
    if isinstance(src, PList) and src.items is None and src.kinds == ["bool"] and not src.tup:
        used(eng, "any(list of bools) = some entry is true")
        k = z3.Int(fresh_name("k"))
        return eng.sbool(z3.Exists([k], z3.And(k >= 0, k < zint(src.n), z3.Select(src.cols[0], k))))
    return models._b_any(eng, args, kwargs)


def _b_all(eng, args, kwargs):
    (src,) = args
    if isinstance(src, PList) and src.items is None and src.kinds == ["bool"] and not src.tup:
        used(eng, "all(list of bools) = every entry is true")
        k = z3.Int(fresh_name("k"))
        return eng.sbool(z3.ForAll([k], z3.Implies(z3.And(k >= 0, k < zint(src.n)), z3.Select(src.cols[0], k))))
    return models._b_all(eng, args, kwargs)


# ---------------------------------------------------------------------------------------------------------------
# generator expressions over a sequence of symbolic length whose elements are objects:  (f(x) for x in xs if c(x))
class LazyGen:
    """The generator `(elt for target in xs if cond ...)` over a symbolic-length sequence xs (evaluated when the generator is
    created, as Python does).  Python's semantics: for every position j of xs in order, the conditions are evaluated on xs[j] and,
    if all hold, `elt` is evaluated on xs[j] and yielded.  The value keeps the real AST nodes and the defining frame;
    `element(eng, j)` evaluates conditions and element expression for a (symbolic) position j -- clauses describe the whole output
    by describing an arbitrary position.  Sound for elements without side effects on later elements (the inputs are frozen)."""

    def __init__(self, node, frame, length, getter):
        self.node, self.frame, self.length, self.getter = node, frame, length, getter
        self.uid = next_uid()

    def nz(self):
        return self.length.z if isinstance(self.length, Sym) else zint(self.length)

    def item(self, j):
        return self.getter(j if isinstance(j, Sym) else Sym(zint(j), "int"))

    def element(self, eng, j):
        from .engine import Frame

        used(eng, "a generator expression yields, for each item of its (eagerly evaluated) source in order, the element expression on that item if its conditions hold")
        g = self.node.generators[0]
        sub = Frame(parent=self.frame, globs=self.frame.globs, func=self.frame.func)
        x = self.item(j)
        eng.assign(g.target, x, sub)
        guard = True
        for cond in g.ifs:
            guard = eng.and_(guard, eng.truth(eng.ev(cond, sub)))
        return x, guard, eng.ev(self.node.elt, sub)


class ModelsProxy:
    """`eng.models` replacement (contract option `models=`): ext_C08's proxy (lists of handles built by a comprehension over a
    symbolic array) plus lazy generator expressions over such lists"""

    def __getattr__(self, name):
        return getattr(ext_C08.MODELS, name)

    def comprehension(self, eng, n, fr, kind):
        gens = n.generators
        if kind == "gen" and len(gens) == 1 and not gens[0].is_async:
            first = eng.ev(gens[0].iter, fr)
            if isinstance(first, SArr) or (isinstance(first, PList) and first.items is None):
                length, getter = models.as_sequence(eng, first)
                return LazyGen(n, fr, length, getter)
        return ext_C08.MODELS.comprehension(eng, n, fr, kind)


MODELS = ModelsProxy()


# ---------------------------------------------------------------------------------------------------------------
# list of Optional[(float, Node)] of symbolic length: the child results CutShortTipBranch._leave receives
class OptPairList:
    """read-only list whose entry k is None (none[k]) or the pair (dis[k], handle of row node[k] on `attach`)"""

    def __init__(self, n, attach, node_cls, name="kidvals", on_element=None):
        self.n = n
        self.none = z3.Const(fresh_name(name + "_none"), z3.ArraySort(I, B))
        self.dis = z3.Const(fresh_name(name + "_dis"), z3.ArraySort(I, z3.RealSort()))
        self.node = z3.Const(fresh_name(name + "_node"), z3.ArraySort(I, I))
        self.attach, self.node_cls = attach, node_cls
        self.on_element = on_element
        self.uid = next_uid()
        self.frozen = True

    def element(self, eng, k):
        """entry k: forks the path on whether it is None"""
        from .values import Obj

        kz = to_z3(k, "int")
        if eng.branch(eng.sbool(z3.Select(self.none, kz))):
            return None
        if self.on_element is not None:
            self.on_element(eng, self, kz)
        return (Sym(z3.Select(self.dis, kz), "real"), Obj(self.node_cls, dict(attach=self.attach, idx=Sym(z3.Select(self.node, kz), "int"), names=self.attach.fields["names"])))

    def __pyvc_getitem__(self, eng, idx):
        if isinstance(idx, slice):
            raise Unsupported("slice of the child results")
        n = zint(self.n)
        iz = to_z3(idx, "int")
        iz = z3.If(iz < 0, iz + n, iz)
        if not eng.spec_mode:
            eng.prove(eng.site("index-in-bounds"), z3.And(iz >= 0, iz < n), "safety")
        return self.element(eng, iz)

    def __pyvc_iter_seq__(self, eng):
        return self.n, (lambda k: self.element(eng, k))

    def __pyvc_snapshot__(self, memo):
        return self


_prev_len = [None]


def _b_len(eng, args, kwargs):
    if len(args) == 1 and isinstance(args[0], OptPairList):
        return eng.snum(zint(args[0].n), "int")
    if len(args) == 1 and isinstance(args[0], SymSet) and not eng.spec_mode:  # the number of members = the length of the ghost enumeration (each member once)
        used(eng, "len(set) is the number of its members")
        return eng.snum(args[0].enumeration(eng)[1], "int")
    return (_prev_len[0] or models._b_len)(eng, args, kwargs)


# ---------------------------------------------------------------------------------------------------------------
# np.count_nonzero, rank / select view (the model of pyvc/ext_C08.count_rs without its cross-mask clause), active only for a
# carrier whose contract sets options["count_model"] = "rank-select"
def count_rs(eng, mask):
    """cnt(i) = number of True entries of `mask` below i (rank), pos(k) = position of the k-th True entry (select).
    Assumed facts (theorems about counting the True entries of a finite boolean sequence):
      cnt(0) = 0; cnt(i+1) = cnt(i) + [mask[i]]; 0 <= cnt(i) <= i; cnt monotone;
      for 0 <= k < cnt(i):  0 <= pos(k) < i, mask[pos(k)], cnt(pos(k)) = k."""
    key = ("cnt-rs6", mask.arr.get_id())
    hit = eng.ghost.get(key)
    if hit is None:
        eng.assumptions.add("numpy-model:np.count_nonzero (rank/select: unfolding, monotone rank, k-th True position exists)")
        tag = fresh_name("cnt")
        f, pos = z3.Function(tag, I, I), z3.Function(tag + "_pos", I, I)
        i, j, k = z3.Int("i_" + tag), z3.Int("j_" + tag), z3.Int("k_" + tag)
        b = lambda t: z3.If(to_z3(mask.get(t), "bool"), 1, 0)
        eng.assume(f(0) == 0)
        eng.assume(z3.ForAll([i], z3.Implies(i >= 0, f(i + 1) == f(i) + b(i)), patterns=[f(i + 1)]))
        eng.assume(z3.ForAll([i], z3.Implies(i >= 0, z3.And(f(i) >= 0, f(i) <= i)), patterns=[f(i)]))
        eng.assume(z3.ForAll([i, j], z3.Implies(z3.And(0 <= i, i <= j), f(i) <= f(j)), patterns=[z3.MultiPattern(f(i), f(j))]))
        eng.assume(z3.ForAll([k, i], z3.Implies(z3.And(0 <= k, k < f(i), i >= 0),
                                                z3.And(0 <= pos(k), pos(k) < i, to_z3(mask.get(pos(k)), "bool"), f(pos(k)) == k)),
                             patterns=[z3.MultiPattern(pos(k), f(i))]))
        hit = (f, pos, mask)
        eng.ghost[key] = hit
        eng.ghost.setdefault("cnt-rs6-all", []).append(hit)
    return Sym(hit[0](mask.nz()), "int")


_prev_count = [None]


def _np_count_nonzero(eng, args, kwargs):
    if getattr(eng, "count_model", None) == "rank-select" and len(args) == 1 and not kwargs and isinstance(args[0], SArr) and args[0].kind == "bool":
        return count_rs(eng, args[0])
    if _prev_count[0] is not None:
        return _prev_count[0](eng, args, kwargs)
    from . import npmodels

    return npmodels._np_count_nonzero(eng, args, kwargs)


# ---------------------------------------------------------------------------------------------------------------
def _np_fromiter(eng, args, kwargs):
    """np.fromiter(iterable, dtype): a NEW 1-D array holding the items of the iterable in iteration order (a set: its ghost
    enumeration, every member once, order unconstrained)"""
    from .npmodels import kind_of_dtype

    if len(args) > 2 or set(kwargs) - {"dtype"}:
        raise Unsupported("np.fromiter with count / like")
    src = args[0]
    dt = kwargs.get("dtype", args[1] if len(args) > 1 else None)
    k = kind_of_dtype(dt)
    if isinstance(src, Iter):  # np.fromiter(one-shot iterator) takes everything that is still to come
        if src.consumed:
            src = PList([])
        else:
            src.consumed, src = True, src.seq
    used(eng, "np.fromiter(iterable, dtype) is a new 1-D array of the iterable's items in iteration order")
    if isinstance(src, SymSet):
        ks, m, pos, _ = src.enumeration(eng)
        j = z3.Int(fresh_name("fi"))
        arr, n, sk = z3.Lambda([j], ks(j)), m, "int"
    elif isinstance(src, SArr):
        arr, n, sk = src.arr, src.n, src.kind
    elif isinstance(src, PList) and src.items is None and not src.tup:
        arr, n, sk = src.cols[0], src.n, src.kinds[0]
    elif isinstance(src, (PList, NArr)) and src.items is not None and all(kind_of(x) is not None for x in src.items) and (not isinstance(src, NArr) or src.ndim == 1):
        from . import narr

        kinds = {kind_of(x) for x in src.items}
        if k == "int" and "real" in kinds:
            raise Unsupported("np.fromiter narrowing reals to ints")
        return narr.from_list([Sym(to_z3(x, k), k) if isinstance(x, Sym) and kind_of(x) != k else x for x in src.items], k, dt)
    else:
        raise Unsupported(f"np.fromiter of {type(src).__name__}")
    if sk == k or (sk == "bool" and k == "int"):
        if sk != k:
            j = z3.Int(fresh_name("fi"))
            arr = z3.Lambda([j], z3.If(z3.Select(arr, j), 1, 0))
        return SArr(arr, n, k, name="fromiter", dtype=dt)
    if sk == "int" and k == "real":
        j = z3.Int(fresh_name("fi"))
        return SArr(z3.Lambda([j], z3.ToReal(z3.Select(arr, j))), n, "real", name="fromiter", dtype=dt)
    raise Unsupported("np.fromiter narrowing")


_prev_ones = [None]


def _np_ones(eng, args, kwargs):
    """np.ones(n[, dtype]) with a symbolic 1-D length n: n ones (the constant-array model of pyvc/ext_C10.py, as np.zeros / np.full)"""
    from . import ext_C10, narr

    n = ext_C10._dim(args[0] if args else kwargs.get("shape"))
    if n is None:
        return (_prev_ones[0] or narr.np_ones)(eng, args, kwargs)
    used(eng, "np.ones(n): n ones (n symbolic)")
    return ext_C10._const_array(eng, n, 1, kwargs.get("dtype", args[1] if len(args) > 1 else None), "ones")


def install():
    import numpy as np

    from . import ext_C01

    ext_C01.install()  # np.zeros / np.full / np.concatenate with a symbolic 1-D length (additive: concrete shapes go to the stock models)
    if models.EXTRA_MODELS.get(np.ones) is not _np_ones:
        _prev_ones[0] = models.EXTRA_MODELS.get(np.ones)
        models.EXTRA_MODELS[np.ones] = _np_ones
    models.EXTRA_MODELS[np.fromiter] = _np_fromiter

    models.EXTRA_MODELS[set] = _b_set
    models.EXTRA_MODELS[any] = _b_any
    models.EXTRA_MODELS[all] = _b_all
    if models.EXTRA_MODELS.get(len) is not _b_len:
        _prev_len[0] = models.EXTRA_MODELS.get(len)
        models.EXTRA_MODELS[len] = _b_len
    if models.EXTRA_MODELS.get(np.count_nonzero) is not _np_count_nonzero:
        _prev_count[0] = models.EXTRA_MODELS.get(np.count_nonzero)
        models.EXTRA_MODELS[np.count_nonzero] = _np_count_nonzero
