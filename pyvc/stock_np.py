"""STOCK library models: the value-generic, cross-checked models of pyvc/ext_*.py, available to EVERY property (fourth session, package `stock`).

Why.  A carrier rewritten in "vectorised" numpy (argsort + searchsorted instead of a dict, bincount instead of a counting loop, unique /
isin / setdiff1d instead of sets ...) used to end in `MACHINERY-ERROR ... unsupported: call to unmodelled numpy.X` (exit 3) under every
property except the one whose work package had written the model of X.  The models collected here speak about 1-D arrays (`SArr` of symbolic
or concrete length, concrete-shape `NArr`, lists of scalars) and scalars only -- no property class, no ghost vocabulary of a contract.

How they are reached (three small hooks, all LAST RESORTS, so that nothing an unchanged-tree proof sees changes):
  * `models.lookup_model(fn)`: the model the existing tables give (EXTRA_MODELS of the checked property, BUILTIN_MODELS, npmodels / narr) is
    used first; a stock model is tried only when there is NO model, or when that model raises `Unsupported` without having touched the path
    (no branch, no assumption, no obligation) -- i.e. exactly where the run used to be a machinery error;
  * `models.method_of(eng, v, name)`: likewise for methods of 1-D arrays (`a.argsort()`, `a.searchsorted(v)`, `a.min()`, `a.tolist()` ...);
  * `npmodels.setitem`: `a[idx] = values` with an index ARRAY and a value ARRAY (scatter), where the stock store raises `Unsupported`.
A property's own `eng.models` replacement (contract option `models=ext_Cxx.MODELS`) is consulted before any of this, as before.

Every model records itself with `used(eng, ...)` (evidence `trusted_base`); tools/xcheck_stock.py cross-checks all of them against numpy.
The inventory (which ext module a model comes from, what was NOT promoted and why) is docs/w4/stock.md.
"""
from __future__ import annotations

import ast

import numpy as np
import z3

from .engine import ProgExc, Unsupported
from .values import Iter, NArr, NativeMethod, PList, SArr, Sym, fresh, fresh_name, kind_of, to_z3, zint

I = z3.IntSort()


def used(eng, name):
    eng.assumptions.add("numpy-model:" + name)


def _rng(t, n):
    return z3.And(t >= 0, t < n)


def _plain_sarr(v):
    return isinstance(v, SArr) and not hasattr(v, "__pyvc_getitem__")


def _as_sarr(v, kinds=("int", "real", "bool")):
    """1-D operand as an SArr: an SArr, a symbolic-length list of scalars, a 1-D NArr / concrete list of scalars (spelled out cell by cell)"""
    if _plain_sarr(v):
        return v if v.kind in kinds else None
    if isinstance(v, SArr):
        return SArr(v.arr, v.n, v.kind, name=v.name, dtype=v.dtype) if v.kind in kinds else None
    if isinstance(v, PList) and v.items is None and not v.tup and len(v.cols) == 1 and v.kinds[0] in kinds:
        return SArr(v.cols[0], v.n, v.kinds[0], name="aslist")
    items = None
    if isinstance(v, NArr) and v.ndim == 1:
        items = list(v.items)
    elif isinstance(v, PList) and v.items is not None:
        items = list(v.items)
    elif isinstance(v, (list, tuple)):
        items = list(v)
    if items is None or any(kind_of(x) not in kinds for x in items):
        return None
    ks = {kind_of(x) for x in items}
    k = "real" if "real" in ks else ("int" if "int" in ks or not ks else "bool")
    if k not in kinds:
        return None
    from .values import sort_of

    arr = z3.K(I, to_z3(0 if k != "bool" else False, k))
    for q, t in enumerate(items):
        arr = z3.Store(arr, q, to_z3(t, k))
    assert arr.sort().range() == sort_of(k)
    out = SArr(arr, len(items), k, name="lst", dtype=getattr(v, "dtype", None))
    out.ub = len(items)
    return out


def _symbolic_operand(v):
    """does the operand need a symbolic-length model (the concrete-shape models of narr.py do not take it)"""
    if isinstance(v, (SArr, Sym)) or (isinstance(v, PList) and v.items is None):
        return True
    if isinstance(v, PList) and v.items is not None:
        v = v.items
    return isinstance(v, (list, tuple)) and any(isinstance(x, (SArr, Sym)) for x in v)


# =============================================================================================== models taken over unchanged
def _ext(module, name):
    """a model of pyvc/<module>.py, imported on first use (none of these modules installs anything at import time)"""
    def model(eng, *a):
        import importlib

        return getattr(importlib.import_module("pyvc." + module), name)(eng, *a)

    model.__name__ = f"{module}.{name}"
    return model


# =============================================================================================== new models (same style, cross-checked)
def _np_intersect1d(eng, args, kwargs):
    """np.intersect1d(a, b): the sorted distinct values that occur in both 1-D int arrays"""
    kw = dict(kwargs)
    kw.pop("assume_unique", None)
    if len(args) != 2 or kw:
        raise Unsupported("np.intersect1d form (modelled: np.intersect1d(1-D int array, 1-D int array))")
    a, b = _as_sarr(args[0], ("int",)), _as_sarr(args[1], ("int",))
    if a is None or b is None:
        raise Unsupported("np.intersect1d operands")
    used(eng, "np.intersect1d(a, b) on 1-D int arrays: strictly increasing array of exactly the values that occur in both")
    out = SArr.fresh("int", name="intersect", dtype=np.dtype("int64"))
    tag = fresh_name("is")
    wa, wb, pos = z3.Function("wa_" + tag, I, I), z3.Function("wb_" + tag, I, I), z3.Function("pos_" + tag, I, I)
    n, nb, m = a.nz(), b.nz(), out.nz()
    O = lambda t: z3.Select(out.arr, t)
    k, k2, i, j = z3.Ints(f"k_{tag} k2_{tag} i_{tag} j_{tag}")
    eng.assume(z3.And(m >= 0, m <= n, m <= nb))
    eng.assume(z3.ForAll([k], z3.Implies(_rng(k, m), z3.And(_rng(wa(k), n), a.get(wa(k)).z == O(k), _rng(wb(k), nb), b.get(wb(k)).z == O(k))), patterns=[O(k)]))
    eng.assume(z3.ForAll([k, k2], z3.Implies(z3.And(k >= 0, k < k2, k2 < m), O(k) < O(k2)), patterns=[z3.MultiPattern(O(k), O(k2))]))
    eng.assume(z3.ForAll([i, j], z3.Implies(z3.And(_rng(i, n), _rng(j, nb), a.get(i).z == b.get(j).z), z3.And(_rng(pos(i), m), O(pos(i)) == a.get(i).z))))
    return out


def _arr_extreme(eng, a, initial, is_min, what):
    """minimum / maximum of a 1-D numeric array (with `initial`: of the entries and that value): a bound of every entry that is attained;
    ValueError on an empty array without `initial`  (the mirror image of ext_C18._arr_max)"""
    n = a.nz()
    if initial is None and not eng.spec_mode:
        if not eng.branch(eng.sbool(n > 0)):
            raise ProgExc(ValueError, f"zero-size array to reduction operation {'minimum' if is_min else 'maximum'} which has no identity")
    used(eng, f"{what}: a bound of every entry (and of `initial`) that is one of them (ValueError when empty without initial)")
    kind = a.kind if initial is None or kind_of(initial) == a.kind else "real"
    r = fresh(kind, "amin" if is_min else "amax")
    w = z3.Int(fresh_name("at_ext"))
    q = z3.Int(fresh_name("eq"))
    E_ = lambda t: to_z3(a.get(t), kind)
    cmp_ = (lambda x, y: x <= y) if is_min else (lambda x, y: x >= y)
    eng.assume(z3.ForAll([q], z3.Implies(_rng(q, n), cmp_(r.z, E_(q))), patterns=[z3.Select(a.arr, q)]))
    attained = z3.And(_rng(w, n), r.z == E_(w))
    if initial is not None:
        iz = to_z3(initial, kind)
        eng.assume(cmp_(r.z, iz))
        attained = z3.Or(r.z == iz, attained)
    eng.assume(attained)
    return r


def _np_extreme(is_min):
    name = "np.min" if is_min else "np.max"

    def model(eng, args, kwargs):
        kw = dict(kwargs)
        initial = kw.pop("initial", None)
        axis = kw.pop("axis", args[1] if len(args) > 1 else None)
        if kw.pop("keepdims", False) is not False or kw or len(args) > 2 or axis not in (None, 0, -1):
            raise Unsupported(f"{name} with these options")
        a = _as_sarr(args[0], ("int", "real")) if args else None
        if a is None:
            raise Unsupported(f"{name} operand")
        return _arr_extreme(eng, a, initial, is_min, f"{name}(1-D array, initial=)")

    return model


def _m_extreme(is_min):
    def method(eng, recv, args, kwargs):
        return _np_extreme(is_min)(eng, [recv] + list(args), kwargs)

    return method


def _np_argextreme(is_min):
    name = "np.argmin" if is_min else "np.argmax"

    def model(eng, args, kwargs):
        """argmin / argmax of a 1-D array of symbolic length: the FIRST position of the extremum; ValueError when empty"""
        axis = kwargs.get("axis", args[1] if len(args) > 1 else None)
        if set(kwargs) - {"axis"} or len(args) > 2 or axis not in (None, 0, -1):
            raise Unsupported(f"{name} with these options")
        a = _as_sarr(args[0]) if args else None
        if a is None:
            raise Unsupported(f"{name} operand")
        n = a.nz()
        if not eng.spec_mode:
            if not eng.branch(eng.sbool(n > 0)):
                raise ProgExc(ValueError, f"attempt to get {name[3:]} of an empty sequence")
        used(eng, f"{name}(1-D array): the first position of the extremum (ValueError when empty)")
        k = "int" if a.kind == "bool" else a.kind
        r = fresh("int", "arg")
        q = z3.Int(fresh_name("aq"))
        E_ = lambda t: to_z3(a.get(t), k)
        weak = (lambda x, y: x <= y) if is_min else (lambda x, y: x >= y)
        strict = (lambda x, y: x < y) if is_min else (lambda x, y: x > y)
        eng.assume(_rng(r.z, n))
        eng.assume(z3.ForAll([q], z3.Implies(_rng(q, n), weak(E_(r.z), E_(q))), patterns=[z3.Select(a.arr, q)]))
        eng.assume(z3.ForAll([q], z3.Implies(z3.And(q >= 0, q < r.z), strict(E_(r.z), E_(q)))))
        return r

    return model


def _m_argextreme(is_min):
    def method(eng, recv, args, kwargs):
        return _np_argextreme(is_min)(eng, [recv] + list(args), kwargs)

    return method


def _dim(shape):
    from . import ext_C10

    return ext_C10._dim(shape)


def _np_const(name, fill):
    """np.zeros / np.ones / np.full / np.empty with a SYMBOLIC 1-D length (the constant-array model of pyvc/ext_C10.py)"""
    def model(eng, args, kwargs):
        from . import ext_C10

        n = _dim(args[0] if args else kwargs.get("shape"))
        if n is None:
            raise Unsupported(f"np.{name} shape")
        if name == "full":
            fv = kwargs.get("fill_value", args[1] if len(args) > 1 else None)
            dt = kwargs.get("dtype", args[2] if len(args) > 2 else None)
        else:
            fv, dt = fill, kwargs.get("dtype", args[1] if len(args) > 1 else None)
        if set(kwargs) - {"shape", "fill_value", "dtype"} or kind_of(fv) is None and name != "empty":
            raise Unsupported(f"np.{name} options")
        if name == "empty":
            from .npmodels import kind_of_dtype

            if not eng.spec_mode:
                if not eng.branch(eng.sbool(n.z >= 0)):
                    raise ProgExc(ValueError, "negative dimensions are not allowed")
            used(eng, "np.empty(n): a fresh array of n ARBITRARY entries (n symbolic)")
            return SArr.fresh(kind_of_dtype(dt) if dt is not None else "real", n.z, name="empty", dtype=dt)
        used(eng, f"np.{name}(n{', v' if name == 'full' else ''}): n copies of the fill value (n symbolic)")
        return ext_C10._const_array(eng, n, fv, dt, name)

    return model


def _np_like(name, fill):
    """np.zeros_like / ones_like / full_like / empty_like(a, dtype=) of a 1-D array of symbolic length"""
    def model(eng, args, kwargs):
        from .npmodels import kind_of_dtype

        a = _as_sarr(args[0]) if args else None
        if a is None or set(kwargs) - {"dtype", "fill_value"} or len(args) > (2 if name == "full_like" else 1) + (0 if "dtype" in kwargs else 1):
            raise Unsupported(f"np.{name} form")
        dt = kwargs.get("dtype", args[-1] if len(args) > (2 if name == "full_like" else 1) else None)
        kind = kind_of_dtype(dt) if dt is not None else a.kind
        if name == "empty_like":
            used(eng, "np.empty_like(1-D array): a fresh array of the same length with ARBITRARY contents")
            return SArr.fresh(kind, a.n, name="empty", dtype=dt if dt is not None else a.dtype)
        fv = kwargs.get("fill_value", args[1] if len(args) > 1 else None) if name == "full_like" else fill
        if kind_of(fv) is None or (kind == "int" and kind_of(fv) == "real" and isinstance(fv, Sym)):
            raise Unsupported(f"np.{name} fill value")
        from . import narr

        used(eng, f"np.{name}(1-D array, dtype=): as many copies of the fill value, cast to the dtype")
        return SArr(z3.K(I, to_z3(narr.cast(eng, fv, kind), kind)), a.n, kind, name=name, dtype=dt if dt is not None else a.dtype)

    return model


def _np_concatenate(eng, args, kwargs):
    """np.concatenate / np.hstack of 1-D arrays one of which has symbolic length (pyvc/ext_C10.py; result dtype as pyvc/ext_C01.py)"""
    from . import ext_C10

    seq = args[0].items if args and isinstance(args[0], PList) else (args[0] if args else None)
    if not (isinstance(seq, (list, tuple)) and any(isinstance(x, SArr) for x in seq)) or set(kwargs) - {"axis"}:
        raise Unsupported("np.concatenate operands")
    seq = [NArr((len(x.items),), list(x.items), "real" if any(kind_of(t) == "real" for t in x.items) else "int")
           if isinstance(x, PList) and x.items is not None and all(kind_of(t) in ("int", "real") for t in x.items) else
           (_as_sarr(x) if isinstance(x, PList) and x.items is None else x) for x in seq]
    out = ext_C10._concatenate(eng, [PList(seq)] + list(args[1:]), kwargs)
    dts = [getattr(x, "dtype", None) for x in seq]
    if dts and all(d is not None for d in dts) and len({np.dtype(d) for d in dts}) == 1:
        out.dtype = np.dtype(dts[0])
    return out


def _np_hstack(eng, args, kwargs):
    if len(args) != 1 or kwargs:
        raise Unsupported("np.hstack options")
    return _np_concatenate(eng, args, {})


def _np_append(eng, args, kwargs):
    """np.append(a, values) without axis: concatenation of the two flattened operands"""
    if len(args) != 2 or kwargs.get("axis") is not None or set(kwargs) - {"axis"}:
        raise Unsupported("np.append form")
    a, v = args
    if kind_of(v) is not None:
        v = NArr((1,), [v], kind_of(v))
    used(eng, "np.append(a, values) of 1-D operands: a followed by the values")
    return _np_concatenate(eng, [PList([a, v])], {})


def _np_repeat(eng, args, kwargs):
    """np.repeat(1-D array, k) for a concrete count k >= 0: every entry k times in place order (out[i] = a[i // k], length k * len(a));
    np.repeat(scalar, n): n copies"""
    if len(args) != 2 or set(kwargs) - {"axis"} or kwargs.get("axis") not in (None, 0, -1):
        raise Unsupported("np.repeat form")
    a, k = args
    if kind_of(a) is not None and isinstance(k, Sym) and k.kind == "int":
        from . import ext_C10

        used(eng, "np.repeat(scalar, n): n copies of the scalar")
        return ext_C10._const_array(eng, k, a, None, "repeat")
    s = _as_sarr(a)
    if s is None or isinstance(k, bool) or not isinstance(k, int):
        raise Unsupported("np.repeat operands (modelled: a concrete repeat count)")
    if k < 0:
        raise ProgExc(ValueError, "repeats may not contain negative values.")
    used(eng, "np.repeat(1-D array, k), k a constant: out[i] = a[i // k], length k * len(a)")
    if k == 0:
        return SArr(s.arr, 0, s.kind, name="repeat", dtype=s.dtype)
    from .npmodels import lam

    return SArr(lam(lambda i: s.get(i / k).z, s.kind), z3.simplify(s.nz() * k), s.kind, name="repeat", dtype=s.dtype)


def _np_put(eng, args, kwargs):
    """np.put(a, ind, v) on 1-D arrays: a[ind] = v (mode='raise'); the index-array stores of npmodels / ext_C05.scatter_store"""
    if len(args) != 3 or (kwargs and (set(kwargs) != {"mode"} or kwargs["mode"] != "raise")):
        raise Unsupported("np.put form")
    a, ind, v = args
    if not _plain_sarr(a):
        raise Unsupported("np.put target")
    used(eng, "np.put(a, ind, v) on a 1-D array is a[ind] = v")
    eng.models.setitem(eng, a, ind, v)
    return None


def _np_where1(eng, args, kwargs):
    """np.where(cond) / np.nonzero(cond) of a 1-D array: the 1-tuple holding np.flatnonzero(cond)"""
    if len(args) != 1 or kwargs:
        raise Unsupported("np.where / np.nonzero form")
    from . import ext_tables

    if _as_sarr(args[0]) is None or isinstance(args[0], NArr):
        raise Unsupported("np.where / np.nonzero operand")
    used(eng, "np.where(cond) / np.nonzero(cond) of a 1-D array: (the positions of the true entries in increasing order,)")
    return (ext_tables._np_flatnonzero(eng, [_as_sarr(args[0])], {}),)


def _np_flatnonzero(eng, args, kwargs):
    from . import ext_tables

    if len(args) == 1 and not kwargs and not _plain_sarr(args[0]) and not (isinstance(args[0], PList) and args[0].items is None):
        args = [_as_sarr(args[0])]  # a mask of concrete length with symbolic entries (NArr, list): the result still has a symbolic length
    if not args or args[0] is None:
        raise Unsupported("np.flatnonzero operand")
    return ext_tables._np_flatnonzero(eng, args, kwargs)


def _np_fromiter(eng, args, kwargs):
    """np.fromiter(iterable, dtype): a NEW 1-D array of the iterable's items in iteration order, converted to the dtype
    (pyvc/ext_C06.py without its set enumeration; ext_C06 itself cannot be imported here: importing it installs ext_C08's tables)"""
    from .npmodels import kind_of_dtype

    if len(args) > 2 or set(kwargs) - {"dtype"}:
        raise Unsupported("np.fromiter with count / like")
    src = args[0]
    dt = kwargs.get("dtype", args[1] if len(args) > 1 else None)
    if dt is None:
        raise ProgExc(TypeError, "fromiter() missing required argument 'dtype'")
    k = kind_of_dtype(dt)
    if isinstance(src, Iter):
        if src.consumed:
            src = PList([])
        else:
            src.consumed, src = True, src.seq
    if isinstance(src, NArr) and src.ndim != 1:
        raise Unsupported("np.fromiter of a 2-D array")
    s = _as_sarr(src)
    if s is None:
        raise Unsupported(f"np.fromiter of {type(src).__name__}")
    used(eng, "np.fromiter(iterable, dtype) is a new 1-D array of the iterable's items in iteration order")
    if isinstance(s.n, int) and not _symbolic_operand(src):
        from . import narr

        items = list(src.items) if hasattr(src, "items") else list(src)
        if k == "int" and any(kind_of(x) == "real" for x in items):
            raise Unsupported("np.fromiter narrowing reals to ints")
        return narr.from_list([Sym(to_z3(x, k), k) if isinstance(x, Sym) and kind_of(x) != k else x for x in items], k, dt)
    return _convert(eng, s, k, dt, "fromiter")


def _convert(eng, s, k, dt, name):
    """the 1-D array s converted to element kind k (numpy casting): int -> float exact, bool -> int 0 / 1, number -> bool `!= 0`,
    float -> int truncation toward zero"""
    j = z3.Int(fresh_name("cv"))
    if s.kind == k:
        return SArr(s.arr, s.n, k, name=name, dtype=dt)
    cell = s.get(j)
    if k == "real":
        body = to_z3(cell, "real")
    elif k == "bool":
        body = cell.z != 0
    elif s.kind == "bool":
        body = z3.If(cell.z, 1, 0)
    else:
        used(eng, "float -> int conversion truncates toward zero")
        body = z3.If(cell.z >= 0, z3.ToInt(cell.z), -z3.ToInt(-cell.z))
    return SArr(z3.Lambda([j], body), s.n, k, name=name, dtype=dt)


def _m_astype(eng, recv, args, kwargs):
    """a.astype(dtype) between the int / float / bool kinds on a 1-D array of symbolic length: a fresh array (copy=True)"""
    from .npmodels import kind_of_dtype

    dt = kwargs.get("dtype", args[0] if args else None)
    if dt is None or len(args) > 1 or set(kwargs) - {"dtype", "copy"} or not _plain_sarr(recv):
        raise Unsupported("ndarray.astype form")
    used(eng, "ndarray.astype between int / float / bool: elementwise numpy casting (fresh array)")
    return _convert(eng, recv, kind_of_dtype(dt), dt, recv.name + "_as")


def _m_tolist(eng, recv, args, kwargs):
    if args or kwargs or not _plain_sarr(recv):
        raise Unsupported("ndarray.tolist form")
    used(eng, "ndarray.tolist() of a 1-D array: a new list with the same elements")
    p = PList()
    p.items, p.cols, p.kinds, p.n, p.tup = None, [recv.arr], [recv.kind], recv.n, False
    return p


def _m_sort(eng, recv, args, kwargs):
    """a.sort() in place: the contents become np.sort(a)"""
    from . import ext_C05
    from .models import check_frame

    if not _plain_sarr(recv) or getattr(recv, "view_of", None) is not None:
        raise Unsupported("ndarray.sort on this array")
    check_frame(eng, recv)
    out = ext_C05._np_sort(eng, [recv] + list(args), kwargs)
    recv.arr = out.arr
    return None


def _m_take(eng, recv, args, kwargs):
    return _ext("ext_C05_frame", "np_take")(eng, [recv] + list(args), kwargs)


def _m_put(eng, recv, args, kwargs):
    return _np_put(eng, [recv] + list(args), kwargs)


def _m_nonzero(eng, recv, args, kwargs):
    return _np_where1(eng, [recv] + list(args), kwargs)


def _m_cumsum(eng, recv, args, kwargs):
    from .npmodels import _np_cumsum

    if args or kwargs:
        raise Unsupported("ndarray.cumsum options")
    return _np_cumsum(eng, [recv], {})


def _m_sum(eng, recv, args, kwargs):
    m = eng.models.lookup_model(np.sum)
    if m is None:
        raise Unsupported("ndarray.sum")
    return m(eng, [recv] + list(args), kwargs)


def _np_searchsorted(eng, args, kwargs):
    """needles given as a list / tuple / 1-D NArr of concrete length: pyvc/ext_tables.py; everything else: pyvc/ext_C05.py"""
    from . import ext_tables

    a = args[0] if args else kwargs.get("a")
    if isinstance(a, NArr) or (isinstance(a, PList) and a.items is not None):  # a concrete-length table with symbolic entries
        s = _as_sarr(a, ("int", "real"))
        if s is None:
            raise Unsupported("np.searchsorted operand")
        args, kwargs = ([s] + list(args[1:]), kwargs) if args else (args, dict(kwargs, a=s))
    return ext_tables._np_searchsorted(eng, args, kwargs)


def _m_searchsorted(eng, recv, args, kwargs):
    return _np_searchsorted(eng, [recv] + list(args), kwargs)


def _sarr_first(model, nargs=1, kinds=("int", "real", "bool")):
    """run `model` with its first `nargs` positional operands turned into SArr (lists / 1-D NArr with symbolic entries spelled out)"""
    def wrapped(eng, args, kwargs):
        conv = []
        for q, x in enumerate(args):
            if q < nargs and not _plain_sarr(x):
                s = _as_sarr(x, kinds)
                if s is None:
                    raise Unsupported("1-D array operand expected")
                conv.append(s)
            else:
                conv.append(x)
        return model(eng, conv, kwargs)

    wrapped.__name__ = getattr(model, "__name__", "model")
    return wrapped


def _np_count_nonzero(eng, args, kwargs):
    """np.count_nonzero of a 1-D int / real array of symbolic length: the count of the mask `a != 0`"""
    from .npmodels import _np_count_nonzero as stock, lam

    if len(args) != 1 or (kwargs and kwargs != {"axis": None}):
        raise Unsupported("np.count_nonzero with an axis")
    a = _as_sarr(args[0])
    if a is None:
        raise Unsupported("np.count_nonzero operand")
    m = a if a.kind == "bool" else SArr(lam(lambda t: a.get(t).z != 0, "bool"), a.n, "bool", name="nz")
    return stock(eng, [m], {})


def _np_logical(name):
    def model(eng, args, kwargs):
        from . import ext_C10

        if kwargs or not any(isinstance(x, SArr) for x in args):
            raise Unsupported(f"np.{name} operands")
        if name == "logical_not":
            return ext_C10._logical_not(eng, args, kwargs)
        op = {"logical_and": (z3.And, lambda e, x, y: e.and_(x, y)), "logical_or": (z3.Or, lambda e, x, y: e.or_(x, y))}[name]
        return ext_C10._logical(name, *op)(eng, args, kwargs)

    return model


def _np_arange_real(eng, args, kwargs):
    from . import ext_C10

    return ext_C10._arange(eng, args, kwargs)


# =============================================================================================== tables
# fn -> candidate models, tried in order (each raises Unsupported for the forms it does not take)
STOCK_MODELS = {
    np.argsort: [_ext("ext_C05", "_np_argsort")],
    np.sort: [_ext("ext_C05", "_np_sort")],
    np.lexsort: [_ext("ext_C05", "_np_lexsort")],
    np.searchsorted: [_np_searchsorted],
    np.take: [_ext("ext_C05_frame", "np_take")],
    np.put: [_np_put],
    np.flatnonzero: [_np_flatnonzero],
    np.nonzero: [_np_where1],
    np.where: [_np_where1],
    np.bincount: [_ext("ext_tables", "_np_bincount"), _ext("ext_C18", "np_bincount")],
    np.add.at: [_ext("ext_tables", "_np_add_at"), _ext("ext_C18", "ufunc_add_at")],
    np.unique: [_ext("ext_C18", "np_unique")],
    np.setdiff1d: [_ext("ext_C18", "np_setdiff1d")],
    np.isin: [_ext("ext_C18", "np_isin")],
    np.intersect1d: [_np_intersect1d],
    np.min: [_np_extreme(True)], np.amin: [_np_extreme(True)], np.max: [_np_extreme(False)], np.amax: [_np_extreme(False)],
    np.argmin: [_np_argextreme(True)], np.argmax: [_np_argextreme(False)],
    np.zeros: [_np_const("zeros", 0)], np.ones: [_np_const("ones", 1)], np.full: [_np_const("full", None)], np.empty: [_np_const("empty", None)],
    np.zeros_like: [_np_like("zeros_like", 0)], np.ones_like: [_np_like("ones_like", 1)], np.full_like: [_np_like("full_like", None)],
    np.empty_like: [_np_like("empty_like", None)],
    np.concatenate: [_np_concatenate], np.hstack: [_np_hstack], np.append: [_np_append],
    np.repeat: [_np_repeat],
    np.fromiter: [_np_fromiter],
    np.count_nonzero: [_np_count_nonzero],
    np.logical_and: [_np_logical("logical_and")], np.logical_or: [_np_logical("logical_or")], np.logical_not: [_np_logical("logical_not")],
    np.arange: [_np_arange_real],
    np.cumsum: [_sarr_first(lambda eng, a, k: __import__("pyvc.npmodels", fromlist=["x"])._np_cumsum(eng, a, k), kinds=("int", "real"))],
}
if hasattr(np, "in1d"):
    STOCK_MODELS[np.in1d] = STOCK_MODELS[np.isin]

# methods of 1-D arrays of symbolic length (SArr without an extension protocol of its own)
STOCK_METHODS = {
    "argsort": [_ext("ext_C05", "_m_argsort")],
    "searchsorted": [_m_searchsorted],
    "min": [_m_extreme(True)], "max": [_m_extreme(False)],
    "argmin": [_m_argextreme(True)], "argmax": [_m_argextreme(False)],
    "sort": [_m_sort], "take": [_m_take], "put": [_m_put], "nonzero": [_m_nonzero],
    "tolist": [_m_tolist], "astype": [_m_astype], "cumsum": [_m_cumsum], "sum": [_m_sum],
}


# =============================================================================================== the three hooks
def _untouched(eng, mark):
    return mark == (len(eng.pc), getattr(eng, "pos", 0), len(getattr(eng, "obligs", ())))


def _mark(eng):
    return (len(eng.pc), getattr(eng, "pos", 0), len(getattr(eng, "obligs", ())))


def _try(cands, eng, call, first_error):
    err = first_error
    for c in cands:
        mark = _mark(eng)
        try:
            return call(c)
        except Unsupported as e:
            if not _untouched(eng, mark):
                raise
            err = err or e
    raise err


_WRAPPED = {}
_ACTIVE = set()


def _close(args, kwargs, result):
    """concrete-shape operands in, concrete-shape result out: a result array of CONCRETE length that does not stem from an SArr operand of concrete
    length is handed back as an NArr (its cells are the model's terms), so that it mixes with the other concrete-shape arrays of the carrier
    (`ids[~np.isin(ids, pid)]`) and has the form a clause written for concrete shapes expects"""
    ops = []
    for x in list(args) + list(kwargs.values()):
        ops.extend(x.items if isinstance(x, PList) and x.items is not None else x if isinstance(x, (tuple, list)) else [x])
    if any(isinstance(x, SArr) and isinstance(x.n, int) for x in ops):
        return result  # fixed-size registrations on SArr columns of concrete length (contracts/C06.py) keep that form

    def one(r):
        if _plain_sarr(r) and isinstance(r.n, int) and not isinstance(r.n, bool) and r.n <= 64:
            return NArr((r.n,), [Sym(z3.simplify(r.get(q).z), r.kind) for q in range(r.n)], r.kind, r.dtype)
        return r

    return tuple(one(r) for r in result) if isinstance(result, tuple) else one(result)


def _native(fn):
    """last candidate: numpy itself on fully CONCRETE operands (concrete-shape arrays of Python numbers), as the interpreter does for pure builtins"""
    def model(eng, args, kwargs):
        from fractions import Fraction

        from . import models, narr

        if fn in (np.put, np.add.at) or not models.all_concrete(args, kwargs):
            raise Unsupported(f"call to unmodelled numpy.{getattr(fn, '__name__', fn)} on these operands")

        def down(v):
            if isinstance(v, NArr):
                its = [float(x) if isinstance(x, Fraction) and x.denominator != 1 else (int(x) if isinstance(x, Fraction) else x) for x in v.items]
                return np.array(its, dtype=v.dtype if v.dtype is not None and v.kind != "real" else None).reshape(v.shape)
            if isinstance(v, PList):
                return [down(x) for x in v.items]
            if isinstance(v, (tuple, list)):
                return type(v)(down(x) for x in v)
            return models.unwrap(v)

        def up(r):
            if isinstance(r, np.ndarray):
                k = "bool" if r.dtype.kind == "b" else "int" if r.dtype.kind in "iu" else "real" if r.dtype.kind == "f" else None
                if k is None:
                    raise Unsupported("native numpy result dtype")
                return narr.from_list([models.wrap_native(x.item()) for x in r.ravel()], k, r.dtype) if r.ndim == 1 else NArr(r.shape, [models.wrap_native(x.item()) for x in r.ravel()], k, r.dtype)
            if isinstance(r, tuple):
                return tuple(up(x) for x in r)
            if isinstance(r, np.generic):
                return models.wrap_native(r.item())
            return models.wrap_native(r)

        used(eng, f"np.{getattr(fn, '__name__', fn)} on concrete operands: evaluated by numpy itself")
        try:
            return up(fn(*[down(a) for a in args], **{k: down(v) for k, v in kwargs.items()}))
        except Unsupported:
            raise
        except Exception as e:  # noqa: BLE001 - the real exception of the real call on concrete data
            raise ProgExc(type(e), str(e))

    return model


def wrap(fn, primary):
    """the model `lookup_model(fn)` hands out: `primary` (what the tables of this process give) where there is no stock model of fn;
    the stock model where there is no primary; else primary with the stock model as the fallback for the forms primary refuses"""
    try:
        cands = STOCK_MODELS.get(fn)
    except TypeError:
        return primary
    if not cands:
        return primary
    key = (fn, primary)
    hit = _WRAPPED.get(key)
    if hit is not None:
        return hit

    def model(eng, args, kwargs):
        err = None
        if fn in _ACTIVE:  # a stock candidate chaining back to "the model that was there before" (ext_C05._chain): only the primary is that
            if primary is None:
                raise Unsupported(f"call to unmodelled {getattr(fn, '__module__', '?')}.{getattr(fn, '__name__', fn)} on these operands")
            return primary(eng, args, kwargs)
        if primary is not None:
            mark = _mark(eng)
            try:
                return primary(eng, args, kwargs)
            except Unsupported as e:
                if not _untouched(eng, mark):
                    raise
                err = e
            except (ValueError, TypeError, AttributeError, IndexError, KeyError, AssertionError) as e:
                # a model written for concrete shapes that trips over a symbolic-length operand (not a verdict: the run was an engine error)
                if not _untouched(eng, mark) or not any(_symbolic_operand(x) for x in list(args) + list(kwargs.values())):
                    raise
                err = Unsupported(f"{getattr(fn, '__name__', fn)}: {type(e).__name__}: {e}")
        _ACTIVE.add(fn)
        try:
            return _close(args, kwargs, _try(cands + [_native(fn)], eng, lambda c: c(eng, args, kwargs), err))
        finally:
            _ACTIVE.discard(fn)

    model.__name__ = "stock:" + getattr(fn, "__name__", repr(fn))
    model.primary = primary
    _WRAPPED[key] = model
    return model


def method_of(eng, v, name, primary=None, error=None):
    """NativeMethod for `v.name` of a plain 1-D SArr: `primary` (the method model the tables give, or None) with the stock method as
    fallback; None when there is no stock method"""
    cands = STOCK_METHODS.get(name)
    if not cands or not _plain_sarr(v):
        return None
    pm = primary.model if isinstance(primary, NativeMethod) else None

    def model(eng_, recv, args, kwargs):
        err = error
        if pm is not None:
            mark = _mark(eng_)
            try:
                return pm(eng_, recv, args, kwargs)
            except Unsupported as e:
                if not _untouched(eng_, mark):
                    raise
                err = e
        return _try(cands, eng_, lambda c: c(eng_, recv, args, kwargs), err)

    return NativeMethod(model, v, name)


def scatter(eng, base, idx, val):
    """`a[idx] = values` with an int index array and a value array / list on a plain 1-D SArr; False when the form is not this one"""
    from . import ext_C05

    if not _plain_sarr(base) or getattr(base, "view_of", None) is not None:
        return False
    vs = _as_sarr(val, ("int", "real", "bool")) if kind_of(val) is None else None
    if isinstance(idx, SArr) and idx.kind == "bool" and vs is not None and not (base.kind == "int" and vs.kind == "real"):
        _mask_store(eng, base, idx, vs)
        return True
    ix = _as_sarr(idx, ("int",)) if not (isinstance(idx, SArr) and idx.kind == "bool") else None
    if ix is None or vs is None or (base.kind == "int" and vs.kind == "real"):
        return False
    ext_C05.scatter_store(eng, base, ix, vs)
    return True


def _mask_store(eng, base, mask, vs):
    """`a[mask] = values` (mask a boolean array as long as a, values a 1-D array): the k-th selected cell receives values[k]; the values must be
    as many as the mask selects (numpy raises ValueError otherwise; a single value is NOT broadcast here: that form is the scalar store).
    The selection is the boolean-mask filter of the positions (ghost maps kappa / rho of npmodels.mask_filter)."""
    from .models import check_frame
    from .npmodels import lam, mask_filter

    check_frame(eng, base)
    m = SArr(mask.arr, mask.n, "bool", name="mask")  # the mask AS IT IS NOW (`hit[hit] = ...` stores into the mask itself)
    sel = mask_filter(eng, SArr(lam(lambda t: t, "int"), base.n, "int", name="positions"), m)
    if not eng.spec_mode:
        eng.prove(eng.site("mask-store-as-many-values-as-selected-cells"), vs.nz() == sel.nz(), "safety",
                  "NumPy boolean array indexing assignment cannot assign k input values to the m output values where the mask is true")
    used(eng, "boolean-mask store a[mask] = values: the k-th selected cell (in position order) receives values[k], other cells keep their content")
    old, rho, n = base.arr, sel.rho, base.nz()
    i = z3.Int(fresh_name("ms_i"))
    base.arr = z3.Lambda([i], z3.If(z3.And(_rng(i, n), z3.Select(m.arr, i)), to_z3(vs.get(rho(i)), base.kind), z3.Select(old, i)))
