"""Re-anchoring of sidecar contracts after a rename of local variables.

Sidecar contracts name the carrier's locals (loop invariants, ghost hooks keyed by statement text, closure setups).
A commit that only RENAMES locals (or the parameters of nested helper functions) must not make the contract
inapplicable.  `baseline/sources.json` keeps the source text of every function under contract as it was when the
baselines were written; when the current text differs, the two ASTs are aligned (difflib over a linearisation in which
local names are wildcards) and every local of the current text that (a) does not occur in the baseline text and (b) is
aligned, consistently, with a baseline local that no longer occurs in the current text is renamed back to the baseline
name IN THE AST HANDED TO THE SYMBOLIC EXECUTOR.  This is alpha-renaming of bound variables of the function under
verification - semantics-preserving by construction (the target name is unused in the current text) - so the obligations
are still about the code that runs; the mapping is reported in evidence.  Parameters of the carrier itself are never
renamed (they are its public interface); parameters of nested functions and lambdas are.
"""
from __future__ import annotations

import ast
import difflib
import json
import os
import textwrap

HERE = os.path.dirname(os.path.dirname(os.path.abspath(__file__)))
_SOURCES = None
RENAMED: dict[str, dict[str, str]] = {}


def baseline_sources():
    global _SOURCES
    if _SOURCES is None:
        p = os.path.join(HERE, "baseline", "sources.json")
        try:
            _SOURCES = json.load(open(p))
        except (OSError, ValueError):
            _SOURCES = {}
    return _SOURCES


def _own_params(fn):
    a = fn.args
    names = [x.arg for x in a.posonlyargs + a.args + a.kwonlyargs]
    if a.vararg:
        names.append(a.vararg.arg)
    if a.kwarg:
        names.append(a.kwarg.arg)
    return set(names)


def local_names(fn, include_own_params):
    """names bound anywhere inside `fn` (nested defs, lambdas and comprehensions included)"""
    out = set()
    for x in ast.walk(fn):
        if isinstance(x, ast.Name) and isinstance(x.ctx, (ast.Store, ast.Del)):
            out.add(x.id)
        elif isinstance(x, ast.arg):
            out.add(x.arg)
        elif isinstance(x, ast.ExceptHandler) and x.name:
            out.add(x.name)
        elif isinstance(x, (ast.FunctionDef, ast.AsyncFunctionDef)) and x is not fn:
            out.add(x.name)
        elif isinstance(x, ast.alias):
            out.add((x.asname or x.name).split(".")[0])
        elif isinstance(x, (ast.MatchAs, ast.MatchStar)) and x.name:
            out.add(x.name)
    if not include_own_params and isinstance(fn, (ast.FunctionDef, ast.AsyncFunctionDef)):
        out -= _own_params(fn)
    return out


def _linearise(fn, locs):
    """[(token, name-or-None)]: a pre-order linearisation of the AST in which occurrences of local names are wildcards"""
    toks = []

    def visit(x):
        if isinstance(x, ast.Name):
            toks.append(("§", x.id) if x.id in locs else ("Name:" + x.id, None))
            return
        if isinstance(x, ast.arg):
            toks.append(("§arg", x.arg) if x.arg in locs else ("arg:" + x.arg, None))
            return
        if isinstance(x, ast.Constant):
            toks.append(("Const:" + repr(x.value), None))
            return
        label = type(x).__name__
        if isinstance(x, ast.Attribute):
            label += ":" + x.attr
        elif isinstance(x, (ast.FunctionDef, ast.AsyncFunctionDef)):
            label += ":" + (x.name if x.name not in locs else "§")
        elif isinstance(x, ast.keyword):
            label += ":" + str(x.arg)
        elif isinstance(x, ast.ExceptHandler):
            toks.append(("§exc", x.name) if x.name in locs else ("exc", None))
        if isinstance(x, ast.Expr) and isinstance(x.value, ast.Constant) and isinstance(x.value.value, str):
            return  # docstrings / bare strings are dropped by extraction anyway
        toks.append((label, None))
        for ch in ast.iter_child_nodes(x):
            if isinstance(ch, (ast.expr_context, ast.operator, ast.unaryop, ast.cmpop, ast.boolop)):
                toks.append((type(ch).__name__, None))
                continue
            visit(ch)

    visit(fn)
    return toks


def align(old_src, new_fn, nested):
    """mapping {current local name -> baseline local name}; {} when nothing can be re-anchored"""
    try:
        old_fn = ast.parse(textwrap.dedent(old_src)).body[0]
    except (SyntaxError, IndexError):
        return {}
    if not isinstance(old_fn, (ast.FunctionDef, ast.AsyncFunctionDef)) or not isinstance(new_fn, (ast.FunctionDef, ast.AsyncFunctionDef)):
        return {}
    old_l, new_l = local_names(old_fn, nested), local_names(new_fn, nested)
    appeared, vanished = new_l - old_l, old_l - new_l
    if not appeared or not vanished:
        return {}
    a, b = _linearise(old_fn, old_l), _linearise(new_fn, new_l)
    sm = difflib.SequenceMatcher(None, [t for t, _ in a], [t for t, _ in b], autojunk=False)
    votes, occ = {}, {}
    for _, n in b:
        if n in appeared:
            occ[n] = occ.get(n, 0) + 1
    for i, j, size in sm.get_matching_blocks():
        for d in range(size):
            (_, on), (_, nn) = a[i + d], b[j + d]
            if on is not None and nn is not None and nn in appeared and on in vanished:
                votes[(nn, on)] = votes.get((nn, on), 0) + 1
    mapping, taken = {}, set()
    for (nn, on), v in sorted(votes.items(), key=lambda kv: -kv[1]):
        if nn in mapping or on in taken:
            continue
        rivals_new = [w for (n2, o2), w in votes.items() if n2 == nn and o2 != on]
        rivals_old = [w for (n2, o2), w in votes.items() if o2 == on and n2 != nn]
        if any(w >= v for w in rivals_new + rivals_old):
            continue  # ambiguous: leave it (the contract then reports that the carrier changed shape)
        if v * 2 < occ.get(nn, 0):
            continue  # fewer than half of the occurrences sit where the baseline name sat
        mapping[nn] = on
        taken.add(on)
    return mapping


def apply(fn, mapping, nested):
    own = set() if nested else _own_params(fn)
    for x in ast.walk(fn):
        if isinstance(x, ast.Name) and x.id in mapping:
            x.id = mapping[x.id]
        elif isinstance(x, ast.arg) and x.arg in mapping and x.arg not in own:
            x.arg = mapping[x.arg]
        elif isinstance(x, ast.ExceptHandler) and x.name in mapping:
            x.name = mapping[x.name]
        elif isinstance(x, (ast.FunctionDef, ast.AsyncFunctionDef)) and x is not fn and x.name in mapping:
            x.name = mapping[x.name]
        elif isinstance(x, (ast.Nonlocal, ast.Global)):
            x.names = [mapping.get(n, n) for n in x.names]
        elif isinstance(x, ast.alias) and x.asname in mapping:
            x.asname = mapping[x.asname]
        elif isinstance(x, (ast.MatchAs, ast.MatchStar)) and x.name in mapping:
            x.name = mapping[x.name]
        elif isinstance(x, ast.keyword) and x.arg in mapping and isinstance(getattr(x, "_parent_call", None), ast.Name):
            x.arg = mapping[x.arg]


def reanchor(key, node, seg):
    """called by extract.find: rename the locals of `node` back to the baseline's names where a commit only renamed them"""
    base = baseline_sources().get(key)
    if base is None or base == seg:
        return {}
    nested = "<locals>" in key
    m = align(base, node, nested)
    if m:
        apply(node, m, nested)
        RENAMED[key] = dict(m)
    return m
