"""pyvc: a symbolic executor / verification-condition generator for a Python subset.

One Engine instance verifies one carrier function against its sidecar contract:
paths are explored by re-execution along a decision prefix; loops are cut by the
contract's invariants; calls to functions that have contracts are replaced by
(assert pre; havoc frame; assume post); everything else is either interpreted from
the repository AST (inlined) or resolved by a model in pyvc.models.
"""
from __future__ import annotations

import ast
import builtins
import inspect
import operator
from fractions import Fraction

import z3

from . import extract
from .values import (
    Bound, Callback, DictListRef, Func, Iter, NArr, NativeMethod, Obj, Opaque, PDict,
    PList, SArr, Sym, fresh, fresh_name, is_scalar, kind_of, reset_uids, snapshot,
    to_z3, zint, frac,
)


class Unsupported(Exception):
    """The carrier uses a construct outside the subset (exit 3, never a violation)."""


class PathEnd(Exception):
    pass


class Infeasible(Exception):
    pass


class ProgExc(Exception):
    """An exception raised by the interpreted program."""

    def __init__(self, cls, msg=None, cause=None):
        super().__init__(getattr(cls, "__name__", str(cls)))
        self.cls = cls
        self.msg = msg
        self.cause = cause


class ReturnSig(Exception):
    def __init__(self, value):
        self.value = value


class BreakSig(Exception):
    pass


class ContinueSig(Exception):
    pass


class Frame:
    def __init__(self, vars=None, parent=None, globs=None, func=None):
        self.vars = vars if vars is not None else {}
        self.parent = parent
        self.globs = globs if globs is not None else {}
        self.func = func
        self.nonlocals = set()
        self.loop_ord = 0  # next loop ordinal in this function activation

    def lookup(self, name):
        f = self
        while f is not None:
            if name in f.vars and name not in f.nonlocals:
                return f.vars[name]
            f = f.parent
        if name in self.globs:
            return self.globs[name]
        if hasattr(builtins, name):
            return getattr(builtins, name)
        # an unbound name is (practically) never the behaviour of the real code: it means the contract's setup / closure does not
        # provide a variable the (possibly refactored) carrier reads -> machinery error, never a program exception / violation
        raise Unsupported(f"name {name!r} has no value in the carrier's frame, closure or module (contract setup does not provide it: carrier changed shape?)")

    def store(self, name, value):
        if name in self.nonlocals:
            f = self.parent
            while f is not None:
                if name in f.vars and name not in f.nonlocals:
                    f.vars[name] = value
                    return
                f = f.parent
            raise Unsupported(f"nonlocal {name} not found")
        self.vars[name] = value


class Oblig:
    __slots__ = ("name", "hyps", "goal", "kind", "note", "ctx")

    def __init__(self, name, hyps, goal, kind, note="", ctx=None):
        self.name = name
        self.hyps = hyps
        self.goal = goal
        self.kind = kind
        self.note = note
        self.ctx = ctx  # replay context of the carrier's own proof (pyvc/cmreplay.py): setup values, predicted result


def _simp(z):
    return z3.simplify(z)


_hq_cache = {}


def _has_quant(z):
    k = z.get_id()
    hit = _hq_cache.get(k)
    r = hit[0] if hit is not None else None
    if r is None:
        r = False
        stack, seen = [z], set()
        while stack:
            x = stack.pop()
            if x.get_id() in seen:
                continue
            seen.add(x.get_id())
            if z3.is_quantifier(x):
                r = True
                break
            stack.extend(x.children())
        if len(_hq_cache) > 50000:
            _hq_cache.clear()
        _hq_cache[k] = (r, z)  # keep the term alive: z3 reuses AST ids of freed terms, a stale hit would misclassify a hypothesis
    return r


HYP_FILTERS = []  # [filter(eng, hyps, goal) -> sub-list of hyps], see pyvc/ext_C12.py (facts about an angle nobody looks at)


class Engine:
    MAX_PATHS = 4000

    def __init__(self, registry, prop_id="C00", feas_timeout_ms=1500):
        self.registry = registry  # key -> Contract
        self.prop = prop_id
        self.obligs: list[Oblig] = []
        self.assumptions: set[str] = set()  # names of library models / axioms used
        self.feas_timeout_ms = feas_timeout_ms
        self.pc: list = []
        self.trace: list[bool] = []
        self.pos = 0
        self.worklist: list[list[bool]] = []
        self.paths = 0
        self.spec_mode = 0
        self.old_env = None
        self.cur_contract = None
        self.cur_key = None
        self.inline_stack: list[str] = []
        self.ghost = {}
        self.warn_log = []  # ghost log of warnings.warn calls on this path
        self.used_lemmas = set()
        self.cur_frame = None
        from . import models

        self.models = models

    # ------------------------------------------------------------------ paths
    def explore(self, body_fn):
        """Run body_fn() once per feasible path (decision-prefix re-execution)."""
        self.worklist = [[]]
        self.paths = 0
        while self.worklist:
            prefix = self.worklist.pop()
            self.trace = list(prefix)
            self.pos = 0
            self.pc = []
            self.ghost = {}
            self.warn_log = []
            self.spec_mode = 0
            reset_uids()
            self.paths += 1
            if self.paths > self.MAX_PATHS:
                raise Unsupported("path explosion")
            try:
                body_fn()
            except PathEnd:
                pass
            except Infeasible:
                import os, traceback

                if os.environ.get("PYVC_DEBUG"):
                    traceback.print_exc()

    def feasible(self, extra, full=False):
        """Path feasibility.  For branch pruning only the quantifier-free part of
        the path condition is used (an over-approximation: a path kept needlessly
        only yields vacuous obligations); cover checks use the full condition."""
        s = z3.Solver()
        s.set("timeout", self.feas_timeout_ms if not full else 5000)
        for h in self.pc:
            if full or not _has_quant(h):
                s.add(h)
        s.add(extra)
        return s.check() != z3.unsat

    def branch(self, cond) -> bool:
        """Decide a (possibly symbolic) condition, forking the path when needed."""
        if not isinstance(cond, (Sym, z3.ExprRef)):
            return bool(cond)
        cz = _simp(to_z3(cond, "bool"))
        if z3.is_true(cz):
            return True
        if z3.is_false(cz):
            return False
        if self.spec_mode:
            raise Unsupported("control-flow on a symbolic value inside a specification clause")
        if getattr(self, "pure_mode", 0):
            # element of a comprehension over a symbolic sequence: the element is evaluated once for an arbitrary position, so
            # no fork is possible; a condition that the path condition (which holds the position's range) decides is taken
            ft, ff = self.feasible(cz), self.feasible(z3.Not(cz))
            if ft != ff:
                return ft
            if not ft:
                return True  # neither side is satisfiable: on this path the sequence has no position at all, the element is never evaluated
            raise Unsupported("control-flow on a symbolic value inside the element of a symbolic comprehension")
        if self.pos < len(self.trace):
            d = self.trace[self.pos]
            self.pos += 1
            self.pc.append(cz if d else z3.Not(cz))
            return d
        ft = self.feasible(cz)
        ff = self.feasible(z3.Not(cz))
        if not ft and not ff:
            raise Infeasible()
        if ft and ff:
            self.worklist.append(self.trace[: self.pos] + [False])
            d = True
        else:
            d = ft
        self.trace.append(d)
        self.pos += 1
        self.pc.append(cz if d else z3.Not(cz))
        return d

    def assume(self, cond):
        if isinstance(cond, bool):
            if not cond:
                raise Infeasible()
            return
        cz = to_z3(cond, "bool")
        self.pc.append(cz)

    def prove(self, label, cond, kind="assert", note=""):
        """Emit a named obligation pc => cond, then continue assuming cond."""
        name = f"{self.prop}/{label}"
        hints = self.cur_contract.options.get("hints") if self.cur_contract is not None else None
        if hints and not getattr(self, "_in_hint", False):
            for suffix, fn in hints.items():
                if label.endswith(suffix):
                    self._in_hint = True
                    try:
                        fn(self, self.visible_vars())
                    finally:
                        self._in_hint = False
        if isinstance(cond, bool):
            goal = z3.BoolVal(cond)
        else:
            goal = to_z3(cond, "bool")
        g = _simp(goal)
        if z3.is_true(g):
            self.obligs.append(Oblig(name, [], z3.BoolVal(True), kind, note))
            return
        note = (note + " " if note else "") + (f"[variant {self.variant}]" if getattr(self, "variant", "") else "")
        bf = getattr(self, "backend_first", None)  # contract option: "cvc5" (every obligation of the carrier) or a list of label substrings
        if bf == "cvc5" or (isinstance(bf, (list, tuple)) and any(x in name for x in bf)):
            note += " [cvc5-first]"
        hyps = list(self.pc)
        for flt in HYP_FILTERS:  # an extension may DROP hypotheses that cannot matter for this goal (fewer hypotheses: always sound)
            hyps = flt(self, hyps, goal)
        self.obligs.append(Oblig(name, hyps, goal, kind, note, getattr(self, "replay_ctx", None)))
        if not z3.is_false(g):  # a goal that is literally False (a forbidden write, an unexpected exception) is reported, not assumed:
            self.pc.append(goal)  # the rest of the path is then still checked against a consistent path condition

    def visible_vars(self):
        d = {}
        chain, f = [], getattr(self, "cur_frame", None)
        while f is not None:
            chain.append(f)
            f = f.parent
        for f in reversed(chain):
            d.update(f.vars)
        return d

    # ------------------------------------------------------------ scalar ops
    def truth(self, v):
        """Python truthiness -> bool or Sym(bool)."""
        if v is None:
            return False
        hook = getattr(self, "truth_hook", None)  # contract option truth_hook(eng, v) -> bool | Sym(bool) | NotImplemented: truthiness of values
        if hook is not None:                       # whose kind alone does not decide it (e.g. an ARBITRARY object returned by a callback)
            r = hook(self, v)
            if r is not NotImplemented:
                return r
        if hasattr(v, "__pyvc_truth__"):  # extension values with their own truthiness (abstract strings: non-empty)
            return v.__pyvc_truth__(self)
        if isinstance(v, z3.ExprRef):
            return self.sbool(v) if z3.is_bool(v) else self.sbool(v != 0)
        if isinstance(v, Sym):
            if v.kind == "bool":
                return v
            return Sym(to_z3(v) != 0, "bool")
        if isinstance(v, (SArr,)):
            raise ProgExc(ValueError, "truth value of an array is ambiguous")
        if isinstance(v, PList):
            if v.items is not None:
                return len(v.items) > 0
            return Sym(v.nz() > 0, "bool")
        if isinstance(v, PDict):
            if v.items is not None:
                return len(v.items) > 0
            raise Unsupported("truthiness of symbolic dict")
        if isinstance(v, NArr):
            if len(v.items) == 1:
                return self.truth(v.items[0])
            raise ProgExc(ValueError, "truth value of an array is ambiguous")
        if isinstance(v, (Obj, Func, Bound, Callback, Opaque, NativeMethod)):
            return True
        if isinstance(v, Fraction):
            return v != 0
        if hasattr(v, "__pyvc_truth__"):  # extension values (pyvc/ext_*.py) with their own truth value (e.g. symbolic strings)
            return v.__pyvc_truth__(self)
        return bool(v)

    def sbool(self, z):
        z = _simp(z)
        if z3.is_true(z):
            return True
        if z3.is_false(z):
            return False
        return Sym(z, "bool")

    def snum(self, z, kind):
        z = _simp(z)
        if kind == "int" and z3.is_int_value(z):
            return z.as_long()
        if kind == "real" and z3.is_rational_value(z):
            return Fraction(z.numerator_as_long(), z.denominator_as_long())
        return Sym(z, kind)

    def binop(self, op, a, b):
        for x in (a, b):  # extension values (pyvc/ext_*.py) bring their own operator model
            if hasattr(x, "__pyvc_binop__"):
                return x.__pyvc_binop__(self, op, a, b)
        if isinstance(a, NArr) or isinstance(b, NArr) or isinstance(a, SArr) or isinstance(b, SArr):
            return self.models.array_binop(self, op, a, b)
        if isinstance(a, PList) and isinstance(b, PList) and isinstance(op, ast.Add):
            if a.items is not None and b.items is not None:
                return PList(a.items + b.items)
            return self.models.concat_lists(self, a, b)
        if isinstance(a, PList) and isinstance(op, ast.Mult) and a.items is not None and isinstance(b, int):
            return PList(a.items * b)
        ka, kb = kind_of(a), kind_of(b)
        if ka is None or kb is None:
            if isinstance(a, (str, tuple, list)) and isinstance(b, (str, tuple, list, int)) and not isinstance(a, Sym):
                return _PYOPS[type(op)](a, b)
            raise Unsupported(f"binop {type(op).__name__} on {type(a).__name__}, {type(b).__name__}")
        conc = not isinstance(a, Sym) and not isinstance(b, Sym)
        if conc:
            return self._conc_binop(op, a, b, ka, kb)
        if ka == "bool":
            a, ka = (Sym(to_z3(a, "int"), "int") if isinstance(a, Sym) else int(a)), "int"
        if kb == "bool":
            b, kb = (Sym(to_z3(b, "int"), "int") if isinstance(b, Sym) else int(b)), "int"
        k = "real" if "real" in (ka, kb) else "int"
        if isinstance(op, ast.Div):
            k = "real"
        za, zb = to_z3(a, k), to_z3(b, k)
        if isinstance(op, ast.Add):
            return self.snum(za + zb, k)
        if isinstance(op, ast.Sub):
            return self.snum(za - zb, k)
        if isinstance(op, ast.Mult):
            return self.snum(za * zb, k)
        if isinstance(op, ast.Div):
            self.check_nonzero(zb)
            return self.snum(za / zb, "real")
        if isinstance(op, (ast.FloorDiv, ast.Mod)):
            if k != "int":
                return self.real_floordiv_mod(op, za, zb)
            if not isinstance(b, int) or b <= 0:
                if not self.spec_mode:
                    self.prove(self.site("div-positive"), zb > 0, "safety")
            return self.snum(za / zb if isinstance(op, ast.FloorDiv) else za % zb, "int")
        if isinstance(op, ast.Pow):
            return self.power(a, b)
        raise Unsupported(f"binop {type(op).__name__}")

    @staticmethod
    def real_divmod_key(za, zb):
        """ghost table key of the integer quotient of za by zb: one quotient per pair of (simplified) operand terms"""
        return ("real-divmod", z3.simplify(za).sexpr(), z3.simplify(zb).sexpr())

    def real_floordiv_mod(self, op, za, zb):
        """a // b and a % b on floats, over the reals (Python / numpy floor semantics): a = b*q + r with q an INTEGER and r between 0
        (inclusive) and b (exclusive), i.e. r has the sign of the divisor.  q is a fresh integer constant defined by these bounds
        (it exists and is unique for b != 0); b != 0 is a safety obligation."""
        self.check_nonzero(zb)
        key = self.real_divmod_key(za, zb)
        if key not in self.ghost:
            q = z3.Int(fresh_name("quot"))
            r = za - zb * z3.ToReal(q)
            self.assume(z3.And(z3.Implies(zb > 0, z3.And(r >= 0, r < zb)), z3.Implies(zb < 0, z3.And(r <= 0, r > zb))))
            self.assumptions.add("float // and % over the reals: a = b*q + r, q integer, 0 <= r < b (b > 0) or b < r <= 0 (b < 0); rounding of the quotient ignored")
            self.ghost[key] = (q, r)
        q, r = self.ghost[key]
        return self.snum(z3.ToReal(q) if isinstance(op, ast.FloorDiv) else r, "real")

    def _conc_binop(self, op, a, b, ka, kb):
        realish = "real" in (ka, kb)
        if realish or isinstance(op, ast.Div):
            fa, fb = frac(a), frac(b)
            if isinstance(op, ast.Div):
                if fb == 0:
                    raise ProgExc(ZeroDivisionError)
                r = fa / fb
                return r
            if isinstance(op, ast.Pow):
                return self.power(fa, fb if fb.denominator != 1 else int(fb))
            if isinstance(op, (ast.FloorDiv, ast.Mod)):
                return Fraction(_PYOPS[type(op)](fa, fb))
            return Fraction(_PYOPS[type(op)](fa, fb))
        if isinstance(op, (ast.FloorDiv, ast.Mod)) and int(b) == 0:
            raise ProgExc(ZeroDivisionError)
        if isinstance(op, ast.Pow) and int(b) < 0:
            return Fraction(int(a)) ** int(b)
        return _PYOPS[type(op)](int(a), int(b))

    def power(self, a, b):
        if isinstance(b, Fraction) and b.denominator == 1:
            b = int(b)
        if isinstance(b, int) and not isinstance(b, bool):
            if not isinstance(a, Sym):
                return frac(a) ** b if kind_of(a) == "real" else (int(a) ** b if b >= 0 else Fraction(int(a)) ** b)
            k = a.kind
            if b >= 0:
                z = z3.RealVal(1) if k == "real" else z3.IntVal(1)
                for _ in range(b):
                    z = z * a.z
                return self.snum(z, k)
            z = z3.RealVal(1)
            for _ in range(-b):
                z = z * to_z3(a, "real")
            self.check_nonzero(to_z3(a, "real"))
            return self.snum(1 / z, "real")
        if isinstance(b, Fraction) and b == Fraction(1, 2):
            return self.sqrt(a)
        raise Unsupported(f"power with exponent {b!r}")

    def sqrt(self, a, nonneg_known=False):
        """y = sqrt(a): fresh y with y >= 0 and y*y == a (a >= 0 is an obligation)."""
        if not isinstance(a, Sym):
            fa = frac(a)
            from math import isqrt

            if fa >= 0:
                n, d = fa.numerator, fa.denominator
                if isqrt(n) ** 2 == n and isqrt(d) ** 2 == d:
                    return Fraction(isqrt(n), isqrt(d))
        za = to_z3(a, "real")
        if not self.spec_mode and not nonneg_known:
            self.prove(self.site("sqrt-nonneg"), za >= 0, "safety")
        elif nonneg_known:
            self.assume(za >= 0)  # argument is syntactically a sum of squares
        # one ghost root per argument *polynomial* (sum-of-monomials normal form), so that the same quantity
        # computed by the code and written in a clause denotes the same root
        key = ("sqrt", z3.simplify(za, som=True).sexpr())
        if key in self.ghost:
            return self.ghost[key]
        y = fresh("real", "sqrt")
        self.assume(z3.And(y.z >= 0, y.z * y.z == za))
        self.ghost[key] = y
        return y

    def check_nonzero(self, zb):
        if self.spec_mode:
            return
        g = _simp(zb != 0)
        if z3.is_true(g):
            return
        if z3.is_false(g):
            raise ProgExc(ZeroDivisionError)
        self.prove(self.site("div-nonzero"), zb != 0, "safety")

    def unop(self, op, a):
        if hasattr(a, "__pyvc_unop__"):  # extension values bring their own unary operators
            return a.__pyvc_unop__(self, op)
        if isinstance(a, (NArr, SArr)):
            return self.models.array_unop(self, op, a)
        if isinstance(op, ast.Not):
            t = self.truth(a)
            if isinstance(t, Sym):
                return self.sbool(z3.Not(t.z))
            return not t
        if isinstance(op, ast.USub):
            if isinstance(a, Sym):
                k = "int" if a.kind == "bool" else a.kind
                return self.snum(-to_z3(a, k), k)
            return -a
        if isinstance(op, ast.UAdd):
            return a
        if isinstance(op, ast.Invert):
            if isinstance(a, Sym) and a.kind == "bool":
                return self.sbool(z3.Not(a.z))
            if isinstance(a, bool):
                return not a
        raise Unsupported(f"unop {type(op).__name__}")

    def compare(self, op, a, b):
        if isinstance(op, (ast.Is, ast.IsNot)):
            r = self.is_same(a, b)
            if isinstance(op, ast.IsNot):
                return self.unop(ast.Not(), r)
            return r
        if isinstance(op, (ast.In, ast.NotIn)):
            r = self.models.contains(self, b, a)
            if isinstance(op, ast.NotIn):
                return self.unop(ast.Not(), r)
            return r
        if isinstance(a, (NArr, SArr)) or isinstance(b, (NArr, SArr)):
            return self.models.array_compare(self, op, a, b)
        for x in (a, b):  # extension values (pyvc/ext_*.py) may bring their own comparison (e.g. symbolic strings vs str constants)
            if hasattr(x, "__pyvc_compare__"):
                r = x.__pyvc_compare__(self, op, a, b)
                if r is not NotImplemented:
                    return r
        ka, kb = kind_of(a), kind_of(b)
        if ka is None or kb is None:
            if isinstance(op, (ast.Eq, ast.NotEq)):
                r = self.generic_eq(a, b)
                return r if isinstance(op, ast.Eq) else self.unop(ast.Not(), r)
            if not isinstance(a, Sym) and not isinstance(b, Sym):
                return _PYCMP[type(op)](a, b)
            raise Unsupported(f"compare {type(a).__name__} {type(op).__name__} {type(b).__name__}")
        if not isinstance(a, Sym) and not isinstance(b, Sym):
            if "real" in (ka, kb):
                return _PYCMP[type(op)](frac(a), frac(b))
            return bool(_PYCMP[type(op)](a, b))
        if ka == "bool" and kb == "bool":
            za, zb = to_z3(a, "bool"), to_z3(b, "bool")
            if isinstance(op, ast.Eq):
                return self.sbool(za == zb)
            if isinstance(op, ast.NotEq):
                return self.sbool(za != zb)
        k = "real" if "real" in (ka, kb) else "int"
        za, zb = to_z3(a, k), to_z3(b, k)
        return self.sbool(_Z3CMP[type(op)](za, zb))

    def is_same(self, a, b):
        if a is None or b is None:
            o = b if a is None else a
            if isinstance(o, Sym) and o.kind == "oref":
                return self.sbool(o.z == 0)
            if isinstance(a, Sym) or isinstance(b, Sym):
                return False
            return a is b
        za = a.z if isinstance(a, Opaque) else (a.z if isinstance(a, Sym) and a.kind in ("ref", "oref", "int") else None)
        zb = b.z if isinstance(b, Opaque) else (b.z if isinstance(b, Sym) and b.kind in ("ref", "oref", "int") else None)
        if za is not None and zb is not None:
            return self.sbool(za == zb)
        if isinstance(a, bool) and isinstance(b, bool):
            return a == b
        if isinstance(a, Sym) and a.kind == "bool" and isinstance(b, bool):
            return self.sbool(a.z == z3.BoolVal(b))
        if isinstance(b, Sym) and b.kind == "bool" and isinstance(a, bool):
            return self.sbool(b.z == z3.BoolVal(a))
        return a is b

    def generic_eq(self, a, b):
        if isinstance(a, tuple) and isinstance(b, tuple):
            if len(a) != len(b):
                return False
            acc = True
            for x, y in zip(a, b):
                r = self.compare(ast.Eq(), x, y)
                acc = self.and_(acc, r)
            return acc
        if a is None or b is None:
            return a is b
        if isinstance(a, Sym) or isinstance(b, Sym):
            return False  # scalar vs non-scalar
        if isinstance(a, PList) and isinstance(b, PList):
            return self._list_eq(a, b)
        if isinstance(a, PList) or isinstance(b, PList):
            other = b if isinstance(a, PList) else a
            if isinstance(other, (list,)):
                return self._list_eq(a if isinstance(a, PList) else PList(list(a)), b if isinstance(b, PList) else PList(list(b)))
            return False  # a list equals only a list
        if isinstance(a, PDict) and isinstance(b, PDict) and (a.items is None or b.items is None) and a is not b:
            raise Unsupported("== on symbolic dicts")
        try:
            return a == b
        except Exception as e:  # pragma: no cover
            raise Unsupported(f"== on {type(a).__name__}, {type(b).__name__}: {e}")

    def _list_eq(self, a, b):
        """Python list equality: same length and pairwise equal elements (symbolic lists: as a formula)"""
        if a is b:
            return True
        if a.items is not None and b.items is not None:
            if len(a.items) != len(b.items):
                return False
            acc = True
            for x, y in zip(a.items, b.items):
                acc = self.and_(acc, self.compare(ast.Eq(), x, y))
            return acc
        if a.items is None and b.items is None:
            if list(a.kinds) != list(b.kinds):
                raise Unsupported("== on symbolic lists of different element types")
            i = z3.Int(fresh_name("i"))
            same = z3.And(*[z3.Select(ca, i) == z3.Select(cb, i) for ca, cb in zip(a.cols, b.cols)])
            return self.sbool(z3.And(zint(a.n) == zint(b.n), z3.ForAll([i], z3.Implies(z3.And(i >= 0, i < zint(a.n)), same))))
        sym, con = (a, b) if a.items is None else (b, a)
        acc = self.sbool(zint(sym.n) == len(con.items))
        for j, y in enumerate(con.items):
            acc = self.and_(acc, self.compare(ast.Eq(), sym.get(j), y))
        return acc

    def and_(self, a, b):
        if a is True:
            return b
        if b is True:
            return a
        if a is False or b is False:
            return False
        return self.sbool(z3.And(to_z3(a, "bool"), to_z3(b, "bool")))

    def or_(self, a, b):
        if a is False:
            return b
        if b is False:
            return a
        if a is True or b is True:
            return True
        return self.sbool(z3.Or(to_z3(a, "bool"), to_z3(b, "bool")))

    # site label for implicit (safety) obligations: function + ordinal on this path
    def site(self, what):
        self._site_n = getattr(self, "_site_n", 0)
        fn = (self.cur_key or "?").split(":")[-1]
        inl = ("@" + self.inline_stack[-1].split(":")[-1]) if self.inline_stack else ""
        return f"{fn}{inl}/safety/{what}"


_PYOPS = {
    ast.Add: operator.add, ast.Sub: operator.sub, ast.Mult: operator.mul, ast.Div: operator.truediv,
    ast.FloorDiv: operator.floordiv, ast.Mod: operator.mod, ast.Pow: operator.pow,
    ast.BitAnd: operator.and_, ast.BitOr: operator.or_, ast.BitXor: operator.xor,
    ast.LShift: operator.lshift, ast.RShift: operator.rshift,
}
_PYCMP = {
    ast.Eq: operator.eq, ast.NotEq: operator.ne, ast.Lt: operator.lt, ast.LtE: operator.le,
    ast.Gt: operator.gt, ast.GtE: operator.ge,
}
_Z3CMP = {
    ast.Eq: lambda a, b: a == b, ast.NotEq: lambda a, b: a != b, ast.Lt: lambda a, b: a < b,
    ast.LtE: lambda a, b: a <= b, ast.Gt: lambda a, b: a > b, ast.GtE: lambda a, b: a >= b,
}
