"""Storage layout of 1-D arrays: a CONTIGUITY flag, and the numpy functions whose result -- the argument ITSELF, a VIEW of it or a
FRESH COPY -- depends on it.  Stock models (reached through `npmodels.lookup_model` / `npmodels.method_of`), cross-checked against
numpy by `tools/xcheck_layout.py`.

The flag: a 1-D `SArr` / `NArr` may carry `a.contiguous`

    True      unit stride (what numpy allocates: np.array / zeros / copy / astype / arithmetic results ...)
    False     a stride other than the item size (`m[:, 0]` of a 2-D table, `a[::2]`).  numpy calls such an array contiguous all the
              same when it has at most ONE element (relaxed strides), so "is contiguous" is `len(a) <= 1` then
    unknown   (attribute absent / None) nothing is recorded: the first question about it introduces a fresh boolean "stride is the
              item size" that is stored on the array, BOTH outcomes are explored and later questions get the same answer

A step-1 slice `a[lo:hi]` has the stride of its base; an `NArr` view knows its index map (consecutive positions = the base's stride,
anything else = not the item size).  What the models below allocate is flagged True.

  np.ascontiguousarray(a[, dtype]) / np.asfortranarray(a[, dtype]) / np.asarray(a[, dtype], order='C'|'F')
  np.require(a[, dtype], requirements C / F / E / none)
        a ITSELF when it is contiguous and already of the dtype asked for, a fresh (contiguous) copy otherwise.  For a 1-D array C and
        F order are the same thing.  order None / 'A' / 'K' asks nothing about the layout (the stock np.asarray answers).
  a.copy([order]) / np.copy(a[, order]) / a.flatten([order])   a fresh contiguous copy whatever the order
  a.ravel([order]) / np.ravel(a[, order])   a VIEW of a contiguous array (a new array object on the same storage), a fresh copy of a
        strided one -- whatever the order (numpy copies a strided 1-D array under order='K' too; cross-checked)
  a.reshape(-1) / a.reshape(len(a)) / np.reshape(a, -1)   always a view (same stride)
  a.view()      a view; with a dtype argument only the array's own dtype is accepted (reinterpretation is not modelled)
  a.flags.c_contiguous / f_contiguous / contiguous (and the item spellings `a.flags['C_CONTIGUOUS']`), as a (possibly symbolic) bool

Arrays of more than one dimension are refused (`Unsupported`): their C and F layouts differ and no value class records them.
"""
from __future__ import annotations

import numpy as np
import z3

from .engine import ProgExc, Unsupported
from .values import NArr, NativeMethod, PList, SArr, Sym, fresh, kind_of, to_z3, zint


def used(eng, name):
    eng.assumptions.add("numpy-model:" + name)


def _is_plain(a):
    """a 1-D array value of the stock classes (extension containers that subclass SArr and answer stores themselves are left alone)"""
    if isinstance(a, NArr):
        return a.ndim == 1
    return isinstance(a, SArr) and not hasattr(a, "__pyvc_setitem__") and not hasattr(a, "__pyvc_getattr__")


def _length(a):
    return len(a.items) if isinstance(a, NArr) else a.n


def unit_stride(eng, a):
    """is the stride of the 1-D array the item size?  True / False / a boolean Sym (recorded on the array)"""
    c = getattr(a, "contiguous", None)
    if c is not None:
        return c
    v = getattr(a, "view_of", None)
    if v is not None:
        base = v[0]
        if isinstance(a, NArr):
            flat = list(v[1])
            if getattr(base, "ndim", 1) == 1 and all(q - p == 1 for p, q in zip(flat, flat[1:])):
                return unit_stride(eng, base)  # consecutive cells of a 1-D base: its stride
            if len(flat) >= 2:
                if getattr(base, "ndim", 1) != 1 and getattr(base, "view_of", None) is None and all(q - p == 1 for p, q in zip(flat, flat[1:])):
                    return True  # consecutive cells of a row-major table that owns its storage (a row `m[i]`)
                return False
            return True
        return unit_stride(eng, base)  # SArr views are step-1 slices
    c = fresh("bool", "stride_is_item_size")
    a.contiguous = c
    return c


def is_contiguous(eng, a):
    """`a.flags.c_contiguous` (= f_contiguous for one dimension) as True / False / z3 Bool"""
    if not _is_plain(a):
        raise Unsupported("storage layout of an array that is not a plain 1-D array")
    u = unit_stride(eng, a)
    if u is True:
        return True
    n = _length(a)
    small = (n <= 1) if isinstance(n, int) else z3.simplify(zint(n) <= 1)
    if small is True:
        return True
    if u is False:
        return small if small is not False else False
    if small is False:
        return u.z
    return z3.Or(u.z, small)


def _copy(eng, a, dtype=None):
    used(eng, "a copy of a 1-D array is a fresh contiguous allocation with the same entries")
    if isinstance(a, NArr):
        out = NArr(a.shape, list(a.items), a.kind, dtype if dtype is not None else a.dtype)
    else:
        out = SArr(a.arr, a.n, a.kind, name=a.name + "_cp", dtype=dtype if dtype is not None else a.dtype)
    out.contiguous = True
    return out


def _view(eng, a):
    """a new array object on the same storage (reads and writes go to `a`'s allocation)"""
    from . import npmodels

    v = npmodels.getitem(eng, a, slice(None, None, None))
    return v


def dtype_already(eng, a, dt):
    """does `a` already have the dtype asked for?  None asks for nothing.  With an unrecorded width (only int / real / bool known)
    both outcomes are explored, as the stock np.asarray(a, dtype) does"""
    from .npmodels import kind_of_dtype

    if dt is None:
        return True
    have = getattr(a, "dtype", None)
    if have is not None:
        return np.dtype(have) == np.dtype(dt)
    if kind_of_dtype(dt) != a.kind:
        return False
    used(eng, "an array whose item width is not recorded may or may not already have the dtype asked for (both cases explored)")
    return bool(eng.branch(fresh("bool", "dtype_already_matches")))


def _converted(eng, a, dt):
    from .npmodels import _a_astype

    out = _a_astype(eng, a, [dt], {})
    try:
        out.contiguous = True
    except AttributeError:
        pass
    return out


def itself_or_copy(eng, a, dt, what):
    """the common rule of ascontiguousarray / asfortranarray / asarray(order=C|F) / require(C|F) on a 1-D array"""
    used(eng, what + ": the 1-D array ITSELF when it is contiguous and of the dtype asked for, else a fresh contiguous copy")
    if not dtype_already(eng, a, dt):
        return _converted(eng, a, dt)
    if _decide(eng, is_contiguous(eng, a), a):
        return a
    return _copy(eng, a, dt)


def _mentions(term, consts):
    seen, stack = set(), [term]
    while stack:
        x = stack.pop()
        if x.get_id() in seen:
            continue
        seen.add(x.get_id())
        if any(x.eq(b) for b in consts):
            return True
        if z3.is_quantifier(x):
            stack.append(x.body())
        elif z3.is_app(x):
            stack.extend(x.children())
    return False


def _decide(eng, c, a=None):
    """fork on the layout question.  Inside the element of a comprehension over a symbolic sequence (evaluated once for an arbitrary
    position, where a fork is refused) the question is still decidable by a fork when neither the question nor the array mentions the
    position variable (`eng.pure_bound`, set by the element evaluator): the answer is the same at every position"""
    if isinstance(c, bool):
        return c
    pure = getattr(eng, "pure_mode", 0)
    bound = getattr(eng, "pure_bound", None)
    if pure and bound and a is not None and isinstance(a, SArr) and not _mentions(c, bound) and not _mentions(a.arr, bound) and not _mentions(zint(a.n), bound):
        eng.pure_mode = 0
        try:
            return bool(eng.branch(eng.sbool(c)))
        finally:
            eng.pure_mode = pure
    return bool(eng.branch(eng.sbool(c)))


def _order(kwargs, args, pos, allowed="CFAK"):
    o = kwargs.get("order", args[pos] if len(args) > pos else None)
    if o is None:
        return None
    if not isinstance(o, str) or o.upper() not in allowed:
        raise Unsupported(f"order={o!r}")
    return o.upper()


def _arraylike(eng, v, dt):
    """not an ndarray (list, tuple, scalar ...): numpy builds a new array, which is contiguous"""
    from .npmodels import _np_array

    out = _np_array(eng, [v], {"dtype": dt} if dt is not None else {})
    try:
        out.contiguous = True
    except AttributeError:
        pass
    return out


def _as_layout(name):
    def model(eng, args, kwargs):
        if not args or set(kwargs) - {"dtype", "like"} or kwargs.get("like") is not None or len(args) > 2:
            raise Unsupported(f"np.{name} form")
        a = args[0]
        dt = kwargs.get("dtype", args[1] if len(args) > 1 else None)
        if not isinstance(a, (SArr, NArr)):
            return _arraylike(eng, a, dt)
        if not _is_plain(a):
            raise Unsupported(f"np.{name} of an array that is not a plain 1-D array")
        return itself_or_copy(eng, a, dt, f"np.{name}")

    return model


def np_asarray(eng, args, kwargs):
    """np.asarray / np.asanyarray with order='C' / 'F'; every other form is the stock model's"""
    from . import narr

    order = kwargs.get("order", args[2] if len(args) > 2 else None)
    if order is None or (isinstance(order, str) and order.upper() in "AK"):
        kw = {k: v for k, v in kwargs.items() if k != "order"}
        out = narr.np_asarray(eng, list(args[:2]), kw)
        if args and out is not args[0] and isinstance(out, (SArr, NArr)) and getattr(out, "contiguous", None) is None and getattr(out, "view_of", None) is None:
            out.contiguous = True  # what numpy allocated for the conversion
        return out
    if not isinstance(order, str) or order.upper() not in "CF" or set(kwargs) - {"dtype", "order"}:
        raise Unsupported("np.asarray form")
    a = args[0]
    dt = kwargs.get("dtype", args[1] if len(args) > 1 else None)
    if not isinstance(a, (SArr, NArr)):
        return _arraylike(eng, a, dt)
    if not _is_plain(a):
        raise Unsupported("np.asarray(order=) of an array that is not a plain 1-D array")
    return itself_or_copy(eng, a, dt, "np.asarray(order=C|F)")


def np_require(eng, args, kwargs):
    if not args or set(kwargs) - {"dtype", "requirements"} or len(args) > 3:
        raise Unsupported("np.require form")
    a = args[0]
    dt = kwargs.get("dtype", args[1] if len(args) > 1 else None)
    req = kwargs.get("requirements", args[2] if len(args) > 2 else None)
    if req is None:
        req = []
    elif isinstance(req, str):
        req = [req]
    elif isinstance(req, PList) and req.items is not None:
        req = list(req.items)
    elif not isinstance(req, (list, tuple, set, frozenset)):
        raise Unsupported("np.require requirements")
    names = {"C": "C", "C_CONTIGUOUS": "C", "CONTIGUOUS": "C", "F": "F", "F_CONTIGUOUS": "F", "FORTRAN": "F", "E": "E", "ENSUREARRAY": "E"}
    want = set()
    for r in req:
        if not isinstance(r, str) or r.upper() not in names:
            raise Unsupported(f"np.require requirement {r!r} (only C / F / E are modelled)")
        want.add(names[r.upper()])
    if not isinstance(a, (SArr, NArr)):
        return _arraylike(eng, a, dt)
    if not _is_plain(a):
        raise Unsupported("np.require of an array that is not a plain 1-D array")
    if {"C", "F"} <= want:
        raise ProgExc(ValueError, "Cannot specify both \"C\" and \"F\" order")
    if want & {"C", "F"}:
        return itself_or_copy(eng, a, dt, "np.require(requirements C|F)")
    used(eng, "np.require without a layout requirement: the array itself when it has the dtype asked for")
    return a if dtype_already(eng, a, dt) else _converted(eng, a, dt)


def _m_copy(eng, recv, args, kwargs):
    if set(kwargs) - {"order"} or len(args) > 1:
        raise Unsupported("ndarray.copy form")
    if _order(kwargs, args, 0) is None:
        out = _stock_method(eng, recv, "copy")(eng, recv, [], {})  # the stock model (a fresh copy); what is added is the flag
        out.contiguous = True
        return out
    return _copy(eng, recv)


def np_copy(eng, args, kwargs):
    if not args or set(kwargs) - {"order", "subok"} or len(args) > 2:
        raise Unsupported("np.copy form")
    a = args[0]
    _order(kwargs, args, 1)
    if not isinstance(a, (SArr, NArr)):
        return _arraylike(eng, a, None)
    if not _is_plain(a):
        raise Unsupported("np.copy of an array that is not a plain 1-D array")
    return _copy(eng, a)


def _m_flatten(eng, recv, args, kwargs):
    if set(kwargs) - {"order"} or len(args) > 1:
        raise Unsupported("ndarray.flatten form")
    _order(kwargs, args, 0)
    used(eng, "ndarray.flatten: always a copy")
    return _copy(eng, recv)


def _m_ravel(eng, recv, args, kwargs):
    if set(kwargs) - {"order"} or len(args) > 1:
        raise Unsupported("ravel form")
    o = _order(kwargs, args, 0) or "C"
    used(eng, "ravel of a 1-D array (any order): a view when it is contiguous, else a fresh copy")
    if _decide(eng, is_contiguous(eng, recv), recv):
        return _view(eng, recv)
    return _copy(eng, recv)


def np_ravel(eng, args, kwargs):
    if not args or not isinstance(args[0], (SArr, NArr)) or not _is_plain(args[0]):
        raise Unsupported("np.ravel of a value that is not a plain 1-D array")
    return _m_ravel(eng, args[0], list(args[1:]), kwargs)


def _flat_shape(eng, recv, shp):
    """is the shape `-1` / `(-1,)` / `len(a)`?  (keeps a 1-D array as it is)"""
    if isinstance(shp, PList) and shp.items is not None:
        shp = tuple(shp.items)
    if isinstance(shp, (tuple, list)):
        if len(shp) != 1:
            return False
        shp = shp[0]
    if isinstance(shp, bool) or kind_of(shp) != "int":
        return False
    if isinstance(shp, int) and shp == -1:
        return True
    n = _length(recv)
    if isinstance(shp, int) and isinstance(n, int):
        if shp != n:
            raise ProgExc(ValueError, "cannot reshape array")
        return True
    if not eng.branch(eng.sbool(to_z3(shp, "int") == zint(n))):
        if eng.branch(eng.sbool(to_z3(shp, "int") == -1)):
            return True
        raise ProgExc(ValueError, "cannot reshape array")
    return True


def reshape_1d(eng, recv, args, kwargs):
    """`a.reshape(-1)` & co. on a 1-D array -> a view; None when the call has another form (the stock model answers)"""
    if set(kwargs) - {"order"} or len(args) != 1:
        return None
    if not _flat_shape(eng, recv, args[0]):
        return None
    used(eng, "reshape of a 1-D array to one dimension: a view (same stride)")
    return _view(eng, recv)


def np_reshape(eng, args, kwargs):
    if len(args) >= 1 and isinstance(args[0], (SArr, NArr)) and _is_plain(args[0]):
        rest = list(args[1:])
        kw = dict(kwargs)
        for nm in ("shape", "newshape"):
            if nm in kw and not rest:
                rest = [kw.pop(nm)]
        if len(rest) == 1:
            out = reshape_1d(eng, args[0], rest, kw)
            if out is not None:
                return out
        return _stock_method(eng, args[0], "reshape")(eng, args[0], rest, kw)
    raise Unsupported("np.reshape form")


def _m_view(eng, recv, args, kwargs):
    dt = kwargs.get("dtype", args[0] if args else None)
    if set(kwargs) - {"dtype"} or len(args) > 1:
        raise Unsupported("ndarray.view form")
    if dt is not None:
        have = getattr(recv, "dtype", None)
        if isinstance(dt, type) and issubclass(dt, np.ndarray):
            if dt is not np.ndarray:
                raise Unsupported("ndarray.view(subclass)")
        elif have is None or np.dtype(have) != np.dtype(dt):
            raise Unsupported("ndarray.view(dtype): reinterpreting the bytes of an array is not modelled")
    used(eng, "ndarray.view(): a new array object on the same storage")
    return _view(eng, recv)


class Flags:
    """`a.flags` of a plain 1-D array: the contiguity entries (attribute and item spelling)"""

    _CONT = {"c_contiguous", "f_contiguous", "contiguous", "fortran", "fnc", "forc"}

    def __init__(self, arr):
        self.arr = arr

    def _get(self, eng, name):
        nm = name.lower()
        if nm == "c":
            nm = "c_contiguous"
        if nm == "f":
            nm = "f_contiguous"
        if nm == "fnc":  # F_CONTIGUOUS and not C_CONTIGUOUS: never for one dimension
            return False
        if nm in self._CONT:
            used(eng, "a.flags.*contiguous of a 1-D array: unit stride or at most one element")
            c = is_contiguous(eng, self.arr)
            return c if isinstance(c, bool) else eng.sbool(c)
        raise Unsupported(f"ndarray.flags.{name}")

    def __pyvc_getattr__(self, eng, name):
        return self._get(eng, name)

    def __pyvc_getitem__(self, eng, key):
        if not isinstance(key, str):
            raise Unsupported("ndarray.flags subscript")
        return self._get(eng, key)


def _stock_method(eng, v, name):
    """the model the stock tables have for method `name` (layout excluded)"""
    from . import narr, npmodels

    if isinstance(v, NArr) and name in narr.METHODS:
        return narr.METHODS[name]
    if name in npmodels.ARR_METHODS:
        return npmodels.ARR_METHODS[name]
    raise Unsupported(f"ndarray.{name}")


def _with_fallback(name, mine):
    def model(eng, recv, args, kwargs):
        if name == "reshape":
            out = reshape_1d(eng, recv, args, kwargs)
            if out is not None:
                return out
            return _stock_method(eng, recv, name)(eng, recv, args, kwargs)
        return mine(eng, recv, args, kwargs)

    return model


METHODS = {"copy": _m_copy, "flatten": _m_flatten, "ravel": _m_ravel, "view": _m_view, "reshape": None}


def method_of(eng, v, name):
    """layout-aware methods of a plain 1-D array; None = not ours"""
    if name not in METHODS and name != "flags":
        return None
    if not _is_plain(v):
        return None
    if name == "flags":
        return Flags(v)
    return NativeMethod(_with_fallback(name, METHODS[name]), v, name)


NP_MODELS = {
    np.asarray: np_asarray, np.asanyarray: np_asarray,
    np.ascontiguousarray: _as_layout("ascontiguousarray"), np.asfortranarray: _as_layout("asfortranarray"),
    np.require: np_require, np.ravel: np_ravel, np.copy: np_copy, np.reshape: np_reshape,
}


def lookup_model(fn):
    try:
        return NP_MODELS.get(fn)
    except TypeError:
        return None
