"""The higher-order client rule for `swc_utils.traverse` (DESIGN.md section 3, C04).

A carrier that calls  traverse(topology, enter=f, leave=g, root=r)  is verified WITHOUT looking into the traversal: its contract
supplies (options["traverse_rule"]) a traversal invariant J over the sets ENT / LEFT of nodes entered / left so far and value
predicates Qe / Ql for what the callbacks return.  Obligations generated at the call site:
    pre      the table is well formed (ids are positions, node 0 is the root, parents exist, depth witness), root in range;
    init     J(empty, empty);
    enter    for an arbitrary reachable state J(ENT, LEFT) and an arbitrary node x of the subtree not yet entered whose parent is
             entered and not left (or x = r), with pre = None for r and Qe(parent, pre) otherwise:
             after running the real callback f(x, pre):  J(ENT + x, LEFT) and Qe(x, returned value);
    leave    for an arbitrary state and an entered, not yet left x all of whose children are left, with args[k] satisfying
             Ql(k-th child, args[k]):  after g(x, args):  J(ENT, LEFT + x) and Ql(x, returned value).
Conclusion assumed afterwards:  J(Sub(r), Sub(r)) and Ql(r, result)   (result is None without a leave callback).
Without an enter (leave) callback the traversal still enters (leaves) every node: if J reads ENT (LEFT) the rule emits the silent step
    enter/invariant-preserved-where-no-enter-callback-is-given   J(ENT, LEFT) => J(ENT + x, LEFT) in an unchanged state (likewise leave).
Status: the SCHEMA (init / enter / leave / silent steps => conclusion, for every run made of enabled events) is proved in Lean 4,
lean/TraverseRule.lean (`inv_of_reach`, `traverse_rule_sound`, `traverse_rule_sound_no_enter`, `traverse_rule_sound_no_leave`).  That every
callback call of the real `_traverse_dfs` is an enabled event, and that a run ends with exactly the subtree entered and left, are
obligations of contracts/C04.py (`C04/_traverse_dfs/enter/...`, `.../leave/...`, `.../post/...`).  What remains by inspection: that the
first-order obligations emitted below are the instances of the Lean premises (same text, clause by clause - see the header of the
Lean file).  The frame of the client's callbacks is an obligation of each step (`<step>/callback-changes-only-the-state-the-rule-declares`:
every container reachable from the carrier's frame that `modifies` does not cover, and every other local, is unchanged by the real callback
and its ghost code; extension values that are not stock containers are not followed).  Evidence lists the rule as "lemma schema proved in
Lean 4, instantiated by inspection".
"""
from __future__ import annotations

import z3

from .engine import PathEnd, Unsupported
from .loops import havoc_value
from .values import PList, SArr, Sym, fresh, fresh_name, next_uid, to_z3, zint

I, B = z3.IntSort(), z3.BoolSort()


def _TRUE(E, v, x, val, ctx):
    return True


class Rule:
    """J(E, vars, ENT, LEFT, ctx) -> z3 Bool;  Qe/Ql(E, vars, x, val, ctx) -> z3 Bool / bool;  `modifies`: expressions (in the
    caller's frame; or callables E -> object) of the state the callbacks may change;  enter_kind / leave_kind: kind of the callback results
    ('bool' | 'int' | 'real' | 'oref' | callable(E) -> fresh symbolic value);  leave_args_kind likewise for the list elements."""

    def __init__(self, J, Qe=None, Ql=None, modifies=(), enter_kind="oref", leave_kind="oref", depth=None, label="traverse",
                 ghost_enter=None, ghost_leave=None, leave_args=None, leave_args_at=None, leave_result=None,
                 leave_arities=None, kids=None, fork_steps=False, leave_list=None):
        # ghost_enter / ghost_leave(E, vars, x, ctx): ghost code run right after the real callback (may update ghost objects listed in `modifies` only;
        # the call just made is in E.ghost["traverse-last-call"] = dict(x=, args=, ret=, ENT=, LEFT=), also for proof-step hints)
        # leave_args_at(E, vars, x, ctx) -> the list handed to `leave` at node x when the child values are not scalars: the contract builds
        # the list value (of length ctx.nkids(x)) and ASSUMES Ql of every entry itself;  leave_result(E) -> fresh value of the whole traversal
        self.leave_args_at, self.leave_result = leave_args_at, leave_result
        # leave_list(E, vars, x, ctx) -> the list `leave` receives at node x, of SYMBOLIC length nkids(x), for non-scalar values that Ql
        # determines (one-point rule; e.g. pyvc.ext_C07.NodeList of the handles of x's children in table order).  Ql is still assumed
        # for every element (`list.get(k)`).
        self.leave_list = leave_list
        # fork_steps: run each step (enter / leave) on its OWN path that ends after the step's obligations, instead of continuing
        # every path of the step through the rest of the carrier (same obligations, fewer repeated instances; for callbacks with many paths)
        self.fork_steps = fork_steps
        # leave_arities: for NON-SCALAR leave values (leave_kind callable(E) -> fresh value of the right shape) the leave step is
        # run once per listed number of children (a concrete list of that many fresh values); that no other number of children
        # occurs is an OBLIGATION (`leave/number-of-children-is-supported`) to be proved from the carrier's precondition.
        # kids: (nkids, kid, rank) z3 functions to be used as the children enumeration of this call instead of fresh ones, so that
        # the carrier's clauses can speak about "the k-th child in table order" (same definitional axioms are assumed for them).
        self.leave_arities = list(leave_arities) if leave_arities is not None else None
        self.kids = kids
        self.ghost_enter, self.ghost_leave = ghost_enter, ghost_leave
        # NON-SCALAR callback values (kind = callable(E) -> fresh symbolic value):
        #  * an enter value is shared by all children of the node, so the constructor must hand out a FROZEN object (a write through it
        #    is then a failed frame obligation);
        #  * leave values are owned by the traversal (each is handed to exactly one `leave` call, which may consume / mutate it): the list
        #    of child results is built by leave_args(E, K) -> (list value of symbolic length K, get(k: z3 Int) -> value of the k-th child),
        #    and the value a `leave` call returns must own its mutable parts (obligation leave/returned-value-owns-its-mutable-parts:
        #    every non-frozen container in it was allocated during the call or came in with the child results);
        #  * Ql / Qe of non-scalar values must speak about the value and immutable ghost vocabulary only (they are assumed in later states).
        self.leave_args = leave_args
        self.J, self.Qe, self.Ql = J, Qe or _TRUE, Ql or _TRUE
        self.modifies = list(modifies)
        self.enter_kind, self.leave_kind = enter_kind, leave_kind
        self.depth = depth
        self.label = label


class Ctx:
    """per-call ghost vocabulary handed to J / Qe / Ql"""

    def __init__(self, P, n, root, Sub, nkids, kid, rank):
        self.P, self.n, self.root, self.Sub, self.nkids, self.kid, self.rank = P, n, root, Sub, nkids, kid, rank

    def R(self, t):
        return z3.And(t >= 0, t < self.n)


def _mk_value(eng, kind, name, node=None):
    if callable(kind):
        import inspect

        # kind(E) -> an arbitrary value of the right shape (pinned afterwards by assuming Ql);  kind(E, node) may build the value
        # from the node term directly where Ql DETERMINES the value of a node (one-point rule: "fresh v with v == t" is t)
        if node is not None and len(inspect.signature(kind).parameters) >= 2:
            return kind(eng, node)
        return kind(eng)
    return fresh(kind, name)


def _zb(x):
    if isinstance(x, (list, tuple)):  # a list of (label, formula) conjuncts
        return z3.And(*[_zb(f) for _, f in x]) if x else z3.BoolVal(True)
    return z3.BoolVal(x) if isinstance(x, bool) else x


def _prove_parts(eng, name, x, kind="invariant"):
    """a value predicate may return one formula or a list of (label, formula) conjuncts (each its own obligation)"""
    if isinstance(x, (list, tuple)):
        for l, f in x:
            eng.prove(f"{name}/{l}", _zb(f), kind)
    else:
        eng.prove(name, _zb(x), kind)


def _owned(v, mark, seen=None):
    """every mutable (non-frozen) container reachable from `v` was allocated after uid `mark`"""
    from .values import NArr, Obj, PDict

    seen = seen if seen is not None else set()
    if id(v) in seen:
        return True
    seen.add(id(v))
    if isinstance(v, (tuple, list)):
        return all(_owned(x, mark, seen) for x in v)
    if isinstance(v, (PList, PDict, SArr, NArr)):
        if not getattr(v, "frozen", False) and v.uid <= mark:
            return False
        items = getattr(v, "items", None)
        if isinstance(v, PList) and items is not None:
            return all(_owned(x, mark, seen) for x in items)
        if isinstance(v, PDict) and items is not None:
            return all(_owned(x, mark, seen) for x in items.values())
        return True
    if isinstance(v, Obj):
        return getattr(v, "frozen", False) or all(_owned(x, mark, seen) for x in v.fields.values())
    return True


# ---- the frame of the client's callbacks: a step may change only the state the rule declares (`modifies`), which is what the rule havocs
def _containers(v, acc, seen):
    """mutable containers reachable from a value (through list / dict items, object fields, tuples); extension values that are not
    one of the stock container classes are not followed (their contents are then outside this check)"""
    from .values import NArr, Obj, PDict

    if id(v) in seen:
        return acc
    seen.add(id(v))
    if isinstance(v, (tuple, list)):
        for x in v:
            _containers(x, acc, seen)
    elif isinstance(v, NArr):
        acc.append(v.root())
    elif isinstance(v, SArr):
        acc.append(v)
    elif isinstance(v, PList):
        acc.append(v)
        for x in (v.items or ()):
            _containers(x, acc, seen)
    elif isinstance(v, PDict):
        acc.append(v)
        for x in (v.items.values() if v.items is not None else ()):
            _containers(x, acc, seen)
    elif isinstance(v, Obj):
        acc.append(v)
        for x in v.fields.values():
            _containers(x, acc, seen)
    return acc


def _content(v):
    """what a container holds right now, as a flat tuple of z3 terms / scalars / object identities"""
    from .values import NArr, Obj, PDict

    if isinstance(v, NArr):
        return ("narr", tuple(v.items))
    if isinstance(v, SArr):
        return ("sarr", v.arr, v.n)
    if isinstance(v, PList):
        return ("list", tuple(v.items)) if v.items is not None else ("slist", tuple(v.cols), v.n)
    if isinstance(v, PDict):
        return ("dict", tuple(v.items.items())) if v.items is not None else ("sdict", v.dom, v.val, v.lens)
    if isinstance(v, Obj):
        return ("obj", tuple(sorted(v.fields.items(), key=lambda kv: kv[0])))
    return ("?",)


def _same_content(a, b):
    if isinstance(a, tuple) and isinstance(b, tuple):
        return len(a) == len(b) and all(_same_content(x, y) for x, y in zip(a, b))
    if isinstance(a, z3.ExprRef) or isinstance(b, z3.ExprRef):
        return isinstance(a, z3.ExprRef) and isinstance(b, z3.ExprRef) and a.eq(b)
    if isinstance(a, Sym) or isinstance(b, Sym):
        return isinstance(a, Sym) and isinstance(b, Sym) and a.kind == b.kind and a.z.eq(b.z)
    if a is b:
        return True
    if type(a) in (int, bool, float, str, type(None)) or type(a).__module__ in ("fractions", "numpy"):
        try:
            return type(a) is type(b) and bool(a == b)
        except Exception:
            return False
    return False  # two different objects: a container slot was rebound
def _table_column(a):
    """a 1-D integer array of CONCRETE length (e.g. `np.arange(0, 5)` on a table of exactly five rows) read as a symbolic array of that
    length (the rule only reads the topology)"""
    from .values import NArr

    if isinstance(a, NArr) and a.ndim == 1 and a.kind in ("int", "bool"):
        arr = z3.K(I, z3.IntVal(0))
        for j, x in enumerate(a.items):
            arr = z3.Store(arr, j, to_z3(x, "int"))
        return SArr(arr, len(a.items), "int", name="column")
    return a


def apply(eng, rule: Rule, fr, topology, enter, leave, root):
    from .spec import Frame  # noqa: F401

    lab = f"{(eng.cur_key or '?').split(':')[-1]}/{rule.label}"
    ids, pids = (_table_column(a) for a in topology)
    if not (isinstance(ids, SArr) and isinstance(pids, SArr)):
        raise Unsupported("traverse rule: topology must be two symbolic arrays")
    P, n = pids.arr, ids.nz()
    rz = to_z3(root, "int")
    i, x, c, k, k2 = (z3.Int(fresh_name(t)) for t in ("i", "x", "c", "k", "m"))
    R = lambda t: z3.And(t >= 0, t < n)
    sel = z3.Select
    depth = rule.depth
    if depth is None:
        from contracts.C04 import depth as depth  # shared ghost depth function
    # ---- pre: well-formed table (these are the assumptions under which contracts/C04 proves _traverse_dfs)
    eng.prove(f"{lab}/pre/ids-are-positions", z3.And(pids.nz() == n, n >= 1, z3.ForAll([i], z3.Implies(R(i), sel(ids.arr, i) == i))), "precondition")
    eng.prove(f"{lab}/pre/node-0-is-the-root-and-parents-exist", z3.And(sel(P, 0) == -1, z3.ForAll([i], z3.Implies(z3.And(i > 0, i < n), R(sel(P, i))))), "precondition")
    eng.prove(f"{lab}/pre/every-node-reaches-the-root", z3.And(depth(0) == 0, z3.ForAll([i], z3.Implies(z3.And(i > 0, i < n), z3.And(depth(i) == depth(sel(P, i)) + 1, depth(i) > 0)))), "precondition")
    eng.prove(f"{lab}/pre/start-node-in-range", R(rz), "precondition")
    # ---- ghost vocabulary of this call (definitional on a well-formed table)
    tag = fresh_name("tr")
    Sub = z3.Function("Sub_" + tag, I, B)
    if rule.kids is not None:
        nkids, kid, rank = rule.kids
    else:
        nkids = z3.Function("nkids_" + tag, I, I)
        kid = z3.Function("kid_" + tag, I, I, I)
        rank = z3.Function("rank_" + tag, I, I)
    eng.assume(Sub(rz))
    eng.assume(z3.ForAll([x], z3.Implies(Sub(x), R(x))))
    eng.assume(z3.ForAll([x], z3.Implies(z3.And(R(x), sel(P, x) >= 0, Sub(sel(P, x))), Sub(x))))
    eng.assume(z3.ForAll([x], z3.Implies(z3.And(Sub(x), x != rz), z3.And(sel(P, x) >= 0, Sub(sel(P, x))))))
    eng.assume(z3.Implies(sel(P, rz) >= 0, z3.Not(Sub(sel(P, rz)))))
    if z3.is_true(z3.simplify(rz == 0)):
        eng.assume(z3.ForAll([x], z3.Implies(R(x), Sub(x))))
        eng.assumptions.add("assumed-lemma:tree_induction: every node of a well-formed table lies in the subtree of node 0")
    # children of x in table order: kid(x, 0..nkids(x)-1), rank(c) = position of c among its siblings
    eng.assume(z3.ForAll([x], nkids(x) >= 0))
    eng.assume(z3.ForAll([x, k], z3.Implies(z3.And(0 <= k, k < nkids(x)), z3.And(R(kid(x, k)), sel(P, kid(x, k)) == x, rank(kid(x, k)) == k))))
    eng.assume(z3.ForAll([x, k, k2], z3.Implies(z3.And(0 <= k, k < k2, k2 < nkids(x)), kid(x, k) < kid(x, k2))))
    eng.assume(z3.ForAll([c], z3.Implies(z3.And(R(c), sel(P, c) >= 0), z3.And(0 <= rank(c), rank(c) < nkids(sel(P, c)), kid(sel(P, c), rank(c)) == c))))
    eng.assumptions.add("ghost definitions per traverse call: Sub (subtree of the start node), nkids / kid / rank (children in table order)")
    eng.assumptions.add("assumed-lemma:traverse client rule: schema proved in Lean (lean/TraverseRule.lean: traverse_rule_sound, _no_enter, _no_leave) over the event model "
                        "whose steps are the callback obligations C04/_traverse_dfs/enter|leave/... and whose end state is C04's postconditions; the obligations emitted here "
                        "instantiate its premises by inspection; the callbacks' frame (Rule.modifies) is checked per step for stock containers and locals")
    ctx = Ctx(P, n, rz, Sub, nkids, kid, rank)
    eng.ghost["last-traverse-Sub"] = Sub  # so that the caller's postconditions can speak about the subtree of this call
    eng.ghost["last-traverse-ctx"] = ctx  # ... and about the children enumeration (nkids / kid / rank) of this call

    def vars_now():
        eng.cur_frame = fr
        return eng.visible_vars()

    def targets():
        import ast as _ast

        out = []
        for m in rule.modifies:
            if isinstance(m, tuple) and m[0] == "local":
                continue
            if callable(m):  # fn(eng) -> object (or (object, element kinds)) that is not addressed by a fixed name of the traversing frame
                eng.cur_frame = fr
                t = m(eng)
                if isinstance(t, tuple):
                    t, hint = t
                    if getattr(t, "items", None) is not None:
                        t.hint = hint
                out.append(t)
                continue
            hint = None
            if isinstance(m, tuple):  # ("expr", element kinds): a still-concrete list / dict is promoted to a symbolic one of that element type
                m, hint = m
            t = eng.ev(_ast.parse(m, mode="eval").body, fr)
            if hint is not None and getattr(t, "items", None) is not None:
                t.hint = hint
            out.append(t)
        return out

    def havoc():
        seen = set()
        for t in targets():
            havoc_value(eng, t, seen)
        for m in rule.modifies:
            if isinstance(m, tuple) and m[0] == "local":  # ("local", name, kind): a scalar local of the carrier that a callback rebinds (nonlocal)
                fr.vars[m[1]] = fresh(m[2], m[1])

    def J_parts(ENT, LEFT):
        """the invariant as a list of (label suffix, formula): J may return one formula or a list of (label, formula) conjuncts,
        each of which is then its own obligation"""
        r = rule.J(eng, vars_now(), ENT, LEFT, ctx)
        if isinstance(r, (list, tuple)):
            return [("/" + l, _zb(f)) for l, f in r]
        return [("", _zb(r))]

    def prove_J(step, ENT, LEFT):
        for suffix, f in J_parts(ENT, LEFT):
            eng.prove(f"{lab}/{step}{suffix}", f, "invariant")

    def assume_J(ENT, LEFT):
        for _, f in J_parts(ENT, LEFT):
            eng.assume(f)

    def frame_before():
        """snapshot of everything reachable from the carrier's frame that the rule does NOT declare as modified by the callbacks"""
        declared, seen = set(), set()
        for t in targets():
            for c_ in _containers(t, [], seen):
                declared.add(id(c_))
        local_names = {m[1] for m in rule.modifies if isinstance(m, tuple) and m[0] == "local"}
        vs = vars_now()
        watched = [c_ for c_ in _containers(list(vs.values()), [], set()) if id(c_) not in declared and not getattr(c_, "frozen", False)]
        scalars = {k: v_ for k, v_ in vs.items() if k not in local_names and (v_ is None or isinstance(v_, (Sym, int, bool, float, str)))}
        return [(c_, _content(c_)) for c_ in watched], scalars

    def frame_after(step, before):
        """obligation <step>/callback-changes-only-the-state-the-rule-declares: written in place by the real callback (or its ghost code)
        = content differs syntactically from the snapshot.  Conservative: writing an equal value back is reported too."""
        watched, scalars = before
        changed = [repr(c_)[:60] for c_, old in watched if not _same_content(old, _content(c_))]
        vs = vars_now()
        changed += [f"local {k}" for k, v_ in scalars.items() if k in vs and not _same_content(v_, vs[k])]
        eng.prove(f"{lab}/{step}/callback-changes-only-the-state-the-rule-declares", not changed, "frame",
                  ("undeclared state written: " + ", ".join(changed)) if changed else "")

    emptyset = z3.K(I, z3.BoolVal(False))
    # ---- init
    prove_J("init/invariant-holds-before-the-first-event", emptyset, emptyset)

    def j_reads(which):
        """does J read ENT (which = 0) / LEFT (which = 1)?  J is evaluated once with two fresh set constants; a constant that does not
        occur in the resulting formula is not read (a step without a callback then hands its hypothesis back: nothing to prove)"""
        sets = [z3.Const(fresh_name(nm), z3.ArraySort(I, B)) for nm in ("ENTp", "LEFTp")]
        todo, seen = [f for _, f in J_parts(*sets)], set()
        while todo:
            t = todo.pop()
            if t.get_id() in seen:
                continue
            seen.add(t.get_id())
            if z3.eq(t, sets[which]):
                return True
            if z3.is_quantifier(t):
                todo.append(t.body())
            else:
                todo.extend(t.children())
        return False

    def phase(body):
        """run `body` on an arbitrary reachable state; its assumptions are dropped afterwards"""
        if rule.fork_steps:
            if eng.branch(fresh("bool", "run_step")):
                havoc()
                body()
                raise PathEnd()
            return
        mark = len(eng.pc)
        havoc()
        body()
        del eng.pc[mark:]

    # ---- value predicates that read state the callbacks may change must be STABLE (lean/TraverseRule.lean: once true of an
    #      entered / left node and a value they stay true through every later callback call).  A predicate that is the same
    #      formula before and after a havoc of that state does not read it: nothing to prove.  Otherwise each step proves
    #      `<step>/stable/<which>`: for an arbitrary node y entered (left) BEFORE the step and an arbitrary value w,
    #      Q(y, w) in the state before the callback implies Q(y, w) in the state after it.
    dependent = {}

    def probe(which, fn, kind):
        if fn is _TRUE:
            dependent[which] = False
            return

        mark = len(eng.pc)  # no fork (also with fork_steps): every path must know the answer
        havoc()
        xs = fresh("int", "node")
        val = _mk_value(eng, kind, "val", xs.z)
        q1 = _zb(fn(eng, vars_now(), xs.z, val, ctx))
        havoc()
        q2 = _zb(fn(eng, vars_now(), xs.z, val, ctx))
        dependent[which] = not z3.eq(z3.simplify(q1), z3.simplify(q2))
        del eng.pc[mark:]

    probe("enter-value-predicate", rule.Qe, rule.enter_kind) if enter is not None else dependent.setdefault("enter-value-predicate", False)
    probe("leave-value-predicate", rule.Ql, rule.leave_kind) if leave is not None else dependent.setdefault("leave-value-predicate", False)

    def stability_before(ENT, LEFT):
        """evaluate the state-dependent value predicates for an arbitrary earlier node / value in the state BEFORE the callback"""
        out = []
        for which, fn, kind, members in (("enter-value-predicate", rule.Qe, rule.enter_kind, ENT), ("leave-value-predicate", rule.Ql, rule.leave_kind, LEFT)):
            if dependent.get(which):
                y = fresh("int", "earlier")
                w = _mk_value(eng, kind, "earlier_val", y.z)
                out.append((which, fn, y, w, z3.And(sel(members, y.z), _zb(fn(eng, vars_now(), y.z, w, ctx)))))
        return out

    def stability_after(step, pending):
        for which, fn, y, w, before in pending:
            eng.prove(f"{lab}/{step}/stable/{which}-of-earlier-nodes-still-holds", z3.Implies(before, _zb(fn(eng, vars_now(), y.z, w, ctx))), "invariant")

    # ---- enter step
    if enter is not None:
        def enter_step():
            ENT = z3.Const(fresh_name("ENT"), z3.ArraySort(I, B))
            LEFT = z3.Const(fresh_name("LEFT"), z3.ArraySort(I, B))
            xs = fresh("int", "node")
            xz = xs.z
            eng.ghost["traverse-step-node"] = xz  # the arbitrary node of this step (for proof hints of the client)
            par = sel(P, xz)
            eng.assume(z3.ForAll([c], z3.And(z3.Implies(sel(LEFT, c), sel(ENT, c)), z3.Implies(sel(ENT, c), Sub(c)),
                                             z3.Implies(z3.And(sel(ENT, c), c != rz), sel(ENT, sel(P, c))))))
            eng.assume(z3.And(Sub(xz), z3.Not(sel(ENT, xz)), z3.Not(sel(LEFT, xz))))
            eng.assume(R(xz))  # instance of Sub(x) -> R(x), stated quantifier-free so that path pruning sees it
            assume_J(ENT, LEFT)
            if eng.branch(eng.sbool(xz == rz)):
                pre = None
            else:
                eng.assume(z3.And(sel(ENT, par), z3.Not(sel(LEFT, par))))
                pre = _mk_value(eng, rule.enter_kind, "pre")
                qe = rule.Qe(eng, vars_now(), par, pre, ctx)
                for part in ([f for _, f in qe] if isinstance(qe, (list, tuple)) else [qe]):
                    eng.assume(_zb(part))
            pending = stability_before(ENT, LEFT)
            watch = frame_before()
            ret = eng.call(enter, [xs, pre], {})
            eng.ghost["traverse-last-call"] = dict(x=xz, args=pre, ret=ret, ENT=ENT, LEFT=LEFT)
            if rule.ghost_enter is not None:
                ctx.ret = ret  # the value the real callback returned (ghost code may record it)
                rule.ghost_enter(eng, vars_now(), xz, ctx)
            frame_after("enter", watch)
            ENT2 = z3.Store(ENT, xz, z3.BoolVal(True))
            stability_after("enter", pending)
            prove_J("enter/invariant-preserved", ENT2, LEFT)
            _prove_parts(eng, f"{lab}/enter/returned-value-as-specified", rule.Qe(eng, vars_now(), xz, ret, ctx))

        phase(enter_step)
    else:
        # No enter callback: the traversal still ENTERS every node (lean/TraverseRule.lean instantiates f with the callback that does
        # nothing and returns None), so the invariant must survive ENT growing by an enabled node in an otherwise unchanged state.
        # A J that does not read ENT gives the very hypothesis back (discharged at once); a J that does is checked here.
        def silent_enter_step():
            ENT = z3.Const(fresh_name("ENT"), z3.ArraySort(I, B))
            LEFT = z3.Const(fresh_name("LEFT"), z3.ArraySort(I, B))
            xz = fresh("int", "node").z
            eng.assume(z3.ForAll([c], z3.And(z3.Implies(sel(LEFT, c), sel(ENT, c)), z3.Implies(sel(ENT, c), Sub(c)),
                                             z3.Implies(z3.And(sel(ENT, c), c != rz), sel(ENT, sel(P, c))))))
            eng.assume(z3.And(Sub(xz), z3.Not(sel(ENT, xz)), z3.Not(sel(LEFT, xz)), R(xz)))
            eng.assume(z3.Implies(xz != rz, z3.And(sel(ENT, sel(P, xz)), z3.Not(sel(LEFT, sel(P, xz))))))
            assume_J(ENT, LEFT)
            prove_J("enter/invariant-preserved-where-no-enter-callback-is-given", z3.Store(ENT, xz, z3.BoolVal(True)), LEFT)

        if j_reads(0):
            phase(silent_enter_step)

    # ---- leave step
    if leave is not None:
        def leave_step():
            ENT = z3.Const(fresh_name("ENT"), z3.ArraySort(I, B))
            LEFT = z3.Const(fresh_name("LEFT"), z3.ArraySort(I, B))
            xs = fresh("int", "node")
            xz = xs.z
            eng.ghost["traverse-step-node"] = xz
            eng.assume(z3.ForAll([c], z3.And(z3.Implies(sel(LEFT, c), sel(ENT, c)), z3.Implies(sel(ENT, c), Sub(c)),
                                             z3.Implies(z3.And(sel(ENT, c), c != rz), sel(ENT, sel(P, c))),
                                             z3.Implies(z3.And(sel(LEFT, c), c != rz, sel(LEFT, sel(P, c))), z3.BoolVal(True)))))
            eng.assume(z3.And(Sub(xz), sel(ENT, xz), z3.Not(sel(LEFT, xz))))
            eng.assume(R(xz))  # instance of Sub(x) -> R(x), stated quantifier-free so that path pruning sees it
            eng.assume(z3.ForAll([c], z3.Implies(z3.And(R(c), sel(P, c) == xz), z3.And(sel(ENT, c), sel(LEFT, c)))))
            eng.assume(z3.Implies(xz != rz, z3.And(sel(ENT, sel(P, xz)), z3.Not(sel(LEFT, sel(P, xz))))))
            assume_J(ENT, LEFT)
            args = None
            kind = rule.leave_kind
            mark = next_uid()
            owned_check = False
            if rule.leave_args_at is not None:
                args = rule.leave_args_at(eng, vars_now(), xz, ctx)
            elif rule.leave_list is not None:
                v = vars_now()
                args = rule.leave_list(eng, v, xz, ctx)
                ks = fresh("int", "k")
                eng.assume(z3.ForAll([ks.z], z3.Implies(z3.And(0 <= ks.z, ks.z < nkids(xz)), _zb(rule.Ql(eng, v, kid(xz, ks.z), args.get(ks), ctx)))))
            elif callable(kind) and rule.leave_args is None:
                # non-scalar values: one run of the step per supported number of children, with a concrete list of fresh values
                if rule.leave_arities is None:
                    raise Unsupported("traverse rule: non-scalar leave values need Rule(leave_args=...), Rule(leave_args_at=...), Rule(leave_list=...) or Rule(leave_arities=...)")
                arity = None
                for a in rule.leave_arities:
                    if eng.branch(eng.sbool(nkids(xz) == a)):
                        arity = a
                        break
                if arity is None:
                    eng.prove(f"{lab}/leave/number-of-children-is-supported", z3.BoolVal(False), "precondition",
                              f"a node with a number of children outside {rule.leave_arities} is reachable")
                    raise PathEnd()
                args = PList([_mk_value(eng, kind, f"kidval{j}", kid(xz, z3.IntVal(j))) for j in range(arity)])
                v = vars_now()
                for j in range(arity):
                    eng.assume(_zb(rule.Ql(eng, v, kid(xz, z3.IntVal(j)), args.items[j], ctx)))
            else:
                if callable(kind):
                    args, get = rule.leave_args(eng, nkids(xz))
                    owned_check = True
                else:
                    args = PList.fresh(kind, n=nkids(xz), name="kidvals")
                    get = lambda kz: Sym(sel(args.cols[0], kz), kind)
                v = vars_now()
                ql = rule.Ql(eng, v, kid(xz, k), get(k), ctx)
                for part in ([f for _, f in ql] if isinstance(ql, (list, tuple)) else [ql]):  # one hypothesis per conjunct
                    eng.assume(z3.ForAll([k], z3.Implies(z3.And(0 <= k, k < nkids(xz)), _zb(part))))
            pending = stability_before(ENT, LEFT)
            watch = frame_before()
            ret = eng.call(leave, [xs, args], {})
            if owned_check:
                eng.prove(f"{lab}/leave/returned-value-owns-its-mutable-parts", _zb(_owned(ret, mark)), "frame")
            eng.ghost["traverse-last-call"] = dict(x=xz, args=args, ret=ret, ENT=ENT, LEFT=LEFT)
            if rule.ghost_leave is not None:
                ctx.ret, ctx.args = ret, args
                rule.ghost_leave(eng, vars_now(), xz, ctx)
            frame_after("leave", watch)
            LEFT2 = z3.Store(LEFT, xz, z3.BoolVal(True))
            stability_after("leave", pending)
            prove_J("leave/invariant-preserved", ENT, LEFT2)
            _prove_parts(eng, f"{lab}/leave/returned-value-as-specified", rule.Ql(eng, vars_now(), xz, ret, ctx))

        phase(leave_step)
    else:
        # No leave callback: every node is still LEFT (after its children); see the remark at the enter step.
        def silent_leave_step():
            ENT = z3.Const(fresh_name("ENT"), z3.ArraySort(I, B))
            LEFT = z3.Const(fresh_name("LEFT"), z3.ArraySort(I, B))
            xz = fresh("int", "node").z
            eng.assume(z3.ForAll([c], z3.And(z3.Implies(sel(LEFT, c), sel(ENT, c)), z3.Implies(sel(ENT, c), Sub(c)),
                                             z3.Implies(z3.And(sel(ENT, c), c != rz), sel(ENT, sel(P, c))))))
            eng.assume(z3.And(Sub(xz), sel(ENT, xz), z3.Not(sel(LEFT, xz)), R(xz)))
            eng.assume(z3.ForAll([c], z3.Implies(z3.And(R(c), sel(P, c) == xz), z3.And(sel(ENT, c), sel(LEFT, c)))))
            eng.assume(z3.Implies(xz != rz, z3.And(sel(ENT, sel(P, xz)), z3.Not(sel(LEFT, sel(P, xz))))))
            assume_J(ENT, LEFT)
            prove_J("leave/invariant-preserved-where-no-leave-callback-is-given", ENT, z3.Store(LEFT, xz, z3.BoolVal(True)))

        if j_reads(1):
            phase(silent_leave_step)

    # ---- conclusion
    havoc()
    S_all = z3.Lambda([x], Sub(x))
    assume_J(S_all, S_all)
    if leave is None:
        return None
    res = rule.leave_result(eng) if rule.leave_result is not None else _mk_value(eng, rule.leave_kind, "trav", rz)
    ql = rule.Ql(eng, vars_now(), rz, res, ctx)
    for part in ([f for _, f in ql] if isinstance(ql, (list, tuple)) else [ql]):  # one hypothesis per conjunct
        eng.assume(_zb(part))
    return res


def model(eng, args, kwargs, fr=None):
    """model of swc_utils.traverse at call sites of carriers that declare a traverse rule"""
    c = eng.cur_contract
    rule = c.options.get("traverse_rule") if c is not None else None
    if rule is None:
        return NotImplemented
    if isinstance(rule, dict):  # several traverse calls in one carrier: keyed by ordinal
        k = getattr(eng, "_traverse_calls", 0)
        eng._traverse_calls = k + 1
        rule = rule[k]
    topology = args[0] if args else kwargs["topology"]
    if kwargs.get("mode", "dfs") != "dfs":
        raise Unsupported("traverse mode")
    return apply(eng, rule, fr or eng.cur_frame, topology, kwargs.get("enter"), kwargs.get("leave"), kwargs.get("root", 0))
