"""Value classes and library models added for property C09 (views are faithful windows).

Reached only through the contract option `models=X.MODELS` of contracts/C09.py (an `eng.models` replacement) and
through values handed in by its setups; EXTRA_MODELS entries are keyed by functions no other property calls
(scipy.sparse.coo_matrix) or delegate to the stock model unless a C09 carrier is being verified.

  * HandleList   -- a Python list of symbolic length whose elements are instances of ONE class built by the same
                    constructor call, `[Cls(shared..., f(x)) for x in <symbolic sequence>]`: element k has the shared
                    field values and, per varying scalar field (or per entry of a small concrete-shape array field),
                    the entry k of a z3 array.  Elements are value objects (identity is never observed).
  * list subclasses of the repository (`Compartments(list)`) whose content is such a list
  * slice.indices / range with a concrete step other than 1 (CPython's PySlice_AdjustIndices / range length)
  * scipy.sparse.coo_matrix((data, (row, col)), shape=, dtype=) as a RECORDING model (the triplets are kept)
  * small numpy gaps: np.ones / np.full with a symbolic extent, np.concatenate of an (n, 3) block with an (n, 1)
    block along axis 1, np.array of a HandleList comprehension of 2-vectors, S2Arr.ndim
"""
from __future__ import annotations

import ast

import numpy as np
import z3

from . import models, npmodels
from .engine import Frame, ProgExc, Unsupported
from .values import Iter, NArr, NativeMethod, Obj, PDict, PList, SArr, Sym, fresh_name, kind_of, next_uid, to_z3, zint


def _mine(eng):
    return getattr(eng, "prop", None) == "C09"


def used(eng, name):
    eng.assumptions.add("numpy-model:" + name)


# ---------------------------------------------------------------------------------------------------------------
class HandleList(PList):
    """Symbolic-length list of instances of `cls_`.  `fixed`: field -> value shared by all elements (objects that
    existed before the list was built, configuration tuples, strings); `scal`: field -> (z3 array, kind); `vecs`:
    field -> (shape, kind, dtype, [z3 array per flat entry]) for fields holding a numpy array of concrete shape."""

    def __init__(self, cls, fixed, scal, vecs, n):
        super().__init__()
        self.items = None
        self.cls_, self.fixed, self.scal, self.vecs = cls, dict(fixed), dict(scal), dict(vecs)
        self.kinds, self.cols, self.tup = [], [], False
        self.n = n
        self.name = "handles"

    def get(self, i):
        iz = to_z3(i, "int")
        f = dict(self.fixed)
        for nm, (c, k) in self.scal.items():
            f[nm] = Sym(z3.simplify(z3.Select(c, iz)), k)
        for nm, (shape, k, dt, cs) in self.vecs.items():
            f[nm] = NArr(shape, [Sym(z3.simplify(z3.Select(c, iz)), k) for c in cs], k, dt)
        return Obj(self.cls_, f)

    def col(self, name):
        return self.scal[name][0]

    def vec(self, name, j):
        return self.vecs[name][3][j]

    def __pyvc_getitem__(self, eng, idx):
        if isinstance(idx, slice):
            raise Unsupported("slice of a list of handles")
        iz = models.norm_index(eng, idx, self.n, "list index")
        return self.get(iz)


def snapshot_handles(h):
    c = HandleList(h.cls_, h.fixed, h.scal, h.vecs, h.n)
    c.uid = h.uid
    return c


def _object_comprehension(eng, n, fr, kind, first):
    """[elt for x in S] over a symbolic-length S where elt builds an object: evaluated once, symbolically in the
    position (like pyvc.npmodels.symbolic_comprehension); returns None when elt is not an object."""
    gens = n.generators
    length, getter = MODELS.as_sequence(eng, first)
    i = z3.Int(fresh_name("ci"))
    sub = Frame(parent=fr, globs=fr.globs, func=fr.func)
    nz = length.z if isinstance(length, Sym) else zint(length)
    saved = list(eng.pc)
    eng.pc.append(z3.And(i >= 0, i < nz))
    eng.pure_mode = getattr(eng, "pure_mode", 0) + 1
    mark = next_uid()
    try:
        eng.assign(gens[0].target, getter(Sym(i, "int")), sub)
        vv = eng.ev(n.elt, sub)
    finally:
        eng.pure_mode -= 1
        new = eng.pc[len(saved) + 1:]
        eng.pc = saved
        for h in new:
            eng.pc.append(z3.ForAll([i], z3.Implies(z3.And(i >= 0, i < nz), h)))
    if not isinstance(vv, Obj):
        return None
    fixed, scal, vecs = {}, {}, {}
    for nm, val in vv.fields.items():
        if isinstance(val, Sym):
            scal[nm] = (z3.Lambda([i], val.z), val.kind)
        elif kind_of(val) is not None:
            scal[nm] = (z3.Lambda([i], to_z3(val)), kind_of(val))
        elif isinstance(val, NArr) and val.view_of is None:
            vecs[nm] = (val.shape, val.kind, val.dtype, [z3.Lambda([i], to_z3(x, val.kind)) for x in val.items])
        elif getattr(val, "uid", 0) > mark:
            raise Unsupported(f"comprehension element allocates a {type(val).__name__} in field {nm}")
        else:
            fixed[nm] = val
    eng.assumptions.add("list-model: a list of view objects built by one constructor call per position is stored field-wise (elements are value objects: their fields are never reassigned, identity is never observed)")
    out = HandleList(vv.cls, fixed, scal, vecs, z3.simplify(nz))
    if isinstance(first, Iter):
        first.consumed = True
    return Iter(out) if kind == "gen" else out


def _handles_of(v):
    """the HandleList behind a value (a list, an iterator over it, or a list-subclass instance), else None"""
    while isinstance(v, Iter):
        if v.consumed:
            return None
        v = v.seq
    if isinstance(v, Obj) and isinstance(v.fields.get("__items__"), HandleList):
        return v.fields["__items__"]
    return v if isinstance(v, HandleList) else None


class ModelsProxy:
    """`eng.models` replacement (contract option `models=`): pyvc.models plus object-building comprehensions over a
    symbolic sequence and list subclasses holding them."""

    def __getattr__(self, name):
        return getattr(models, name)

    def comprehension(self, eng, n, fr, kind):
        gens = n.generators
        if kind in ("list", "gen") and len(gens) == 1 and not gens[0].ifs:
            first = eng.ev(gens[0].iter, fr)
            probe = first.seq if isinstance(first, Iter) and not first.consumed else first
            if isinstance(probe, Obj) and isinstance(probe.fields.get("__items__"), HandleList):
                probe = probe.fields["__items__"]
            symbolic = isinstance(probe, (SArr, models._SymRange, SymStepRange)) or (isinstance(probe, PList) and probe.items is None)
            if symbolic:
                pc0, nob = list(eng.pc), len(eng.obligs)
                r = _object_comprehension(eng, n, fr, kind, probe) if isinstance(n.elt, ast.Call) or isinstance(n.elt, ast.Subscript) else None
                if r is not None:
                    if isinstance(first, Iter):
                        first.consumed = True
                    return r
                eng.pc = pc0
                del eng.obligs[nob:]
                return npmodels.symbolic_comprehension(eng, n, fr, kind, probe)
            return _concrete_comprehension(eng, n, fr, kind, first)
        return models.comprehension(eng, n, fr, kind)

    def as_sequence(self, eng, v):
        if isinstance(v, SymStepRange):
            return v.as_sequence(eng)
        if isinstance(v, Obj) and isinstance(v.fields.get("__items__"), HandleList):
            h = v.fields["__items__"]
            return h.n, h.get
        return models.as_sequence(eng, v)

    def foreign_init(self, eng, obj, pyf, args, kwargs):
        if isinstance(obj.cls, type) and issubclass(obj.cls, list) and args:
            h = _handles_of(args[0])
            if h is not None:
                if isinstance(args[0], Iter):
                    args[0].consumed = True
                obj.fields["__items__"] = h
                return None
        return models.foreign_init(eng, obj, pyf, args, kwargs)

    def foreign_method(self, pyf, name):
        stock = models.foreign_method(pyf, name)

        def model(eng, recv, args, kwargs):
            if name == "__init__" and isinstance(recv, Obj) and isinstance(recv.cls, type) and issubclass(recv.cls, list) and args:
                h = _handles_of(args[0])
                if h is not None:
                    if isinstance(args[0], Iter):
                        args[0].consumed = True
                    recv.fields["__items__"] = h
                    return None
            if isinstance(recv, Obj) and isinstance(recv.fields.get("__items__"), HandleList):
                h = recv.fields["__items__"]
                if name == "__len__":
                    return eng.snum(zint(h.n), "int")
                if name == "__getitem__":
                    return h.__pyvc_getitem__(eng, args[0])
                if name == "__iter__":
                    return Iter(h)
            return stock(eng, recv, args, kwargs)

        return model


def _concrete_comprehension(eng, n, fr, kind, first):
    """models.comprehension evaluates the iterable itself; here it has been evaluated already"""
    gens = n.generators
    sub = Frame(parent=fr, globs=fr.globs, func=fr.func)
    items0 = models.iterate_concrete(eng, first)
    out = []
    for x in items0:
        eng.assign(gens[0].target, x, sub)
        out.append(eng.ev(n.elt, sub))
    return PList(out) if kind == "list" else Iter(PList(out))


MODELS = ModelsProxy()


# ---------------------------------------------------------------------------------------------------------------
# slices / ranges with a concrete step
class SymStepRange:
    """range(lo, hi, step) with a concrete non-zero step and symbolic bounds"""

    def __init__(self, lo, hi, step):
        self.lo, self.hi, self.step = lo, hi, step

    def length(self):
        lo, hi, st = to_z3(self.lo, "int"), to_z3(self.hi, "int"), self.step
        if st > 0:
            return z3.simplify(z3.If(hi > lo, (hi - lo + (st - 1)) / st, z3.IntVal(0)))
        return z3.simplify(z3.If(lo > hi, (lo - hi + (-st - 1)) / (-st), z3.IntVal(0)))

    def as_sequence(self, eng):
        lo = to_z3(self.lo, "int")
        return self.length(), lambda k: eng.snum(lo + k.z * self.step, "int")


def _b_range(eng, args, kwargs):
    if _mine(eng) and len(args) == 3 and isinstance(args[2], int) and not isinstance(args[2], bool) and args[2] not in (0, 1) and any(isinstance(a, Sym) for a in args[:2]):
        eng.assumptions.add("builtin-model: range(lo, hi, step) with a concrete step: lo + k*step for k < ceil((hi-lo)/step)")
        return SymStepRange(args[0], args[1], args[2])
    if _mine(eng) and len(args) == 3 and args[2] == 1:
        args = args[:2]
    return models._b_range(eng, args, kwargs)


models.EXTRA_MODELS[range] = _b_range


def slice_indices(eng, sl, args, kwargs):
    """slice.indices(n) by CPython's definition (PySlice_AdjustIndices) for a concrete step (None = 1)"""
    (n,) = args
    st = sl.step
    if st in (None, 1) or isinstance(st, Sym) or all(not isinstance(x, Sym) for x in (sl.start, sl.stop, n)):
        return models.slice_indices(eng, sl, args, kwargs)
    if st == 0:
        raise ProgExc(ValueError, "slice step cannot be zero")
    eng.assumptions.add("builtin-model: slice.indices(n) with a concrete step follows PySlice_AdjustIndices")
    nz = to_z3(n, "int")

    def adj(v, default):
        if v is None:
            return default
        vz = to_z3(v, "int")
        if st > 0:
            return z3.If(vz < 0, z3.If(vz + nz < 0, z3.IntVal(0), vz + nz), z3.If(vz >= nz, nz, vz))
        return z3.If(vz < 0, z3.If(vz + nz < 0, z3.IntVal(-1), vz + nz), z3.If(vz >= nz, nz - 1, vz))

    lo = eng.snum(adj(sl.start, z3.IntVal(0) if st > 0 else nz - 1), "int")
    hi = eng.snum(adj(sl.stop, nz if st > 0 else z3.IntVal(-1)), "int")
    return (lo, hi, st)


ModelsProxy.slice_indices = staticmethod(slice_indices)
