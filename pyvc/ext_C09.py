"""Value classes and library models added for property C09 (views are faithful windows).

Reached only through the contract option `models=X.MODELS` of contracts/C09.py (an `eng.models` replacement) and
through values handed in by its setups; EXTRA_MODELS entries are keyed by functions no other property calls
(scipy.sparse.coo_matrix) or delegate to the stock model unless a C09 carrier is being verified.

  * HandleList   -- a Python list of symbolic length whose elements are instances of ONE class built by the same
                    constructor call, `[Cls(shared..., f(x)) for x in <symbolic sequence>]`: element k has the shared
                    field values and, per varying scalar field (or per entry of a small concrete-shape array field),
                    the entry k of a z3 array.  Elements are value objects (identity is never observed).
  * list subclasses of the repository (`Compartments(list)`) whose content is such a list
  * slice.indices / range with a concrete step other than 1 (CPython's PySlice_AdjustIndices / range length)
  * scipy.sparse.coo_matrix((data, (row, col)), shape=, dtype=) as a RECORDING model (the triplets are kept)
  * small numpy gaps: np.ones / np.full with a symbolic extent, np.concatenate of an (n, 3) block with an (n, 1)
    block along axis 1, np.array of a HandleList comprehension of 2-vectors, S2Arr.ndim
"""
from __future__ import annotations

import ast

import numpy as np
import z3

from . import models, npmodels
from .engine import Frame, ProgExc, Unsupported
from .values import Iter, NArr, NativeMethod, Obj, PDict, PList, SArr, Sym, fresh_name, kind_of, next_uid, to_z3, zint


def _mine(eng):
    return getattr(eng, "prop", None) == "C09"


def used(eng, name):
    eng.assumptions.add("numpy-model:" + name)


# ---------------------------------------------------------------------------------------------------------------
class HandleList(PList):
    """Symbolic-length list of instances of `cls_`.  `fixed`: field -> value shared by all elements (objects that
    existed before the list was built, configuration tuples, strings); `scal`: field -> (z3 array, kind); `vecs`:
    field -> (shape, kind, dtype, [z3 array per flat entry]) for fields holding a numpy array of concrete shape."""

    def __init__(self, cls, fixed, scal, vecs, n):
        super().__init__()
        self.items = None
        self.cls_, self.fixed, self.scal, self.vecs = cls, dict(fixed), dict(scal), dict(vecs)
        self.kinds, self.cols, self.tup = [], [], False
        self.n = n
        self.name = "handles"

    def get(self, i):
        iz = to_z3(i, "int")
        f = dict(self.fixed)
        for nm, (c, k) in self.scal.items():
            f[nm] = Sym(z3.simplify(z3.Select(c, iz)), k)
        for nm, (shape, k, dt, cs) in self.vecs.items():
            f[nm] = NArr(shape, [Sym(z3.simplify(z3.Select(c, iz)), k) for c in cs], k, dt)
        return Obj(self.cls_, f)

    def __pyvc_copy__(self, eng):
        """list(h) / h.copy() / copy.copy(h): a new list of the same value objects"""
        return HandleList(self.cls_, self.fixed, self.scal, self.vecs, self.n)

    def col(self, name):
        return self.scal[name][0]

    def vec(self, name, j):
        return self.vecs[name][3][j]

    def __pyvc_getitem__(self, eng, idx):
        if isinstance(idx, slice):
            # list slicing copies: a new list of the same value objects, positions lo .. hi-1
            cut = lambda c, k: npmodels.slice_view(eng, SArr(c, self.n, k), idx)
            scal = {nm: (cut(c, k).arr, k) for nm, (c, k) in self.scal.items()}
            vecs = {nm: (shape, k, dt, [cut(c, k).arr for c in cs]) for nm, (shape, k, dt, cs) in self.vecs.items()}
            return HandleList(self.cls_, self.fixed, scal, vecs, cut(z3.K(z3.IntSort(), z3.IntVal(0)), "int").n)
        iz = models.norm_index(eng, idx, self.n, "list index")
        return self.get(iz)


def snapshot_handles(h):
    c = HandleList(h.cls_, h.fixed, h.scal, h.vecs, h.n)
    c.uid = h.uid
    return c


def _eval_element(eng, n, fr, first):
    """evaluate the element expression of `[elt for x in S]` once, symbolically in the position i (cf.
    pyvc.npmodels.symbolic_comprehension): returns (value, i, length term, uid mark before the evaluation)"""
    gens = n.generators
    length, getter = MODELS.as_sequence(eng, first)
    i = z3.Int(fresh_name("ci"))
    sub = Frame(parent=fr, globs=fr.globs, func=fr.func)
    nz = length.z if isinstance(length, Sym) else zint(length)
    saved = list(eng.pc)
    eng.pc.append(z3.And(i >= 0, i < nz))
    eng.pure_mode = getattr(eng, "pure_mode", 0) + 1
    mark = next_uid()
    try:
        eng.assign(gens[0].target, getter(Sym(i, "int")), sub)
        vv = eng.ev(n.elt, sub)
    finally:
        eng.pure_mode -= 1
        new = eng.pc[len(saved) + 1:]
        eng.pc = saved
        for h in new:
            eng.pc.append(z3.ForAll([i], z3.Implies(z3.And(i >= 0, i < nz), h)))
    return vv, i, z3.simplify(nz), mark


def _handle_list(eng, vv, i, nz, mark):
    fixed, scal, vecs = {}, {}, {}
    for nm, val in vv.fields.items():
        if isinstance(val, Sym):
            scal[nm] = (z3.Lambda([i], val.z), val.kind)
        elif kind_of(val) is not None:
            scal[nm] = (z3.Lambda([i], to_z3(val)), kind_of(val))
        elif isinstance(val, NArr) and val.view_of is None:
            vecs[nm] = (val.shape, val.kind, val.dtype, [z3.Lambda([i], to_z3(x, val.kind)) for x in val.items])
        elif getattr(val, "uid", 0) > mark:
            raise Unsupported(f"comprehension element allocates a {type(val).__name__} in field {nm}")
        else:
            fixed[nm] = val
    eng.assumptions.add("list-model: a list of view objects built by one constructor call per position is stored field-wise (elements are value objects: their fields are never reassigned, identity is never observed)")
    return HandleList(vv.cls, fixed, scal, vecs, nz)


def _symbolic_handles_of(v):
    """the HandleList behind a value (a list, an iterator over it, or a list-subclass instance), else None"""
    while isinstance(v, Iter):
        if v.consumed:
            return None
        v = v.seq
    if isinstance(v, Obj) and isinstance(v.fields.get("__items__"), HandleList):
        return v.fields["__items__"]
    return v if isinstance(v, HandleList) else None


class NoHandles(HandleList):
    """Field-wise reading of the EMPTY concrete list: there is no element, so it is a list of instances of any class sharing
    any field values (`cls_` is None, see `is_list_of`); its length is 0 and its field columns are never read below it."""

    def __init__(self):
        super().__init__(None, {}, {}, {}, z3.IntVal(0))

    def col(self, name):
        return z3.K(z3.IntSort(), z3.IntVal(0))

    def vec(self, name, j):
        return z3.K(z3.IntSort(), z3.IntVal(0))


def _pick(values, kind):
    """the z3 array k -> values[k] (k < len(values)) of a concrete, non-empty list of scalars"""
    i = z3.Int(fresh_name("ci"))
    z = to_z3(values[-1], kind)
    for j in range(len(values) - 2, -1, -1):
        z = z3.If(i == j, to_z3(values[j], kind), z)
    return z3.Lambda([i], z)


def _view_of_concrete(lst):
    """A CONCRETE-length list of instances read field-wise, exactly as `_handle_list` stores a symbolic-length one: what the list
    IS (which objects, in which order, with which field values) does not depend on whether it was produced by a comprehension over
    a symbolic sequence, by a loop, or written out.  None when the elements are not instances of one class with one field layout."""
    items = lst.items
    if not items:
        return NoHandles()
    e0 = items[0]
    if not all(isinstance(e, Obj) and e.cls is e0.cls and list(e.fields) == list(e0.fields) for e in items):
        return None
    fixed, scal, vecs = {}, {}, {}
    for nm, v0 in e0.fields.items():
        vals = [e.fields[nm] for e in items]
        if all(isinstance(x, Sym) or kind_of(x) is not None for x in vals):
            kinds = {x.kind if isinstance(x, Sym) else kind_of(x) for x in vals}
            k = kinds.pop() if len(kinds) == 1 else ("real" if kinds <= {"int", "real"} else None)
            if k is None:
                return None
            scal[nm] = (_pick(vals, k), k)
        elif all(isinstance(x, NArr) and x.view_of is None and x.shape == v0.shape and x.kind == v0.kind for x in vals):
            vecs[nm] = (v0.shape, v0.kind, v0.dtype, [_pick([x.items[q] for x in vals], v0.kind) for q in range(len(v0.items))])
        elif all(x is v0 for x in vals) or (not isinstance(v0, (Obj, SArr, NArr, PList, PDict)) and all(type(x) is type(v0) and x == v0 for x in vals)):
            fixed[nm] = v0
        else:
            return None
    return HandleList(e0.cls, fixed, scal, vecs, z3.IntVal(len(items)))


def _handles_of(v):
    """CLAUSE-side reading of a list of view objects (a list, an iterator over it, or a list-subclass instance): the HandleList of a
    symbolic-length list, or the same field-wise reading of a concrete-length list of instances (`_view_of_concrete`); else None"""
    h = _symbolic_handles_of(v)
    if h is not None:
        return h
    while isinstance(v, Iter):
        if v.consumed:
            return None
        v = v.seq
    if isinstance(v, Obj) and isinstance(v.fields.get("__items__"), PList):
        v = v.fields["__items__"]
    if type(v) is PList and v.items is not None and not v.tup:
        return _view_of_concrete(v)
    return None


def is_list_of(h, cls, **shared):
    """every element of the list read by `_handles_of` is an instance of `cls` whose fields `shared` hold the given objects (by
    identity); vacuously so for the empty list"""
    if h is None:
        return False
    if isinstance(h, NoHandles):
        return True
    return h.cls_ is cls and all(h.fixed.get(k) is val for k, val in shared.items())


def has_vec(h, name, shape):
    """field `name` of every element is an array of the concrete shape `shape` (vacuous for the empty list)"""
    return isinstance(h, NoHandles) or (h is not None and name in h.vecs and h.vecs[name][0] == tuple(shape))


class ModelsProxy:
    """`eng.models` replacement (contract option `models=`): pyvc.models plus object-building comprehensions over a
    symbolic sequence and list subclasses holding them."""

    def __getattr__(self, name):
        return getattr(models, name)

    def comprehension(self, eng, n, fr, kind):
        gens = n.generators
        if kind in ("list", "gen") and len(gens) == 1 and not gens[0].ifs:
            return self.comprehension_over(eng, n, fr, kind, eng.ev(gens[0].iter, fr))
        return models.comprehension(eng, n, fr, kind)

    def comprehension_over(self, eng, n, fr, kind, first):
        """the comprehension `n` with its first iterable already evaluated to `first`: also what the loop idiom
        `for x in S: L.append(e(x))` is executed as (pyvc.loops._append_loop), so a list of view objects built by an explicit loop
        is stored exactly like the one built by the comprehension"""
        gens = n.generators
        if kind in ("list", "gen") and len(gens) == 1 and not gens[0].ifs:
            probe = first.seq if isinstance(first, Iter) and not first.consumed else first
            if isinstance(probe, Obj) and isinstance(probe.fields.get("__items__"), HandleList):
                probe = probe.fields["__items__"]
            symbolic = isinstance(probe, (SArr, models._SymRange, SymStepRange)) or (isinstance(probe, PList) and probe.items is None)
            if symbolic:
                pc0, nob = list(eng.pc), len(eng.obligs)
                vv, i, nz, mark = _eval_element(eng, n, fr, probe)
                out = None
                if isinstance(vv, Obj):
                    out = _handle_list(eng, vv, i, nz, mark)
                elif isinstance(vv, NArr) and vv.view_of is None:
                    out = VecList([z3.Lambda([i], to_z3(x, vv.kind)) for x in vv.items], nz, vv.shape, vv.kind, vv.dtype)
                if out is not None:
                    if isinstance(first, Iter):
                        first.consumed = True
                    return Iter(out) if kind == "gen" else out
                eng.pc = pc0
                del eng.obligs[nob:]
                r = npmodels.symbolic_comprehension(eng, n, fr, kind, probe)
                if isinstance(first, Iter):
                    first.consumed = True
                return r
            return _concrete_comprehension(eng, n, fr, kind, first)
        return models.comprehension_over(eng, n, fr, kind, first)

    def as_sequence(self, eng, v):
        if isinstance(v, SymStepRange):
            return v.as_sequence(eng)
        if isinstance(v, Obj) and isinstance(v.fields.get("__items__"), HandleList):
            h = v.fields["__items__"]
            return h.n, h.get
        return models.as_sequence(eng, v)

    def foreign_init(self, eng, obj, pyf, args, kwargs):
        if isinstance(obj.cls, type) and issubclass(obj.cls, list) and args:
            h = _symbolic_handles_of(args[0])
            if h is not None:
                if isinstance(args[0], Iter):
                    args[0].consumed = True
                obj.fields["__items__"] = h
                return None
        return models.foreign_init(eng, obj, pyf, args, kwargs)

    def foreign_method(self, pyf, name):
        stock = models.foreign_method(pyf, name)

        def model(eng, recv, args, kwargs):
            if name == "__init__" and isinstance(recv, Obj) and isinstance(recv.cls, type) and issubclass(recv.cls, list) and args:
                h = _symbolic_handles_of(args[0])
                if h is not None:
                    if isinstance(args[0], Iter):
                        args[0].consumed = True
                    recv.fields["__items__"] = h
                    return None
            if isinstance(recv, Obj) and isinstance(recv.fields.get("__items__"), HandleList):
                h = recv.fields["__items__"]
                if name == "__len__":
                    return eng.snum(zint(h.n), "int")
                if name == "__getitem__":
                    return h.__pyvc_getitem__(eng, args[0])
                if name == "__iter__":
                    return Iter(h)
            return stock(eng, recv, args, kwargs)

        return model


def _concrete_comprehension(eng, n, fr, kind, first):
    """models.comprehension evaluates the iterable itself; here it has been evaluated already"""
    gens = n.generators
    sub = Frame(parent=fr, globs=fr.globs, func=fr.func)
    try:
        items0 = models.iterate_concrete(eng, first)
    except Unsupported:
        return npmodels.symbolic_comprehension(eng, n, fr, kind, first)
    out = []
    for x in items0:
        eng.assign(gens[0].target, x, sub)
        out.append(eng.ev(n.elt, sub))
    return PList(out) if kind == "list" else Iter(PList(out))


def _l_extend(eng, recv, args, kwargs):
    """`L.extend(S)` with L an EMPTY concrete list and S a symbolic-length list of view objects (what `L = []` followed by
    `for x in seq: L.append(Cls(...))` is executed as): L becomes that list - same object, same elements, same order."""
    if type(recv) is PList and recv.items is not None and args:
        h = _symbolic_handles_of(args[0])
        if h is not None:
            if recv.items:
                raise Unsupported("extend of a non-empty concrete list by a symbolic-length list of view objects")
            models.check_frame(eng, recv)
            if isinstance(args[0], Iter):
                args[0].consumed = True
            keep = dict(uid=recv.uid, frozen=recv.frozen)
            recv.__class__ = HandleList
            recv.__dict__.update(HandleList(h.cls_, h.fixed, h.scal, h.vecs, h.n).__dict__)
            recv.__dict__.update(keep)
            return None
    for (cls, nm), mdl in models.EXTRA_METHODS.items():  # not ours: whatever model would have been found without this one
        if nm == "extend" and mdl is not _l_extend and isinstance(recv, cls):
            return mdl(eng, recv, args, kwargs)
    return models._m_extend(eng, recv, args, kwargs)


models.EXTRA_METHODS[(PList, "extend")] = _l_extend
ModelsProxy.LIST_METHODS = property(lambda self: dict(models.LIST_METHODS, extend=_l_extend))


MODELS = ModelsProxy()


# ---------------------------------------------------------------------------------------------------------------
# slices / ranges with a concrete step
class SymStepRange:
    """range(lo, hi, step) with a concrete non-zero step and symbolic bounds"""

    def __init__(self, lo, hi, step):
        self.lo, self.hi, self.step = lo, hi, step

    def length(self):
        lo, hi, st = to_z3(self.lo, "int"), to_z3(self.hi, "int"), self.step
        if st > 0:
            return z3.simplify(z3.If(hi > lo, (hi - lo + (st - 1)) / st, z3.IntVal(0)))
        return z3.simplify(z3.If(lo > hi, (lo - hi + (-st - 1)) / (-st), z3.IntVal(0)))

    def as_sequence(self, eng):
        lo = to_z3(self.lo, "int")
        return self.length(), lambda k: eng.snum(lo + k.z * self.step, "int")


def _b_range(eng, args, kwargs):
    if _mine(eng) and len(args) == 3 and isinstance(args[2], int) and not isinstance(args[2], bool) and args[2] not in (0, 1) and any(isinstance(a, Sym) for a in args[:2]):
        eng.assumptions.add("builtin-model: range(lo, hi, step) with a concrete step: lo + k*step for k < ceil((hi-lo)/step)")
        return SymStepRange(args[0], args[1], args[2])
    if _mine(eng) and len(args) == 3 and args[2] == 1:
        args = args[:2]
    return models._b_range(eng, args, kwargs)


models.EXTRA_MODELS[range] = _b_range


def slice_indices(eng, sl, args, kwargs):
    """slice.indices(n) by CPython's definition (PySlice_AdjustIndices) for a concrete step (None = 1)"""
    (n,) = args
    st = sl.step
    if st in (None, 1) or isinstance(st, Sym) or all(not isinstance(x, Sym) for x in (sl.start, sl.stop, n)):
        return models.slice_indices(eng, sl, args, kwargs)
    if st == 0:
        raise ProgExc(ValueError, "slice step cannot be zero")
    eng.assumptions.add("builtin-model: slice.indices(n) with a concrete step follows PySlice_AdjustIndices")
    nz = to_z3(n, "int")

    def adj(v, default):
        if v is None:
            return default
        vz = to_z3(v, "int")
        if st > 0:
            return z3.If(vz < 0, z3.If(vz + nz < 0, z3.IntVal(0), vz + nz), z3.If(vz >= nz, nz, vz))
        return z3.If(vz < 0, z3.If(vz + nz < 0, z3.IntVal(-1), vz + nz), z3.If(vz >= nz, nz - 1, vz))

    lo = eng.snum(adj(sl.start, z3.IntVal(0) if st > 0 else nz - 1), "int")
    hi = eng.snum(adj(sl.stop, nz if st > 0 else z3.IntVal(-1)), "int")
    return (lo, hi, st)


ModelsProxy.slice_indices = staticmethod(slice_indices)


# ---------------------------------------------------------------------------------------------------------------
# arrays with a symbolic number of rows and a small concrete shape per row
class SRows:
    """numpy array of shape (m, *inner): m symbolic, `inner` a concrete tuple; `cells[q]` is the z3 array (row -> entry)
    of the q-th inner position (row-major).  `base` is set for the result of a basic slice (a view)."""

    def __init__(self, cells, n, inner, kind="real", dtype=None):
        self.cells, self.n, self.inner, self.kind, self.dtype = list(cells), n, tuple(inner), kind, dtype
        self.uid = next_uid()
        self.frozen = False
        size = 1
        for s in self.inner:
            size *= s
        assert size == len(self.cells)

    def nz(self):
        return zint(self.n)

    def cell(self, *pos):
        q = 0
        for p, s in zip(pos, self.inner):
            q = q * s + p
        return self.cells[q]

    def __pyvc_snapshot__(self, memo):
        c = SRows(self.cells, self.n, self.inner, self.kind, self.dtype)
        c.uid = self.uid
        return c

    def __pyvc_getattr__(self, eng, name):
        if name == "ndim":
            return 1 + len(self.inner)
        if name == "shape":
            return (eng.snum(self.nz(), "int"),) + self.inner
        if name == "dtype":
            return self.dtype if self.dtype is not None else npmodels.dtype_of_kind(self.kind)
        if name == "reshape":
            return NativeMethod(SRows._reshape, self, name)
        raise Unsupported(f"attribute {name} of an array with a symbolic number of rows")

    @staticmethod
    def _reshape(eng, recv, args, kwargs):
        """a.reshape(d0, *rest) that keeps the rows: the per-row size is unchanged, d0 must be the number of rows"""
        shp = tuple(args[0]) if len(args) == 1 and isinstance(args[0], (tuple, list)) else tuple(args)
        if not shp or any(isinstance(d, Sym) for d in shp[1:]):
            raise Unsupported("reshape of an array with a symbolic number of rows: only (rows, *concrete)")
        size = 1
        for d in shp[1:]:
            size *= int(d)
        if size != len(recv.cells):
            raise Unsupported("reshape that regroups the rows of an array with a symbolic number of rows")
        d0 = shp[0]
        if not (isinstance(d0, int) and d0 == -1):
            if not eng.branch(eng.sbool(to_z3(d0, "int") == recv.nz())):
                raise ProgExc(ValueError, "cannot reshape array")
        used(eng, "reshape keeping the first axis: same entries, row-major (a view)")
        v = SRows(recv.cells, recv.n, tuple(int(d) for d in shp[1:]), recv.kind, recv.dtype)
        v.uid = recv.uid
        return v

    def __pyvc_getitem__(self, eng, idx):
        if isinstance(idx, tuple) and len(idx) == 2 and len(self.inner) == 1 and isinstance(idx[0], slice) and idx[0] == slice(None) and isinstance(idx[1], int) and not isinstance(idx[1], bool):
            j = idx[1]
            if not -self.inner[0] <= j < self.inner[0]:
                raise ProgExc(IndexError, "column index out of bounds")
            j %= self.inner[0]
            used(eng, "basic-slice-is-view")
            v = SArr(self.cells[j], self.n, self.kind, name=f"col{j}", dtype=self.dtype)
            # a view: same allocation as the matrix.  A store through it would have to reach the matrix; that is not modelled,
            # so the view is frozen: any store is reported (frame-write) instead of being lost
            v.uid, v.frozen, v.view_of_rows = self.uid, True, (self, j)
            return v
        raise Unsupported("index form on an array with a symbolic number of rows")


def _has_sym(v):
    if isinstance(v, Sym):
        return True
    if isinstance(v, PList) and v.items is not None:
        return any(_has_sym(x) for x in v.items)
    if isinstance(v, (tuple, list)):
        return any(_has_sym(x) for x in v)
    return False


def _shape_items(v):
    if isinstance(v, PList):
        return list(v.items)
    if isinstance(v, (tuple, list)):
        return list(v)
    return [v]


def _np_const(value_of):
    def model(eng, args, kwargs, stock):
        shape = args[0]
        if not _has_sym(shape):
            return stock(eng, args, kwargs)
        dims = _shape_items(shape)
        fv = value_of(args, kwargs)
        dt = kwargs.get("dtype")
        k = npmodels.kind_of_dtype(dt) if dt is not None else (kind_of(fv) if value_of is not _one else "real")
        if not isinstance(dims[0], Sym) or any(isinstance(d, Sym) for d in dims[1:]):
            raise Unsupported("constant array whose symbolic extent is not the first one")
        if not eng.spec_mode:
            eng.prove(eng.site("extent-nonnegative"), dims[0].z >= 0, "safety", "negative dimensions are not allowed")
        used(eng, "np.ones/np.full with a symbolic first extent: every entry is the fill value")
        const = z3.K(z3.IntSort(), to_z3(fv, k))
        if len(dims) == 1:
            return SArr(const, dims[0].z, k, name="const", dtype=dt)
        inner = tuple(int(d) for d in dims[1:])
        size = 1
        for s in inner:
            size *= s
        return SRows([const] * size, dims[0].z, inner, k, dt)

    return model


def _one(args, kwargs):
    return 1


def _fill(args, kwargs):
    return kwargs.get("fill_value", args[1] if len(args) > 1 else None)


def _wrap_stock(fn, mine):
    stock = npmodels.lookup_model(fn)

    def model(eng, args, kwargs):
        if not _mine(eng):  # contracts/C09.py is imported by other contract modules for its helpers: their proofs keep the stock models
            return stock(eng, args, kwargs)
        return mine(eng, args, kwargs, stock)

    return model


def _np_concatenate(eng, args, kwargs, stock):
    seq = args[0].items if isinstance(args[0], PList) else list(args[0])
    if not any(isinstance(x, SRows) for x in seq):
        return stock(eng, args, kwargs)
    axis = kwargs.get("axis", args[1] if len(args) > 1 else 0)
    if axis != 1 or not all(isinstance(x, SRows) and len(x.inner) == 1 for x in seq):
        raise Unsupported("np.concatenate form on arrays with a symbolic number of rows")
    for x in seq[1:]:
        g = z3.simplify(seq[0].nz() == x.nz())
        if not z3.is_true(g) and not eng.spec_mode:
            eng.prove(eng.site("shape-match"), g, "shape", "np.concatenate along axis 1")
    used(eng, "np.concatenate([A, B], axis=1): fresh array, the columns of A then the columns of B")
    k = "real" if any(x.kind == "real" for x in seq) else seq[0].kind
    cells = []
    for x in seq:
        for c in x.cells:
            cells.append(c if x.kind == k else npmodels.lam(lambda i, _c=c, _k=x.kind: to_z3(Sym(z3.Select(_c, i), _k), k), k))
    return SRows(cells, seq[0].n, (len(cells),), k)


class VecList(PList):
    """symbolic-length list of numpy arrays of one concrete shape (the result of [f(x) for x in handles])"""

    def __init__(self, cells, n, inner, kind, dtype=None):
        super().__init__()
        self.items = None
        self.cells, self.n, self.inner, self.vkind, self.vdtype = list(cells), n, tuple(inner), kind, dtype
        self.kinds, self.cols, self.tup = [], [], False

    def get(self, i):
        iz = to_z3(i, "int")
        return NArr(self.inner, [Sym(z3.simplify(z3.Select(c, iz)), self.vkind) for c in self.cells], self.vkind, self.vdtype)


def _np_array(eng, args, kwargs, stock):
    src = args[0]
    if isinstance(src, VecList):
        used(eng, "np.array of a list of equally shaped arrays stacks them along a new first axis (fresh array)")
        dt = kwargs.get("dtype", args[1] if len(args) > 1 else None)
        k = npmodels.kind_of_dtype(dt) if dt is not None else src.vkind
        if k != src.vkind:
            raise Unsupported("np.array of a list of arrays with a dtype conversion")
        if not eng.branch(eng.sbool(zint(src.n) > 0)):
            # np.array([]) knows nothing of the elements' shape: a 1-D float64 array of length 0
            return NArr((0,), [], "real", np.dtype("float64") if dt is None else dt)
        return SRows(src.cells, src.n, src.inner, k, dt or src.vdtype)
    return stock(eng, args, kwargs)


def _np_stack(eng, args, kwargs, stock):
    seq = args[0].items if isinstance(args[0], PList) and args[0].items is not None else (list(args[0]) if isinstance(args[0], (list, tuple)) else None)
    if not seq or not all(isinstance(x, SRows) for x in seq):
        return stock(eng, args, kwargs)
    axis = kwargs.get("axis", args[1] if len(args) > 1 else 0)
    a0 = seq[0]
    if any(x.inner != a0.inner for x in seq):
        raise ProgExc(ValueError, "all input arrays must have the same shape")
    if axis != 1 + len(a0.inner):
        raise Unsupported("np.stack of arrays with a symbolic number of rows along an axis other than the new last one")
    for x in seq[1:]:
        g = z3.simplify(a0.nz() == x.nz())
        if not z3.is_true(g) and not eng.spec_mode:
            eng.prove(eng.site("shape-match"), g, "shape", "np.stack")
    used(eng, "np.stack([A1..Ak], axis=last): fresh array with out[..., j] = Aj[...]")
    k = "real" if any(x.kind == "real" for x in seq) else a0.kind
    cells = []
    for q in range(len(a0.cells)):
        for x in seq:
            c = x.cells[q]
            cells.append(c if x.kind == k else npmodels.lam(lambda i, _c=c, _k=x.kind: to_z3(Sym(z3.Select(_c, i), _k), k), k))
    return SRows(cells, a0.n, a0.inner + (len(seq),), k)


models.EXTRA_MODELS[np.ones] = _wrap_stock(np.ones, _np_const(_one))
models.EXTRA_MODELS[np.full] = _wrap_stock(np.full, _np_const(_fill))
models.EXTRA_MODELS[np.concatenate] = _wrap_stock(np.concatenate, _np_concatenate)
models.EXTRA_MODELS[np.array] = _wrap_stock(np.array, _np_array)
models.EXTRA_MODELS[np.stack] = _wrap_stock(np.stack, _np_stack)


# ---------------------------------------------------------------------------------------------------------------
# scipy.sparse.coo_matrix((data, (row, col)), shape=(r, c), dtype=...) : recording model
class CooRecord:
    """What the carrier handed to scipy.sparse.coo_matrix: the triplet arrays (data[k], row[k], col[k]), the shape and the
    dtype.  By scipy's definition the matrix entry (p, c) is the sum of data[k] over the triplets with row[k] = p and
    col[k] = c (duplicates are summed); scipy rejects triplets outside the shape and triplet arrays of unequal length."""

    def __init__(self, data, row, col, shape, dtype):
        self.data, self.row, self.col, self.shape, self.dtype = data, row, col, shape, dtype
        self.uid = next_uid()


def _coo_matrix(eng, args, kwargs):
    import scipy.sparse as sp  # noqa: F401

    arg = args[0]
    shape = kwargs.get("shape", args[1] if len(args) > 1 else None)
    if not (isinstance(arg, tuple) and len(arg) == 2 and isinstance(arg[1], tuple) and len(arg[1]) == 2 and isinstance(shape, tuple) and len(shape) == 2):
        raise Unsupported("scipy.sparse.coo_matrix: only the ((data, (row, col)), shape=(r, c)) form is modelled")
    data, (row, col) = arg
    if not all(isinstance(a, SArr) for a in (data, row, col)):
        raise Unsupported("scipy.sparse.coo_matrix: triplet arrays of symbolic length expected")
    eng.assumptions.add("scipy-model:coo_matrix((data, (row, col)), shape, dtype) records the triplets; ValueError unless the three arrays are equally long and every (row, col) lies inside the shape")
    if not eng.spec_mode:
        same = z3.And(data.nz() == row.nz(), row.nz() == col.nz())
        if not eng.branch(eng.sbool(same)):
            raise ProgExc(ValueError, "row, column, and data array must all be the same length")
        k = z3.Int(fresh_name("ck"))
        r, c = to_z3(shape[0], "int"), to_z3(shape[1], "int")
        inside = z3.ForAll([k], z3.Implies(z3.And(k >= 0, k < row.nz()), z3.And(row.get(k).z >= 0, row.get(k).z < r, col.get(k).z >= 0, col.get(k).z < c)))
        if not eng.branch(eng.sbool(inside)):
            raise ProgExc(ValueError, "row/column index exceeds matrix dimensions (or is negative)")
    return CooRecord(data, row, col, shape, kwargs.get("dtype"))


def install():
    import scipy.sparse as sp

    models.EXTRA_MODELS[sp.coo_matrix] = _coo_matrix


install()
