"""Loop handling: concrete unrolling, or cut by the sidecar invariant."""
from __future__ import annotations

import ast

import z3

from .engine import BreakSig, ContinueSig, Frame, PathEnd, ProgExc, Unsupported
from .spec import eval_clause, split_label
from .values import (
    DictListRef, Func, Iter, NArr, Obj, PDict, PList, SArr, Sym, fresh, fresh_name, kind_of, snapshot,
    sort_of, to_z3, zint,
)

MAX_UNROLL = 256
MUTATORS = {"append", "extend", "pop", "clear", "setdefault", "update", "add", "sort", "reverse", "insert", "remove", "popitem"}


def loop_ordinal(func, node):
    """0-based ordinal of `node` among the loops of the function, in source order
    (loops of nested defs / lambdas / comprehensions are not counted)."""
    cache = getattr(func, "_loop_ords", None)
    if cache is None:
        cache = {}
        n = [0]

        def walk(x):
            for ch in ast.iter_child_nodes(x):
                if isinstance(ch, (ast.FunctionDef, ast.Lambda, ast.AsyncFunctionDef, ast.ClassDef)):
                    continue
                if isinstance(ch, (ast.For, ast.While)):
                    cache[id(ch)] = n[0]
                    n[0] += 1
                walk(ch)

        walk(func.node)
        func._loop_ords = cache
    return cache[id(node)]


def _pick_spec(table, o, node):
    """the loop contract for the loop with ordinal `o`.  A loop contract may carry `applies=fn(ast loop node) -> bool`: it is then used
    only for a loop it recognises, and -- registered under a STRING key instead of an ordinal -- for whichever loop of the function it
    recognises (a loop inserted in front of it shifts the ordinals, not the contract)."""
    spec = table.get(o)
    if isinstance(spec, dict) and spec.get("applies") is not None and not spec["applies"](node):
        spec = None  # (a callable loop contract - computed at the loop head - has no `applies` key)
    if spec is None:
        for k, sp in table.items():
            if isinstance(k, str) and isinstance(sp, dict) and sp.get("applies") is not None and sp["applies"](node):
                return sp
    return spec


def loop_spec(eng, fr, node):
    """(loop contract, ordinal).  A loop contract may be a callable fn(eng, frame, loop node, ordinal) -> contract dict: it is
    computed at the loop head, from the loop as it is written (pyvc/progression.py derives invariants that way)."""
    spec, o = _loop_spec(eng, fr, node)
    if callable(spec):
        spec = spec(eng, fr, node, o)
    return spec, o


def _loop_spec(eng, fr, node):
    func = fr.func
    if func is None:
        return None, None
    o = loop_ordinal(func, node)
    top = eng.cur_contract
    if top is not None and eng.cur_key == func.key and top.key == func.key:
        from . import follow

        o = follow.carrier_ordinal(eng, func, o)  # the ordinal the loop had in the baseline text when loops LEFT the carrier (pyvc/follow.py)
        return _pick_spec(top.loops, o, node), o  # the contract being verified (several contracts of one function may be registered)
    c = eng.registry.get(func.key)
    if c is not None and (eng.cur_key == func.key):
        return _pick_spec(c.loops, o, node), o
    if top is not None and func.key in top.inlined_loops:
        return _pick_spec(top.inlined_loops[func.key], o, node), o
    if top is not None and getattr(func.node, "_pyvc_follow", None):
        from . import follow

        r = follow.helper_spec(eng, fr, node)  # a loop contract of the carrier follows its loop into a contract-less helper
        if r is not None:
            return r[0], (o if r[1] is None else r[1])
    return None, o


def _walk_no_defs(nodes):
    stack = list(nodes)
    while stack:
        x = stack.pop()
        yield x
        for ch in ast.iter_child_nodes(x):
            if isinstance(ch, (ast.FunctionDef, ast.Lambda, ast.AsyncFunctionDef, ast.ClassDef)):
                if isinstance(ch, ast.FunctionDef):
                    yield ch
                continue
            stack.append(ch)


def _base_expr(e):
    while isinstance(e, ast.Subscript):
        e = e.value
    return e


def analyse_mutation(eng, nodes, fr):
    """Names assigned and containers possibly mutated by the statements."""
    names, roots = set(), []
    for x in _walk_no_defs(nodes):
        if isinstance(x, ast.Name) and isinstance(x.ctx, (ast.Store, ast.Del)):
            names.add(x.id)
        elif isinstance(x, ast.FunctionDef):
            names.add(x.name)
        elif isinstance(x, (ast.Assign, ast.AugAssign, ast.AnnAssign, ast.Delete)):
            tg = x.targets if isinstance(x, (ast.Assign, ast.Delete)) else [x.target]
            for t in tg:
                for tt in ast.walk(t):
                    if isinstance(tt, ast.Subscript) and isinstance(tt.ctx, (ast.Store, ast.Del)):
                        roots.append(_base_expr(tt.value))
                    elif isinstance(tt, ast.Attribute) and isinstance(tt.ctx, ast.Store):
                        roots.append(("attr", tt.value, tt.attr))
            if isinstance(x, ast.AugAssign) and isinstance(x.target, ast.Name):
                roots.append(x.target)  # in-place update of arrays bound to the name
        elif isinstance(x, ast.Call) and isinstance(x.func, ast.Attribute):
            if x.func.attr in MUTATORS:
                roots.append(_base_expr(x.func.value))
            else:
                roots.append(("call", x.func.value, x.func.attr))
    return names, roots


def havoc_value(eng, v, seen=None):
    """Replace the contents of a mutable value by unknowns (in place)."""
    seen = seen if seen is not None else set()
    if id(v) in seen:
        return
    seen.add(id(v))
    if isinstance(v, SArr):
        v.arr = z3.Const(fresh_name(v.name), v.arr.sort())
    elif isinstance(v, NArr):
        v.items = [fresh(v.kind if v.kind else "real", "h") for _ in v.items]
    elif isinstance(v, PList):
        if v.items is None:
            v.cols = [z3.Const(fresh_name(f"{v.name}_{j}"), c.sort()) for j, c in enumerate(v.cols)]
            v.n = z3.Const(fresh_name(v.name + "_len"), z3.IntSort())
            eng.assume(v.n >= 0)
        else:
            hint = getattr(v, "hint", None)
            if hint is not None:
                if callable(hint):
                    hint(eng, v)  # custom promotion supplied by the contract module (e.g. lists of object handles)
                else:
                    v.promote(hint)
                eng.assume(v.n >= 0)
            elif all(kind_of(x) is not None for x in v.items) and v.items:
                v.items = [fresh(kind_of(x), "h") for x in v.items]
            elif not v.items:
                raise Unsupported("loop mutates a list whose element type is unknown: add a `types` hint to the loop contract")
            else:
                for x in v.items:
                    havoc_value(eng, x, seen)
    elif isinstance(v, PDict):
        if v.items is None:
            nm = v.name
            v.dom = z3.Const(fresh_name(nm + "_dom"), v.dom.sort())
            v.val = z3.Const(fresh_name(nm + "_v"), v.val.sort())
            if v.lens is not None:
                v.lens = z3.Const(fresh_name(nm + "_l"), v.lens.sort())
                i = z3.Int(fresh_name("i"))
                eng.assume(z3.ForAll([i], z3.Select(v.lens, i) >= 0))
        else:
            hint = getattr(v, "hint", None)
            if hint is not None:
                v.promote(hint)
                if v.lens is not None:
                    i = z3.Int(fresh_name("i"))
                    eng.assume(z3.ForAll([i], z3.Select(v.lens, i) >= 0))
            else:
                for x in v.items.values():
                    havoc_value(eng, x, seen)
    elif isinstance(v, Obj):
        for k, x in list(v.fields.items()):
            if isinstance(x, Sym):
                v.fields[k] = fresh(x.kind, k)
            elif isinstance(x, bool):
                pass
            elif isinstance(x, int) and not isinstance(x, bool):
                v.fields[k] = x  # concrete ints in objects are configuration; keep
            elif hasattr(x, "__pyvc_fresh__"):  # immutable extension value (e.g. a symbolic string): the FIELD gets a fresh value, aliases keep theirs
                v.fields[k] = x.__pyvc_fresh__(eng)
            else:
                havoc_value(eng, x, seen)
    elif isinstance(v, DictListRef):
        havoc_value(eng, v.d, seen)
    elif hasattr(v, "__pyvc_havoc__"):  # extension values replace their own contents by unknowns
        v.__pyvc_havoc__(eng)
    elif type(v).__name__ == "DFrame":  # pandas frame model: every column's contents (row count and column set kept)
        for c in v.cols.values():
            havoc_value(eng, c, seen)


def _callee_mutates_self(eng, obj, mname):
    r = eng.find_method(obj.cls, mname) if isinstance(obj, Obj) else None
    if r is None or r[0] != "func":
        return False
    f = eng.func_from_py(r[1], r[2])
    if f is None:
        return False
    c = eng.registry.get(f.key)
    if c is not None:
        return bool(c.modifies)
    selfname = f.node.args.args[0].arg if f.node.args.args else None
    for x in ast.walk(f.node):
        if isinstance(x, (ast.Attribute, ast.Subscript)) and isinstance(x.ctx, ast.Store):
            b = x
            while isinstance(b, (ast.Attribute, ast.Subscript)):
                b = b.value
            if isinstance(b, ast.Name) and b.id == selfname:
                return True
        if isinstance(x, ast.Call) and isinstance(x.func, ast.Attribute) and x.func.attr in MUTATORS:
            b = x.func.value
            while isinstance(b, (ast.Attribute, ast.Subscript)):
                b = b.value
            if isinstance(b, ast.Name) and b.id == selfname:
                return True
    return False


def _lookup(eng, node, fr):
    """Evaluate an expression of the loop body only to FIND the object it denotes (the thing to havoc).  This is a look-up at the
    loop head, before the invariants are assumed, not an execution of the body: obligations it would emit (`path[len(path) - 1]`:
    index in bounds) are not obligations of the program -- the body's own execution emits them where they belong -- and their goals
    must not stay behind as assumptions either."""
    no = len(eng.obligs)
    try:
        return eng.ev(node, fr)
    finally:
        dropped = eng.obligs[no:]
        if dropped:
            del eng.obligs[no:]
            eng.pc[:] = [h for h in eng.pc if not any(h is ob.goal for ob in dropped)]


def havoc_loop_state(eng, nodes, fr, spec, extra_names=()):
    names, roots = analyse_mutation(eng, nodes, fr)
    names |= set(extra_names)
    types = (spec or {}).get("types", {})
    # type hints promote concrete containers to symbolic ones (in place)
    for nm, kinds in types.items():
        try:
            v = fr.lookup(nm)
        except ProgExc:
            continue
        if isinstance(v, (PList, PDict)) and v.items is not None:
            v.hint = kinds
    done = set()
    for r in roots:
        try:
            if isinstance(r, tuple) and r[0] == "attr":
                base = _lookup(eng, r[1], fr)
                if isinstance(base, Obj) and r[2] in base.fields:
                    cur = base.fields[r[2]]
                    if isinstance(cur, Sym):
                        base.fields[r[2]] = fresh(cur.kind, r[2])
                    elif isinstance(cur, (int, bool)) or cur is None:
                        k = types.get(r[2]) or ("bool" if isinstance(cur, bool) else "int")
                        base.fields[r[2]] = fresh(k, r[2])
                    else:
                        havoc_value(eng, cur, done)
                continue
            if isinstance(r, tuple) and r[0] == "call":
                base = _lookup(eng, r[1], fr)
                if isinstance(base, Obj) and _callee_mutates_self(eng, base, r[2]):
                    havoc_value(eng, base, done)
                continue
            v = _lookup(eng, r, fr)
        except (ProgExc, Unsupported):
            continue
        if isinstance(v, (SArr, NArr, PList, PDict, Obj, DictListRef)):
            havoc_value(eng, v, done)
    for extra in (spec or {}).get("modifies", []):
        # an expression of the loop's frame, or a callable fn(eng, frame) / fn(eng) -> value for state the body reaches only through
        # closures / ghost state that no program variable names
        if callable(extra):
            import inspect as _insp

            v = extra(eng, fr) if len(_insp.signature(extra).parameters) >= 2 else extra(eng)
        else:
            v = eng.ev(ast.parse(extra, mode="eval").body, fr if getattr(fr, "follow_outer", None) is None else Frame(vars=_visible(fr), globs=fr.globs))
        havoc_value(eng, v, done)
    for nm in sorted(names):
        f = fr
        if nm in fr.nonlocals:
            try:
                cur = fr.lookup(nm)
            except ProgExc:
                continue
        else:
            if nm not in fr.vars:
                continue
            cur = fr.vars[nm]
        k = types.get(nm) if isinstance(types.get(nm), str) else None
        rb = (spec or {}).get("rebind", {}).get(nm)
        if rb is not None and not isinstance(cur, (SArr, PList, PDict, NArr)):
            # a name the loop rebinds to an object / an optional object (`while child is not None: child = ...`): the loop
            # contract says what it may hold at the loop head
            if any(isinstance(x, ast.Name) and isinstance(x.ctx, ast.Store) and x.id == nm for x in _walk_no_defs(nodes)):
                fr.store(nm, rb(eng, cur))
                continue
        if (spec or {}).get("_followed") and isinstance(cur, Obj) and any(
                isinstance(x, ast.Name) and isinstance(x.ctx, ast.Store) and x.id == nm for x in _walk_no_defs(nodes)):
            raise Unsupported(f"followed loop rebinds the object variable {nm}: the loop contract of {spec.get('_fn')} has no `rebind` rule for it")
        if isinstance(cur, Sym):
            fr.store(nm, fresh(k or cur.kind, nm))
        elif kind_of(cur) is not None:
            fr.store(nm, fresh(k or kind_of(cur), nm))
        elif cur is None and k:
            fr.store(nm, fresh(k, nm))
        # containers bound to reassigned names: if the name is *rebound* in the
        # loop to another container we cannot track it
        elif isinstance(cur, (SArr, PList, PDict, NArr)):
            rebound = any(
                isinstance(x, ast.Name) and isinstance(x.ctx, ast.Store) and x.id == nm
                for x in _walk_no_defs(nodes)
            )
            if rebound:
                nv = (spec or {}).get("rebind", {}).get(nm)
                if nv is None:
                    raise Unsupported(f"loop rebinds container variable {nm}: give a `rebind` rule in the loop contract")
                fr.store(nm, nv(eng, cur))


def check_invs(eng, spec, fr, old_vars, entry_vars, label_prefix, phase, assume_only=False):
    for j, inv in enumerate(spec.get("invariant", [])):
        lab, text = split_label(inv, f"inv{j}")
        v = eval_clause(eng, text, _visible(fr), fr.globs, old_vars, entry_vars, extra=eng.spec_extra)
        if assume_only:
            eng.assume(v)
        else:
            eng.prove(f"{label_prefix}/{phase}/{lab}", v, "invariant")


def at_exit(eng, spec, fr, old_vars, entry_vars, label_prefix):
    """loop contract key `at_exit=[("label", clause)]`: proof annotations proved (then available as hypotheses) on the path that LEAVES
    the loop normally, from the invariants and the negated condition.  Same clause forms as `asserts_after`, but tied to the loop and not
    to the name of whatever local the carrier happens to assign next (a renamed local / reordered statement keeps the proof)."""
    for j, cl in enumerate(spec.get("at_exit", [])):
        lab, text = split_label(cl, f"x{j}")
        if callable(text):
            eng.cur_frame = fr
            eng.spec_mode += 1
            try:
                v = text(eng, dict(_visible(fr)), old_vars)
            finally:
                eng.spec_mode -= 1
            v = eng.truth(v)
        else:
            v = eval_clause(eng, text, _visible(fr), fr.globs, old_vars, entry_vars, extra=eng.spec_extra)
        eng.prove(f"{label_prefix}/exit/{lab}", v, "annotation")


def _visible(fr):
    d = {}
    outer = getattr(fr, "follow_outer", None)
    if outer is not None:  # a followed helper (pyvc/follow.py): clauses also see the variables of the frame that called it
        d.update(_visible(outer))
    chain = []
    f = fr
    while f is not None:
        chain.append(f)
        f = f.parent
    for f in reversed(chain):
        d.update(f.vars)
    return d


def _fn_label(eng, fr):
    key = fr.func.key if fr.func else (eng.cur_key or "?")
    return key.split(":")[-1]


def exec_while(eng, s, fr):
    spec, o = loop_spec(eng, fr, s)
    if spec is None:
        for _ in range(MAX_UNROLL):
            c = eng.truth(eng.ev(s.test, fr))
            if isinstance(c, Sym) and eng.spec_mode == 0 and not getattr(eng, "allow_symbolic_unroll", False):
                raise Unsupported(f"while loop #{o} in {_fn_label(eng, fr)} has a symbolic condition and no invariant")
            if not eng.branch(c):
                eng.exec_block(s.orelse, fr)
                return
            try:
                eng.exec_block(s.body, fr)
            except ContinueSig:
                continue
            except BreakSig:
                return
        raise Unsupported("unroll bound exceeded")
    pre = f"{spec.get('_fn') or _fn_label(eng, fr)}/loop{o}"
    if _yield_sink(fr, s.body) is not None and not _yield_described(spec):
        raise Unsupported(f"while loop #{o} in {_fn_label(eng, fr)} yields inside an invariant-cut loop whose contract does not describe `__yield__`")
    old_vars = eng.old_vars_of(fr)
    entry_vars = snapshot(_visible(fr))
    check_invs(eng, spec, fr, old_vars, entry_vars, pre, "entry")
    havoc_loop_state(eng, [s.test] + s.body, fr, spec)
    check_invs(eng, spec, fr, old_vars, entry_vars, pre, "assume", assume_only=True)
    c = eng.truth(eng.ev(s.test, fr))
    if eng.branch(c):
        d0 = None
        if spec.get("decreases"):
            d0 = _eval_term(eng, spec["decreases"], fr, old_vars, entry_vars)
            eng.prove(f"{pre}/variant/bounded", to_z3(d0, "int") >= 0, "termination")
        try:
            eng.exec_block(s.body, fr)
        except ContinueSig:
            pass
        except BreakSig:
            return
        check_invs(eng, spec, fr, old_vars, entry_vars, pre, "preserved")
        if d0 is not None:
            d1 = _eval_term(eng, spec["decreases"], fr, old_vars, entry_vars)
            eng.prove(f"{pre}/variant/decreases", to_z3(d1, "int") < to_z3(d0, "int"), "termination")
        raise PathEnd()
    at_exit(eng, spec, fr, old_vars, entry_vars, pre)
    eng.exec_block(s.orelse, fr)


def _eval_term(eng, text, fr, old_vars, entry_vars):
    from .spec import SPECLIB

    node = ast.parse(text, mode="eval").body
    g = dict(fr.globs)
    g.update(SPECLIB)
    g.update(eng.spec_extra)
    f2 = Frame(vars=_visible(fr), globs=g)
    f2.old_vars, f2.entry_vars = old_vars, entry_vars
    eng.spec_mode += 1
    try:
        return eng.ev(node, f2)
    finally:
        eng.spec_mode -= 1


class LoopYields:
    """Stands, in the eagerly collected output of a generator, for everything an invariant-cut loop yields:
    `count` iterations, each yielding exactly the items its `yields` clauses (proved per iteration) describe."""

    def __init__(self, ordinal, count, labels):
        self.ordinal, self.count, self.labels = ordinal, count, labels

    def __repr__(self):
        return f"LoopYields<loop{self.ordinal} x {self.count}>"


def _yield_described(spec):
    """style 2 of handling yields in a cut loop: the loop contract treats the generator's output list `__yield__` as
    loop state (promoted by `types`, or listed in `modifies`) and describes it in its invariants"""
    return "__yield__" in (spec.get("types") or {}) or "__yield__" in (spec.get("modifies") or [])


def _yield_sink(fr, body):
    """the enclosing generator's output list if the loop body yields, else None"""
    if not any(isinstance(x, (ast.Yield, ast.YieldFrom)) for x in _walk_no_defs(body)):
        return None
    f = fr
    while f is not None and not hasattr(f, "yield_sink"):
        f = f.parent
    return f.yield_sink if f is not None else None


def _append_loop(eng, s, fr, seqv):
    """the idiom   for x in S: [if c(x):] L.append(e(x))   over a symbolic-length S without a loop contract is the statement
    L.extend(e(x) for x in S [if c(x)])  (same elements, same order; c and e must not mention L).  Returns True when it applied."""
    if s.orelse or not isinstance(s.target, ast.Name) or len(s.body) != 1 or eng.spec_mode:
        return False
    st, test = s.body[0], None
    if isinstance(st, ast.If) and not st.orelse and len(st.body) == 1:
        st, test = st.body[0], st.test
    if not (isinstance(st, ast.Expr) and isinstance(st.value, ast.Call) and isinstance(st.value.func, ast.Attribute) and st.value.func.attr == "append"
            and isinstance(st.value.func.value, ast.Name) and len(st.value.args) == 1 and not st.value.keywords):
        return False
    lname, elt = st.value.func.value.id, st.value.args[0]
    for part in [elt] + ([test] if test is not None else []):
        if any(isinstance(x, ast.Name) and x.id == lname for x in ast.walk(part)) or any(isinstance(x, (ast.NamedExpr, ast.Yield, ast.YieldFrom, ast.Await)) for x in ast.walk(part)):
            return False
    later = False  # the loop variable keeps its last value after a real loop: refuse when it is read afterwards
    for x in ast.walk(fr.func.node) if fr.func is not None else ():
        if isinstance(x, ast.Name) and x.id == s.target.id and isinstance(x.ctx, ast.Load) and getattr(x, "lineno", 0) > getattr(s, "end_lineno", 0):
            later = True
    if later:
        return False
    lst = fr.lookup(lname)
    if not isinstance(lst, PList):
        return False
    gen = ast.GeneratorExp(elt=elt, generators=[ast.comprehension(target=ast.Name(id=s.target.id, ctx=ast.Store()), iter=s.iter,
                                                                  ifs=[test] if test is not None else [], is_async=0)])
    ast.copy_location(gen, s)
    ast.fix_missing_locations(gen)
    val = eng.models.comprehension_over(eng, gen, fr, "gen", seqv)
    eng.models.LIST_METHODS["extend"](eng, lst, [val], {})
    # the loop WAS the statement `L.extend(...)`: ghost code attached to that statement (keyed by its text) runs as it would after it
    synth = ast.Expr(value=ast.Call(func=ast.Attribute(value=ast.Name(id=lname, ctx=ast.Load()), attr="extend", ctx=ast.Load()), args=[gen], keywords=[]))
    ast.copy_location(synth, s)
    ast.fix_missing_locations(synth)
    eng.ghost_after_statement(synth, fr)
    return True


SMALL_LENGTH_CAP = 8


def _items_of_small_length(eng, seqv):
    """A loop WITHOUT a sidecar invariant over a sequence whose symbolic length the path condition bounds by a small constant (the
    rows a callee kept out of a table of five, `range(m)` with m <= 5 ...): the path forks on the length 0, 1, ..., cap and the loop
    unrolls on each fork.  Sound (a case split on a value the path condition confines to that range); None if no such bound is known.
    Only the quantifier-free conjuncts of the path condition are consulted."""
    from .engine import _has_quant

    try:
        n, getter = eng.models.as_sequence(eng, seqv)
    except Unsupported:
        return None
    if isinstance(n, int):
        return [getter(Sym(z3.IntVal(j), "int")) for j in range(n)]
    nz = n.z if isinstance(n, Sym) else zint(n)
    qf, stack = [], list(eng.pc)
    while stack:
        h = stack.pop()
        if z3.is_and(h):
            stack.extend(h.children())
        elif not _has_quant(h):
            qf.append(h)
    sol = z3.Solver()
    sol.set("timeout", 3000)
    sol.add(*qf)
    sol.add(z3.Or(nz < 0, nz > SMALL_LENGTH_CAP))
    if sol.check() != z3.unsat:
        return None
    for k in range(SMALL_LENGTH_CAP + 1):
        if eng.branch(eng.sbool(nz == k)):
            items = [getter(Sym(z3.IntVal(j), "int")) for j in range(k)]
            if isinstance(seqv, Iter):  # the loop takes its items out of a one-shot iterator
                seqv.consumed = True
            return items
    raise PathEnd()  # unreachable: the length is confined to 0..cap


def exec_for(eng, s, fr):
    spec, o = loop_spec(eng, fr, s)
    seqv = eng.ev(s.iter, fr)
    if spec is None:
        try:
            items = eng.models.iterate_concrete(eng, seqv)
        except Unsupported as e:
            if _append_loop(eng, s, fr, seqv):
                return
            items = _items_of_small_length(eng, seqv) if eng.spec_mode == 0 else None
            if items is None:
                raise Unsupported(f"for loop #{o} in {_fn_label(eng, fr)} iterates a symbolic sequence and has no invariant ({e})")
        for j, x in enumerate(items):
            eng.assign(s.target, x, fr)
            try:
                eng.exec_block(s.body, fr)
            except ContinueSig:
                continue
            except BreakSig:
                if isinstance(seqv, Iter) and seqv.consumed and j + 1 < len(items):  # a one-shot iterator keeps what the loop did not take
                    seqv.seq, seqv.consumed = PList(list(items[j + 1:])), False
                return
        eng.exec_block(s.orelse, fr)
        return
    eng.seq_effects = []  # a lazy sequence (extension value) lists here the state that evaluating one of its elements may modify
    try:
        n, getter = eng.models.as_sequence(eng, seqv)
    finally:
        seq_effects, eng.seq_effects = eng.seq_effects, None  # None: the consumer does not model laziness (lazy sequences refuse)
    pre = f"{spec.get('_fn') or _fn_label(eng, fr)}/loop{o}"
    kname = spec.get("index", f"_k{o}")
    old_vars = eng.old_vars_of(fr)
    fr.vars[kname] = 0
    entry_vars = snapshot(_visible(fr))
    check_invs(eng, spec, fr, old_vars, entry_vars, pre, "entry")
    tnames = {x.id for x in ast.walk(s.target) if isinstance(x, ast.Name)}
    havoc_loop_state(eng, s.body, fr, spec, extra_names=set())
    for v in seq_effects:  # the element of a lazy sequence is evaluated inside the iteration: its effects belong to the loop state
        havoc_value(eng, v)
    k = fresh("int", kname)
    fr.vars[kname] = k
    nz = zint(n) if not isinstance(n, Sym) else n.z
    eng.assume(z3.And(k.z >= 0, k.z <= nz))
    for t in tnames:
        fr.vars.pop(t, None)
    check_invs(eng, spec, fr, old_vars, entry_vars, pre, "assume", assume_only=True)
    # a cut loop inside a generator: the values yielded by the loop are described per iteration by the loop
    # contract's `yields` clauses [(label, fn(E, vars, new_items, k) -> Bool)]; without them the output would
    # silently lose the loop's yields on the exit path, so that is refused
    sink = _yield_sink(fr, s.body)
    if sink is not None and _yield_described(spec):
        sink = None  # the invariants speak about `__yield__` themselves
    if sink is not None and not spec.get("yields"):
        raise Unsupported(f"for loop #{o} in {_fn_label(eng, fr)} yields inside an invariant-cut loop: give `yields` clauses in the loop contract")
    if eng.branch(eng.sbool(k.z < nz)):
        eng.assign(s.target, getter(k), fr)
        m0 = len(sink.items) if sink is not None else 0
        try:
            eng.exec_block(s.body, fr)
        except ContinueSig:
            pass
        except BreakSig:
            if sink is not None:
                raise Unsupported("break inside a yielding invariant-cut loop")
            if isinstance(seqv, Iter) and not seqv.consumed:  # a one-shot iterator keeps what the loop did not take
                eng.models.iter_advance(eng, seqv, k.z + 1)
            eng.models.iteration_finished(eng, seqv, eng.snum(k.z + 1, "int"))
            return
        if sink is not None:
            for lab, fn in spec["yields"]:
                eng.prove(f"{pre}/yields/{lab}", fn(eng, _visible(fr), list(sink.items[m0:]), k), "yields")
        fr.vars[kname] = eng.snum(k.z + 1, "int")
        mark = len(eng.pc)
        check_invs(eng, spec, fr, old_vars, entry_vars, pre, "preserved")
        if spec.get("lookahead"):
            # loop contract option lookahead=True (2-induction for the body's own obligations): the NEXT iteration is executed
            # as well, from the state the body really produced -- what the invariant obligations above added as hypotheses is
            # dropped again -- so that the externally meaningful obligations inside the body (assertions of the contract's ghost
            # code, preconditions of calls, safety, exception flow) are also proved one iteration after an arbitrary state
            # satisfying the invariant.  On a carrier whose body no longer re-establishes an (internal) invariant this tells
            # whether a step claim of the property itself breaks.  Nothing is assumed: obligations of equal name are merged.
            if sink is not None:
                raise Unsupported("lookahead in a yielding invariant-cut loop")
            del eng.pc[mark:]
            k1 = eng.snum(k.z + 1, "int")
            if eng.branch(eng.sbool(to_z3(k1, "int") < nz)):
                eng.assign(s.target, getter(k1), fr)
                eng.in_lookahead = getattr(eng, "in_lookahead", 0) + 1
                try:
                    eng.exec_block(s.body, fr)
                except (ContinueSig, BreakSig):
                    pass
                finally:
                    eng.in_lookahead -= 1
        raise PathEnd()
    if sink is not None:
        sink.items.append(LoopYields(o, n, [lab for lab, _ in spec["yields"]]))
    if isinstance(seqv, Iter):
        seqv.consumed = True
    eng.models.iteration_finished(eng, seqv, n)
    at_exit(eng, spec, fr, old_vars, entry_vars, pre)
    eng.exec_block(s.orelse, fr)
