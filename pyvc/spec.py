"""Sidecar contracts and the specification vocabulary."""
from __future__ import annotations

import ast

import z3

from .engine import Frame, ProgExc, Unsupported
from .values import (
    DictListRef, Func, NArr, Obj, Opaque, PDict, PList, SArr, Sym, fresh, fresh_name, kind_of,
    sort_of, to_z3, zint,
)


class Contract:
    def __init__(self, key, prop=None, setup=None, requires=(), ensures=(), raises=None, loops=None,
                 modifies=(), returns=None, pure_inline=False, closure=None, notes="", cases=None,
                 inlined_loops=None, ghost_funcs=None, trusted=False, allow_exc=(), lemmas=(), variants=None, options=None, ghost_exit=None, ghost_entry=None):
        self.key = key
        self.prop = prop
        self.setup = setup
        self.requires = list(requires)
        self.ensures = list(ensures)
        self.raises = dict(raises or {})  # ExcName -> clause ("when it may/must be raised") or None
        self.loops = dict(loops or {})
        self.modifies = list(modifies)
        self.returns = returns
        self.pure_inline = pure_inline
        self.closure = closure
        self.notes = notes
        self.inlined_loops = dict(inlined_loops or {})
        self.ghost_funcs = dict(ghost_funcs or {})
        self.trusted = trusted  # assumed contract (never verified): listed in evidence
        self.allow_exc = tuple(allow_exc)
        self.lemmas = list(lemmas)
        self.variants = dict(variants) if variants else None
        self.options = dict(options or {})
        self.ghost_exit = ghost_exit
        self.ghost_entry = ghost_entry

    @property
    def short(self):
        return self.key.split(":")[-1]


class Registry(dict):
    """key -> contracts.  Several property modules may put the SAME function under contract (e.g. C05 proves
    sort_nodes_impl, C07 only assumes it): every registration is kept.  While property `current` is being verified a
    lookup prefers that property's own contract, then one of the properties it DEPENDS on (`scope`), then the first
    verified (non-assumed) one, then an assumed one."""

    def __init__(self):
        super().__init__()
        self.alts = {}
        self.current = None
        self.scope = ()

    def add(self, key=None, **kw):
        c = Contract(key, **kw)
        self.alts.setdefault(key, []).append(c)
        if key not in self.keys():
            dict.__setitem__(self, key, c)
        return c

    def get(self, key, default=None):
        alts = self.alts.get(key)
        if not alts:
            return default
        cp = getattr(self, "carrier_prop", None)  # the module that owns the carrier being verified right now
        if cp is not None:
            for c in alts:
                if c.prop == cp:
                    return c
        for c in alts:
            if c.prop == self.current:
                return c
        for c in alts:
            if c.prop in self.scope:
                return c
        for c in alts:
            if not c.trusted:
                return c
        return alts[0]

    def __setitem__(self, key, c):  # direct slot assignment (private slots of a contract module)
        self.alts[key] = [c]
        dict.__setitem__(self, key, c)

    def __getitem__(self, key):
        c = self.get(key)
        if c is None:
            raise KeyError(key)
        return c

    def values(self):
        return [c for alts in self.alts.values() for c in alts]


def split_label(clause, default):
    if isinstance(clause, tuple):
        return clause[0], clause[1]
    if "::" in clause:
        lab, ex = clause.split("::", 1)
        return lab.strip(), ex.strip()
    return default, clause.strip()


from .spec_fn import SpecFn  # noqa: E402


def _bound_vars(eng, lam, kinds=None):
    if not isinstance(lam, Func) or not isinstance(lam.node, ast.Lambda):
        raise Unsupported("quantifier body must be a lambda")
    names = [a.arg for a in lam.node.args.args]
    vs = []
    for nm in names:
        k = "int"
        if kinds and nm in kinds:
            k = kinds[nm]
        elif nm.startswith("r_"):
            k = "real"
        elif nm.startswith("b_"):
            k = "bool"
        vs.append(Sym(z3.Const(fresh_name("q_" + nm), sort_of(k)), k))
    return names, vs


def _quant(eng, args, kwargs, is_forall):
    if len(args) == 1:
        lo = hi = None
        lam = args[0]
    elif len(args) == 3:
        lo, hi, lam = args
    else:
        raise Unsupported("forall/exists take (lambda) or (lo, hi, lambda)")
    names, vs = _bound_vars(eng, lam)
    fr = Frame(parent=lam.frame, globs=lam.globs, func=lam)
    for nm, v in zip(names, vs):
        fr.vars[nm] = v
    body = eng.truth(eng.ev(lam.node.body, fr))
    bz = to_z3(body, "bool")
    if lo is not None:
        rng = z3.And(to_z3(lo, "int") <= vs[0].z, vs[0].z < to_z3(hi, "int"))
        bz = z3.Implies(rng, bz) if is_forall else z3.And(rng, bz)
    q = z3.ForAll([v.z for v in vs], bz) if is_forall else z3.Exists([v.z for v in vs], bz)
    return eng.sbool(q)


def _implies(eng, args, kwargs):
    a, b = args
    a, b = eng.truth(a), eng.truth(b)
    if a is False or b is True:
        return True
    if a is True:
        return b
    return eng.sbool(z3.Implies(to_z3(a, "bool"), to_z3(b, "bool")))


def _iff(eng, args, kwargs):
    a, b = eng.truth(args[0]), eng.truth(args[1])
    return eng.sbool(to_z3(a, "bool") == to_z3(b, "bool"))


def length_of(eng, v):
    if isinstance(v, (SArr,)):
        return v.n
    if isinstance(v, NArr):
        return v.shape[0]
    if type(v).__name__ == "DFrame":
        return v.n
    if isinstance(v, PList):
        return len(v.items) if v.items is not None else v.n
    if isinstance(v, DictListRef):
        return v.nz()
    if isinstance(v, (tuple, list, str, dict)):
        return len(v)
    if isinstance(v, PDict) and v.items is not None:
        return len(v.items)
    if isinstance(v, Opaque) and "__len__" in v.proto:
        return v.proto["__len__"](eng, v, [], {})
    if isinstance(v, Obj):
        return eng.call(eng.getattr_(v, "__len__"), [], {})
    raise Unsupported(f"len_ of {type(v).__name__}")


def _len(eng, args, kwargs):
    n = length_of(eng, args[0])
    if isinstance(n, z3.ExprRef):
        return eng.snum(n, "int")
    return n


def _ite(eng, args, kwargs):
    c, a, b = args
    c = eng.truth(c)
    if c is True:
        return a
    if c is False:
        return b
    ka, kb = kind_of(a), kind_of(b)
    k = ka if ka == kb else ("real" if "real" in (ka, kb) else "int")
    return Sym(z3.If(c.z, to_z3(a, k), to_z3(b, k)), k)


def _is_none(eng, args, kwargs):
    return args[0] is None


def _same(eng, args, kwargs):
    return eng.is_same(args[0], args[1])


def _indom(eng, args, kwargs):
    d, k = args
    if isinstance(d, PDict):
        if d.items is not None:
            return k in d.items
        return eng.sbool(z3.Select(d.dom, to_z3(k, "int")))
    raise Unsupported("indom")


def _abs(eng, args, kwargs):
    (a,) = args
    if not isinstance(a, Sym):
        return abs(a)
    return Sym(z3.If(a.z >= 0, a.z, -a.z), a.kind)


def _toreal(eng, args, kwargs):
    return Sym(to_z3(args[0], "real"), "real") if isinstance(args[0], Sym) else args[0]


def _min2(eng, args, kwargs):
    a, b = args
    k = "real" if "real" in (kind_of(a), kind_of(b)) else "int"
    za, zb = to_z3(a, k), to_z3(b, k)
    return eng.snum(z3.If(za <= zb, za, zb), k)


def _max2(eng, args, kwargs):
    a, b = args
    k = "real" if "real" in (kind_of(a), kind_of(b)) else "int"
    za, zb = to_z3(a, k), to_z3(b, k)
    return eng.snum(z3.If(za >= zb, za, zb), k)


def _alloc(eng, args, kwargs):
    """Allocation identity of a container (an int): alias iff equal."""
    v = args[0]
    return getattr(v, "uid", None)


def _fresh_in(eng, args, kwargs):
    """fresh(x): x was allocated during this call (its uid is not in the entry set)."""
    v = args[0]
    return getattr(v, "uid", None) not in eng.entry_uids


def _ncalls(eng, args, kwargs):
    return sum(1 for nm, _ in eng.call_log if nm == args[0])


def _callarg(eng, args, kwargs):
    name, j, pname = args
    hits = [v for nm, v in eng.call_log if nm == name]
    return hits[j][pname] if j < len(hits) else None


def _elems(eng, args, kwargs):
    v = args[0]
    from .values import Iter

    while isinstance(v, Iter):
        v = v.seq
    return v


SPECLIB = {
    "elems": SpecFn(_elems, "elems"),
    "ncalls": SpecFn(_ncalls, "ncalls"),
    "callarg": SpecFn(_callarg, "callarg"),
    "forall": SpecFn(lambda e, a, k: _quant(e, a, k, True), "forall"),
    "exists": SpecFn(lambda e, a, k: _quant(e, a, k, False), "exists"),
    "implies": SpecFn(_implies, "implies"),
    "iff": SpecFn(_iff, "iff"),
    "len_": SpecFn(_len, "len_"),
    "ite": SpecFn(_ite, "ite"),
    "is_none": SpecFn(_is_none, "is_none"),
    "same": SpecFn(_same, "same"),
    "indom": SpecFn(_indom, "indom"),
    "abs_": SpecFn(_abs, "abs_"),
    "real": SpecFn(_toreal, "real"),
    "min_": SpecFn(_min2, "min_"),
    "max_": SpecFn(_max2, "max_"),
    "alloc": SpecFn(_alloc, "alloc"),
    "is_fresh": SpecFn(_fresh_in, "is_fresh"),
}


def eval_clause(eng, text, vars, globs=None, old_vars=None, entry_vars=None, extra=None):
    """Evaluate a clause (Python expression text, or a callable(E, vars, old) that
    builds the formula directly) in specification mode."""
    if callable(text):
        eng.spec_mode += 1
        try:
            import inspect

            if "entry" in inspect.signature(text).parameters:  # (E, vars, old, entry): entry = state at loop entry
                return eng.truth(text(eng, dict(vars), old_vars, entry_vars))
            return eng.truth(text(eng, dict(vars), old_vars))
        finally:
            eng.spec_mode -= 1
    node = ast.parse(text.strip(), mode="eval").body
    g = dict(globs or {})
    g.update(SPECLIB)
    if extra:
        g.update(extra)
    fr = Frame(vars=dict(vars), globs=g)
    fr.old_vars = old_vars
    fr.entry_vars = entry_vars
    eng.spec_mode += 1
    prev = getattr(eng, "spec_frame", None)
    eng.spec_frame = fr
    try:
        v = eng.ev(node, fr)
        return eng.truth(v)
    except ProgExc as e:
        raise Unsupported(f"clause raised {e}: {text}")
    finally:
        eng.spec_mode -= 1
        eng.spec_frame = prev
