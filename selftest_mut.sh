#!/bin/sh
# usage: selftest_mut.sh <prop> <file> <sed-expr> [check args]   -- run a check against a mutated scratch copy of /repo
set -e
prop=$1; file=$2; expr=$3; shift 3
S=${VERIF_MUT_DIR:-/var/tmp/verif-mut}-$$
rm -rf $S; mkdir -p $S; rsync -a --exclude .git /repo/ $S/
sed -i "$expr" $S/$file
if diff -q /repo/$file $S/$file >/dev/null; then echo "MUTATION DID NOT APPLY"; rm -rf $S; exit 9; fi
set +e
VERIF_REPO=$S "$(dirname "$0")"/check $prop "$@"
rc=$?
rm -rf $S
echo "mutant exit=$rc"
