"""C13 — closed-form primitive volumes against solid-of-revolution integral specs.

Spec (trusted definition): a solid of revolution with profile rho(z) on [a,b] has
volume pi * integral_a^b rho(z)^2 dz.  The antiderivatives used below
(sphere slab: r^2 z - z^3/3; linear profile: cubic) are checked by symbolic
differentiation (sympy) in the thorough tier (bounded/C13 also integrates numerically).
"""
import z3

from pyvc.spec import Registry
from pyvc.values import NArr, Sym, fresh_name, to_z3

VO = "swcgeom/utils/volumetric_object.py"
SG = "swcgeom/utils/solid_geometry.py"
PI = z3.Real("pi")


def R(v):
    return to_z3(v, "real")


def F(r, z):
    """antiderivative of rho_S(z)^2 = r^2 - z^2"""
    return r * r * z - z * z * z / 3


def G(r1, r2, h, z):
    """antiderivative of rho_F(z)^2, rho_F(z) = r1 + (r2 - r1) z / h   (h != 0)"""
    k = (r2 - r1) / h
    return r1 * r1 * z + r1 * k * z * z + k * k * z * z * z / 3


def V_sphere(r):
    return PI * (F(r, r) - F(r, -r))


def V_cap(r, hh):
    return PI * (F(r, r) - F(r, r - hh))


def V_fr(r1, r2, h):
    return PI * (G(r1, r2, h, h) - G(r1, r2, h, 0))


def V_lens(r1, r2, d):
    """two spheres at distance d: 0 if disjoint/tangent, the smaller sphere if nested,
    else the two slabs split at the radical plane x0 = (d^2 + r1^2 - r2^2) / 2d."""
    x0 = (d * d + r1 * r1 - r2 * r2) / (2 * d)
    mn = z3.If(r1 <= r2, r1, r2)
    ad = z3.If(r1 - r2 >= 0, r1 - r2, r2 - r1)
    return z3.If(d >= r1 + r2, z3.RealVal(0), z3.If(d <= ad, V_sphere(mn), PI * (F(r1, r1) - F(r1, x0)) + PI * (F(r2, r2) - F(r2, d - x0))))


def zmin(a, b):
    return z3.If(a <= b, a, b)


def sf_split(r1, r2, h):
    """sphere (radius r1, centred on the frustum end of radius r1) against the frustum profile rho_F(z) = r1 + (r2 - r1) z / h:
    the frustum profile is the smaller one on [0, m], the sphere profile on [m, min(h, r1)]
    (m = 0 if the frustum does not taper; else the crossing z* = 2 r1 (r1 - r2) h / (h^2 + (r1 - r2)^2), cut at h).
    Justified by lemma `sf-split-point-is-the-profile-crossing` (contracts/C14.py: lemmas)."""
    zs = 2 * r1 * (r1 - r2) * h / (h * h + (r1 - r2) * (r1 - r2))
    return z3.If(r2 >= r1, z3.RealVal(0), zmin(zs, h))


def V_sf(r1, r2, h):
    """volume of sphere ∩ frustum sharing centre and end radius r1 = pi * integral over [0, min(h, r1)] of min(rho_S, rho_F)^2"""
    m = sf_split(r1, r2, h)
    top = zmin(h, r1)
    return PI * (G(r1, r2, h, m) - G(r1, r2, h, 0)) + PI * (F(r1, top) - F(r1, m))


def sphere_obj(S, name="s"):
    from swcgeom.utils.volumetric_object import VolSphere

    c = NArr((3,), [S.real(f"{name}_c{k}") for k in "xyz"], "real")
    r = S.real(f"{name}_r")
    S.assume(r.z > 0)
    return S.obj(VolSphere, center=c, radius=r)


def dist2(a: NArr, b: NArr):
    return sum(((R(x) - R(y)) * (R(x) - R(y)) for x, y in zip(a.items, b.items)), z3.RealVal(0))


def register(Rg: Registry):
    register_concentric(Rg)
    Rg.add(f"{VO}:VolSphere.calc_volume", prop="C13", pure_inline=True,
           setup=lambda S: dict(radius=S.real("r")), requires=["radius > 0"],
           ensures=[("equals-integral-of-the-sphere-profile", lambda E, v, o: R(v["result"]) == V_sphere(R(v["radius"])))])
    Rg.add(f"{VO}:VolSphere.calc_volume_spherical_cap", prop="C13", pure_inline=True,
           setup=lambda S: dict(r=S.real("r"), h=S.real("h")), requires=["r > 0", "0 <= h and h <= 2 * r"],
           ensures=[("equals-integral-over-the-cap-slab", lambda E, v, o: R(v["result"]) == V_cap(R(v["r"]), R(v["h"])))])
    Rg.add(f"{VO}:VolFrustumCone.calc_volume", prop="C13", pure_inline=True,
           setup=lambda S: dict(r1=S.real("r1"), r2=S.real("r2"), height=S.real("h")), requires=["r1 >= 0 and r2 >= 0", "height > 0"],
           ensures=[("equals-integral-of-the-linear-profile", lambda E, v, o: R(v["result"]) == V_fr(R(v["r1"]), R(v["r2"]), R(v["height"])))])

    def frustum_obj(S, name="f"):
        from swcgeom.utils.volumetric_object import VolFrustumCone

        c1 = NArr((3,), [S.real(f"{name}_a{k}") for k in "xyz"], "real")
        c2 = NArr((3,), [S.real(f"{name}_b{k}") for k in "xyz"], "real")
        r1, r2 = S.real(f"{name}_r1"), S.real(f"{name}_r2")
        S.assume(z3.And(r1.z > 0, r2.z > 0))
        return S.obj(VolFrustumCone, c1=c1, c2=c2, r1=r1, r2=r2)

    Rg.add(f"{VO}:VolFrustumCone.height", prop="C13", pure_inline=True,
           setup=lambda S: dict(self=frustum_obj(S)),
           ensures=[("is-the-distance-of-the-end-centres", lambda E, v, o: z3.And(R(v["result"]) >= 0, R(v["result"]) * R(v["result"]) == dist2(v["self"].fields["c1"], v["self"].fields["c2"])))])

    def lens_post(E, v, o):
        s1, s2 = v["obj1"], v["obj2"]
        d = z3.Real(fresh_name("d"))
        E.assume(z3.And(d >= 0, d * d == dist2(s1.fields["center"], s2.fields["center"])))
        return R(v["result"]) == V_lens(R(s1.fields["radius"]), R(s2.fields["radius"]), d)

    Rg.add(f"{VO}:VolSphere2Intersection.calc_intersect_volume", prop="C13", pure_inline=True,
           setup=lambda S: dict(obj1=sphere_obj(S, "s1"), obj2=sphere_obj(S, "s2")),
           ensures=[("equals-the-lens-integral-in-every-position", lens_post)])

    def union_obj(S):
        from swcgeom.utils.volumetric_object import VolSphere2Union

        return S.obj(VolSphere2Union, obj1=sphere_obj(S, "s1"), obj2=sphere_obj(S, "s2"))

    def union_post(E, v, o):
        u = v["self"]
        s1, s2 = u.fields["obj1"], u.fields["obj2"]
        d = z3.Real(fresh_name("d"))
        E.assume(z3.And(d >= 0, d * d == dist2(s1.fields["center"], s2.fields["center"])))
        r1, r2 = R(o["self"].fields["obj1"].fields["radius"]), R(o["self"].fields["obj2"].fields["radius"])
        return R(v["result"]) == V_sphere(r1) + V_sphere(r2) - V_lens(r1, r2, d)

    Rg.add(f"{VO}:VolSphere2Union._get_volume", prop="C13",
           setup=lambda S: dict(self=union_obj(S)),
           ensures=[("inclusion-exclusion-with-the-lens", union_post)])

    # ------------------------------------------------------------- solid geometry
    def unit3(S, name):
        a = [S.real(f"{name}{k}") for k in "xyz"]
        S.assume(a[0].z * a[0].z + a[1].z * a[1].z + a[2].z * a[2].z == 1)
        return NArr((3,), a, "real")

    def vec3(S, name):
        return NArr((3,), [S.real(f"{name}{k}") for k in "xyz"], "real")

    # find_unit_vector_on_plane: the contract is its PURPOSE -- for every non-zero normal the result is a unit vector orthogonal to it
    # (a fresh array; the argument is not written).  Nothing in the clauses or in the proof hints names a local of the carrier: the
    # hints look at VALUES (3-vectors among the locals, quotients inside the result), so a renamed local or a different but correct way
    # of producing the vector is judged by the same two equations.
    def _dot3(a, b):
        return sum((R(x) * R(y) for x, y in zip(a, b)), z3.RealVal(0))

    def fuv_post(E, v, o):
        res = v["result"]
        if not (isinstance(res, NArr) and res.shape == (3,)):
            return False
        u, n = res.items, o["normal_vec3"].items
        return z3.And(_dot3(u, u) == 1, _dot3(u, n) == 0)

    def fuv_frame(E, v, o):
        res, n_new, n_old = v["result"], v["normal_vec3"], o["normal_vec3"]
        if not (isinstance(res, NArr) and isinstance(n_new, NArr) and n_new.shape == (3,)):
            return False
        if res.root().uid == n_new.root().uid:
            return False
        return z3.And(*[R(x) == R(y) for x, y in zip(n_new.items, n_old.items)])

    from pyvc.lemmas import LEMMAS, lemma as _lem, use

    def _cr(r, n):
        return (r[1] * n[2] - r[2] * n[1], r[2] * n[0] - r[0] * n[2], r[0] * n[1] - r[1] * n[0])

    if "cross-product-of-a-scaled-vector" not in LEMMAS:
        @_lem("cross-product-of-a-scaled-vector", 7)
        def _scaled_cross(a, b, c, y, n0, n1, n2):
            lhs, rhs = _cr((a / y, b / y, c / y), (n0, n1, n2)), _cr((a, b, c), (n0, n1, n2))
            return z3.Implies(y != 0, z3.And(*[y * p == q for p, q in zip(lhs, rhs)]))

    def _vectors(vars):
        """the 3-vectors of reals among the carrier's locals (by VALUE, whatever they are called)"""
        out, seen = [], set()
        for x in vars.values():
            if isinstance(x, NArr) and x.shape == (3,) and x.uid not in seen and all(kind_of_real(i) for i in x.items):
                seen.add(x.uid)
                out.append(x)
        return out

    def kind_of_real(i):
        return isinstance(i, Sym) or isinstance(i, (int, float)) or hasattr(i, "numerator")

    def _quotients(items):
        """(numerators, common denominator) when every item is a quotient by one and the same term"""
        zs = [R(x) for x in items]
        if all(z3.is_app(q) and q.decl().kind() == z3.Z3_OP_DIV for q in zs) and all(q.arg(1).eq(zs[0].arg(1)) for q in zs):
            return [q.arg(0) for q in zs], zs[0].arg(1)
        return None

    def fuv_div_hint(E, vars):
        """before a division: a sum of three squares vanishes only if every term does; a vector whose cross product with a UNIT
        vector vanishes is that vector or its opposite (so a np.allclose test against +-normal would have rejected it); the cross
        product of a normalised vector is the cross product divided by the norm"""
        n = [R(x) for x in E.top_old["normal_vec3"].items]
        for vec in _vectors(vars):
            w = [R(x) for x in vec.items]
            use(E, "sum-of-three-squares-zero", *w)
            use(E, "zero-cross-product-means-parallel", *w, *n)
            use(E, "parallel-unit-vectors-are-equal-or-opposite", *w, *n, w[0] * n[0] + w[1] * n[1] + w[2] * n[2])
            if vec.uid not in E.ghost.setdefault("c13-fuv-steps", set()):
                E.ghost["c13-fuv-steps"].add(vec.uid)
                cr = _cr(w, n)  # pure geometry, true of ANY vector w: stated once per vector as a step of its own
                E.prove("find_unit_vector_on_plane/step/a-unit-vector-whose-cross-product-with-a-unit-normal-vanishes-is-plus-or-minus-the-normal",
                        z3.Implies(z3.And(_dot3(n, n) == 1, _dot3(w, w) == 1, cr[0] == 0, cr[1] == 0, cr[2] == 0),
                                   z3.Or(z3.And(*[a == b for a, b in zip(w, n)]), z3.And(*[a == -b for a, b in zip(w, n)]))), "annotation")
            q = _quotients(vec.items)
            if q is not None:
                use(E, "cross-product-of-a-scaled-vector", *q[0], q[1], *n)

    def fuv_post_hint(E, vars):
        """the result as the code built it: (a, b, c) / y  -- unit if y is the norm, orthogonal to whatever (a, b, c) is orthogonal to;
        a cross product is orthogonal to both factors"""
        n = [R(x) for x in E.top_old["normal_vec3"].items]
        for vec in _vectors(vars):  # the result is one of them
            q = _quotients(vec.items)
            if q is not None:
                use(E, "normalised-vector-is-unit", *q[0], q[1])
                use(E, "scaled-vector-stays-orthogonal", *q[0], q[1], *n)
            use(E, "cross-product-is-orthogonal", *[R(x) for x in vec.items], *n)

    def fuv_draw_is_generic(E, draw):
        """ALMOST-SURE hypothesis on the random oracle (a requirement on the draws, assumed where np.random.rand is called): the draw is
        not parallel to the normal -- needed only when the normal is not a unit vector (for a unit normal the code's own rejection
        test excludes it).  The excluded draws lie on one line through the origin: a null set of the cube [0, 1)^3."""
        n = [R(x) for x in E.top_old["normal_vec3"].items]
        d = [R(x) for x in draw.items]
        return z3.Or(_dot3(n, n) == 1, *[c != 0 for c in _cr(d, n)])

    def _loop_vector(v, o):
        vs = [x for x in _vectors(v) if x.uid != v["normal_vec3"].uid]
        if len(vs) != 1:
            from pyvc.engine import Unsupported

            raise Unsupported("find_unit_vector_on_plane: the rejection loop is expected to carry exactly one 3-vector")
        return [R(x) for x in vs[0].items]

    class _AnyName(dict):
        """loop-contract entry that applies to whatever name the loop rebinds"""

        def __init__(self, rule):
            super().__init__()
            self.rule = rule

        def get(self, nm, default=None):
            return self.rule

    def _fresh_vec(eng, cur):
        from pyvc.values import fresh

        return NArr((3,), [fresh("real", "r") for _ in range(3)], "real")

    Rg.add(f"{SG}:find_unit_vector_on_plane", prop="C13",
           variants={"unit-normal": lambda S: dict(normal_vec3=unit3(S, "n")),  # a case split of the one contract (every non-zero normal)
                     "normal-of-any-other-length": lambda S: (lambda n: (S.assume(_dot3(n.items, n.items) != 1), dict(normal_vec3=n))[1])(vec3(S, "n"))},
           requires=[("normal-is-not-the-zero-vector", lambda E, v, o: _dot3(v["normal_vec3"].items, v["normal_vec3"].items) > 0)],
           returns=lambda S, fr: (lambda a: a)(NArr((3,), [S.real(f"u{k}") for k in "xyz"], "real")),
           ensures=[("unit-and-orthogonal-to-the-normal", fuv_post),
                    ("result-is-a-fresh-array-and-the-normal-is-not-written", fuv_frame)],
           loops={0: dict(invariant=[("candidate-is-a-unit-vector", lambda E, v, o: (lambda w: _dot3(w, w) == 1)(_loop_vector(v, o))),
                                     ("candidate-is-not-parallel-to-a-non-unit-normal",
                                      lambda E, v, o: (lambda w, n: z3.Or(_dot3(n, n) == 1, *[c != 0 for c in _cr(w, n)]))(_loop_vector(v, o), [R(x) for x in o["normal_vec3"].items]))],
                          rebind=_AnyName(_fresh_vec))},
           options=dict(almost_surely=[("random-draw-not-parallel-to-a-non-unit-normal", fuv_draw_is_generic)],
                        hints={"safety/div-nonzero": fuv_div_hint, "candidate-is-not-parallel-to-a-non-unit-normal": fuv_div_hint,
                               "post/unit-and-orthogonal-to-the-normal": fuv_post_hint}),
           notes="every non-zero normal; np.random.rand is an arbitrary vector of [0, 1)^3; termination of the rejection loop is not proved (probability-1 argument)")

    def ppl_post(E, v, o):
        A, n, P, M = o["point_a"].items, o["direction_vector"].items, o["point_p"].items, v["result"].items
        dot = lambda a, b: sum((R(x) * R(y) for x, y in zip(a, b)), z3.RealVal(0))
        t = z3.Real(fresh_name("t"))
        on_line = z3.Exists([t], z3.And(*[R(M[k]) == R(A[k]) + t * R(n[k]) for k in range(3)]))
        perp = dot([R(P[k]) - R(M[k]) for k in range(3)], n) == 0
        return z3.And(perp, on_line)

    Rg.add(f"{SG}:project_point_on_line", prop="C13", pure_inline=True,
           setup=lambda S: dict(point_a=vec3(S, "a"), direction_vector=unit3(S, "n"), point_p=vec3(S, "p")),
           ensures=[("foot-of-the-perpendicular", ppl_post)])

    def fsl_post(which):
        """every returned (t, p) is a root of |A + tD - C|^2 = r^2 with p = A + tD, roots ascending;
        no root is missed: an empty list means the equation has no real root"""

        def f(E, v, o):
            A, B, C = o["line_point_a"].items, o["line_point_b"].items, o["sphere_center"].items
            rr = R(o["sphere_radius"])
            D = [R(B[k]) - R(A[k]) for k in range(3)]
            items = v["result"].items
            a, b, c = R(v["a"]), R(v["b"]), R(v["c"])

            def on(t):
                return sum(((R(A[k]) + t * D[k] - R(C[k])) * (R(A[k]) + t * D[k] - R(C[k])) for k in range(3)), z3.RealVal(0)) == rr * rr

            tt = z3.Real(fresh_name("t"))
            if which == "quadratic-form":
                # the code's a, b, c are the coefficients of |A + tD - C|^2 - r^2 as a polynomial in t
                return z3.ForAll([tt], on(tt) == (a * tt * tt + b * tt + c == 0))
            if which == "points-on-the-line":
                return z3.And(*[R(p.items[k]) == R(A[k]) + R(t) * D[k] for (t, p) in items for k in range(3)]) if items else True
            if which == "roots":
                cl = []
                if items:
                    y = E.sqrt(v["discriminant"]) if len(items) == 2 else 0
                    for (t, p) in items:
                        use(E, "quadratic-root", a, b, c, R(y), R(t))
                        cl.append(a * R(t) * R(t) + b * R(t) + c == 0)
                    if len(items) == 2:
                        cl.append(R(items[0][0]) <= R(items[1][0]))
                else:
                    use(E, "no-real-root-when-discriminant-negative", a, b, c, tt)
                    cl.append(a * tt * tt + b * tt + c != 0)
                return z3.And(*cl)

        return f

    Rg.add(f"{SG}:find_sphere_line_intersection", prop="C13", pure_inline=True,
           setup=lambda S: dict(sphere_center=vec3(S, "c"), sphere_radius=S.real("r"), line_point_a=vec3(S, "a"), line_point_b=vec3(S, "b")),
           requires=["sphere_radius > 0", ("distinct-line-points", lambda E, v, o: dist2(v["line_point_a"], v["line_point_b"]) > 0)],
           ensures=[("returns-exactly-the-real-roots-in-order", fsl_post("roots")),
                    ("points-lie-on-the-line-at-their-parameter", fsl_post("points-on-the-line")),
                    ("coefficients-are-those-of-the-sphere-equation", fsl_post("quadratic-form"))],
           options=dict(backend_first=["coefficients-are-those-of-the-sphere-equation"]))  # the quantified polynomial identity: cvc5 < 1 s, z3 times out (then hands over to cvc5 anyway)


# ===========================================================================
# sphere / frustum sharing centre and end radius
# The tolerance constants of the UNCHANGED library, as literals (a change of `eps` in the code must not move the contract with it)
EPS = z3.RealVal("1/1000000")  # volumetric_object.eps
RTOL, ATOL = z3.RealVal("1/100000"), z3.RealVal("1/100000000")  # numpy's defaults of np.allclose / np.isclose


def outside_tolerance_bands(ra, rb, h2, at_c1=None):
    """POSE-INDEPENDENT precondition of the exact statement: ra = radius of the sphere = radius of the frustum end it sits on, rb = radius of
    the other end, h2 = squared distance of the end centres.  Nothing to ask when the frustum does not get thinner away from the sphere
    (rb >= ra).  Otherwise the unchanged code deliberately treats three narrow bands inexactly, and the exact statement excludes them:
      * `r2 - r1 >= -eps`: radii closer than eps count as equal (the no-taper formula is used);
      * `np.allclose(radius, other end's radius)` (|ra - rb| <= atol + rtol rb): the sphere may be matched to the other end; this test is
        reached only for a sphere on the c2 end (the c1 end is tried first), so it is asked only there (at_c1 = "the sphere sits on c1");
      * `t > 1 + eps`: the slant line leaves the sphere at parameter tau = 2 ra (ra - rb) / (h2 + (ra - rb)^2); for 1 < tau <= 1 + eps the
        general formula is used beyond the far rim.
    No coordinate occurs: whatever the code does differently for the same radii and distances at another place is NOT excused here."""
    return z3.And(z3.Not(in_radius_band(ra, rb, at_c1)), outside_t_band(ra, rb, h2))


def in_radius_band(ra, rb, at_c1=None):
    """the far end is thinner than the sphere's end, but by so little that the code may treat the two radii as EQUAL: by at most eps
    (`r2 - r1 >= -eps`), or -- for a sphere on the c2 end only -- within np.allclose's tolerance of the other radius"""
    match = ra - rb <= ATOL + RTOL * rb
    if at_c1 is not None:
        match = z3.And(z3.Not(at_c1), match)
    return z3.And(rb < ra, z3.Or(ra - rb <= EPS, match))


def outside_t_band(ra, rb, h2):
    """the slant line does not leave the sphere at a parameter 1 < tau <= 1 + eps  (tau = 2 ra (ra - rb) / (h2 + (ra - rb)^2)); nothing to ask
    when the radii differ by at most eps (the code never computes tau then)"""
    num, den = 2 * ra * (ra - rb), h2 + (ra - rb) * (ra - rb)
    return z3.Or(ra - rb <= EPS, z3.Not(z3.And(num > den, num <= (1 + EPS) * den)))


def _concentric_setup(end, taper=None):
    """sphere centred on the `end` of a frustum of height hh along the unit axis u; taper: None = any radii,
    True = the far end is thinner than the sphere's end (r2 < r1), False = it is not (r2 >= r1)"""

    def setup(S):
        from swcgeom.utils.volumetric_object import VolFrustumCone, VolSphere

        c = [S.real(f"c{k}") for k in "xyz"]
        u = [S.real(f"u{k}") for k in "xyz"]
        S.assume(u[0].z * u[0].z + u[1].z * u[1].z + u[2].z * u[2].z == 1)
        hh, r1, r2 = S.real("hh"), S.real("r1"), S.real("r2")
        S.assume(z3.And(hh.z > 0, r1.z > 0, r2.z > 0))
        if taper is not None:
            S.assume(r2.z < r1.z if taper else r2.z >= r1.z)
        far = [Sym(c[k].z + hh.z * u[k].z, "real") for k in range(3)]
        sphere = S.obj(VolSphere, center=NArr((3,), list(c), "real"), radius=r1)
        if end == "c1":
            fr = S.obj(VolFrustumCone, c1=NArr((3,), list(c), "real"), r1=r1, c2=NArr((3,), far, "real"), r2=r2)
        else:
            fr = S.obj(VolFrustumCone, c2=NArr((3,), list(c), "real"), r2=r1, c1=NArr((3,), far, "real"), r1=r2)
        return dict(sphere=sphere, frustum_cone=fr, hh=hh, r1=r1, r2=r2, axis_u=NArr((3,), list(u), "real"))

    return setup


def V_sf_widening(r1, h):
    """sphere (radius r1) ∩ frustum whose radius does not shrink away from the shared end:
    the sphere profile is the smaller one on [0, min(h, r1)]"""
    top = z3.If(h <= r1, h, r1)
    return PI * (F(r1, top) - F(r1, 0))


# --- small abstract lemmas used to LINEARISE the vector algebra of the taper branch: every use multiplies a known equation by an
# explicit factor (or cancels an explicit quotient), so that what the solver has left is linear arithmetic over the monomials
from pyvc.lemmas import lemma as _lemma  # noqa: E402


@_lemma("equation-times-a-factor", 3)
def _scale(k, s, c):
    return z3.Implies(s == c, k * s == k * c)


@_lemma("quotient-equals", 3)
def _quot(num, den, val):
    return z3.Implies(z3.And(den != 0, num == val * den), num / den == val)


@_lemma("product-with-an-equal-factor", 3)
def _subst(q, val, w):
    return z3.Implies(q == val, q * w == val * w)


@_lemma("nonneg-roots-of-equal-squares-coincide", 2)
def _roots(a, b):
    return z3.Implies(z3.And(a >= 0, b >= 0, a * a == b * b), a == b)


@_lemma("product-of-nonnegatives", 2)
def _prod_nonneg(a, b):
    return z3.Implies(z3.And(a >= 0, b >= 0), a * b >= 0)


@_lemma("product-of-positives", 2)
def _prod_pos(a, b):
    return z3.Implies(z3.And(a > 0, b > 0), a * b > 0)


@_lemma("positive-factor-of-a-positive-product", 2)
def _factor_pos(a, b):
    return z3.Implies(z3.And(a * b > 0, b > 0), a > 0)


@_lemma("scaling-a-nonnegative-by-at-most-one", 2)
def _scale_le(t, w):
    return z3.Implies(z3.And(t <= 1, w >= 0), t * w <= w)


@_lemma("strictly-larger-factor-strictly-larger-product", 3)
def _mono_strict(a, b, w):
    return z3.Implies(z3.And(a < b, w > 0), a * w < b * w)


@_lemma("larger-factor-larger-product", 3)
def _mono(a, b, w):
    return z3.Implies(z3.And(a <= b, w >= 0), a * w <= b * w)


def _cap(r, hh):
    return PI * hh * hh * (3 * r - hh) / 3


def _frc(ra, rb, hh):
    return z3.RealVal(1) / 3 * PI * hh * (ra * ra + ra * rb + rb * rb)


# the code's case formulas of the taper branch, with tau the larger parameter at which the slant line leaves the sphere
# (tau * (h^2 + (r2 - r1)^2) = 2 r1 (r1 - r2)), give the integral spec V_sf
def _tau_def(r1, r2, h, tau):
    return tau * (h * h + (r2 - r1) * (r2 - r1)) == 2 * r1 * (r1 - r2)


@_lemma("taper-case/frustum-inside-the-sphere", 4)
def _taper_inside(r1, r2, h, tau):
    return z3.Implies(z3.And(r1 > 0, r2 > 0, h > 0, r2 < r1, _tau_def(r1, r2, h, tau), tau > 1), _frc(r1, r2, h) == V_sf(r1, r2, h))


@_lemma("taper-case/frustum-higher-than-the-sphere", 4)
def _taper_higher(r1, r2, h, tau):
    return z3.Implies(z3.And(r1 > 0, r2 > 0, h > 0, r2 < r1, _tau_def(r1, r2, h, tau), tau <= 1, h >= r1),
                      _cap(r1, r1 - tau * h) + _frc(r1, r1 + tau * (r2 - r1), tau * h) == V_sf(r1, r2, h))


@_lemma("taper-case/frustum-lower-than-the-sphere", 4)
def _taper_lower(r1, r2, h, tau):
    return z3.Implies(z3.And(r1 > 0, r2 > 0, h > 0, r2 < r1, _tau_def(r1, r2, h, tau), tau <= 1, h < r1),
                      _cap(r1, r1 - tau * h) + _frc(r1, r1 + tau * (r2 - r1), tau * h) - _cap(r1, r1 - h) == V_sf(r1, r2, h))


def _dot(a, b):
    return sum((x * y for x, y in zip(a, b)), z3.RealVal(0))


def _div_subterms(z):
    out, stack, seen = [], [z], set()
    while stack:
        x = stack.pop()
        if x.get_id() in seen:
            continue
        seen.add(x.get_id())
        if z3.is_app(x):
            if x.decl().kind() == z3.Z3_OP_DIV:
                out.append(x)
            stack.extend(x.children())
    return out


def _has_numeral(z, q):
    """does the term contain the rational numeral q?"""
    stack, seen = [z], set()
    while stack:
        x = stack.pop()
        if x.get_id() in seen:
            continue
        seen.add(x.get_id())
        if z3.is_rational_value(x):
            if x.eq(q):
                return True
            continue
        if z3.is_quantifier(x):
            stack.append(x.body())
        elif z3.is_app(x):
            stack.extend(x.children())
    return False


def _mentions(z, consts):
    """does the term contain one of the given uninterpreted constants?"""
    ids = {c.get_id() for c in consts if z3.is_const(c)}
    stack, seen = [z], set()
    while stack:
        x = stack.pop()
        if x.get_id() in seen:
            continue
        seen.add(x.get_id())
        if x.get_id() in ids:
            return True
        if z3.is_quantifier(x):
            stack.append(x.body())
        elif z3.is_app(x):
            stack.extend(x.children())
    return False


def register_concentric(Rg):
    from pyvc.interp import Rewrite
    from pyvc.lemmas import use

    def note_entry(E, fr):
        E.ghost["c13-entry-context-size"] = len(E.pc)

    def forget_tolerance_tests(E):
        """WEAKENING of the proof context (always sound): the outcomes of the np.allclose tests that chose the frustum end (and of any
        other relative-tolerance test made since entry) are dropped from the hypotheses once the choice has been turned into plain
        equations.  They are disjunctions of |.| comparisons over products of coordinates: no later step needs them, and the
        nonlinear solver is slowed down by them a hundredfold."""
        n0 = E.ghost.get("c13-entry-context-size", len(E.pc))
        centre = [R(x) for x in E.top_old["sphere"].fields["center"].items]

        def drop(k, h):
            if k < n0:
                return False
            return _has_numeral(h, RTOL) or _mentions(h, centre)

        E.pc[:] = [h for k, h in enumerate(E.pc) if not drop(k, h)]

    def h_is_hh(E, v, o):
        return R(v["h"]) == R(v["hh"])

    def G_(E, o):
        """geometry of the setup as z3 terms: centre c, unit axis u, height hh, the sphere's radius r1, the far radius r2"""
        c = [R(x) for x in o["sphere"].fields["center"].items]
        u = [R(x) for x in o["axis_u"].items]
        return c, u, R(o["hh"]), R(o["r1"]), R(o["r2"])

    def V_(E):
        return [R(x) for x in E.ghost["c13-radial-unit-vector"].items]

    def scale(E, k, s, c):
        use(E, "equation-times-a-factor", k, s, z3.RealVal(c))

    def tau_of(E, o):
        """ghost: the parameter of the second intersection of the slant line with the sphere (exists: the denominator is positive)"""
        if "c13-tau" not in E.ghost:
            c, u, hh, r1, r2 = G_(E, o)
            tau = z3.Real(fresh_name("tau"))
            E.assume(_tau_def(r1, r2, hh, tau))
            E.ghost["c13-tau"] = tau
            # the band precondition `1 < tau <= 1 + eps excluded` is stated on the objects (squared centre distance); here it is
            # turned into a fact about the ghost tau, once, so that every later step sees a linear fact
            den = hh * hh + (r2 - r1) * (r2 - r1)
            scale(E, hh * hh, _dot(u, u), 1)
            use(E, "product-of-positives", hh, hh)
            use(E, "strictly-larger-factor-strictly-larger-product", z3.RealVal(1), tau, den)
            use(E, "larger-factor-larger-product", tau, 1 + EPS, den)
            E.prove("VolSphereFrustumConeIntersection.calc_concentric_intersect_volume/step/crossing-parameter-is-outside-the-librarys-t-band",
                    z3.Or(tau <= 1, tau > 1 + EPS), "annotation")
        return E.ghost["c13-tau"]

    # ---- annotations in the carrier
    def up_is_u(E, v, o):
        c, u, hh, r1, r2 = G_(E, o)
        tau_of(E, o)
        forget_tolerance_tests(E)
        for k, x in enumerate(v["up"].items):  # up_k = (hh u_k) / |c2 - c1|, and |c2 - c1| = hh (annotation after h)
            q = R(x)
            if z3.is_app(q) and q.decl().kind() == z3.Z3_OP_DIV:
                use(E, "quotient-equals", q.arg(0), q.arg(1), u[k])
        return Rewrite(NArr((3,), [Sym(a, "real") for a in u], "real"))

    def v_noted(E, v, o):
        E.ghost["c13-radial-unit-vector"] = v["v"]
        return True

    # ---- annotations inside find_sphere_line_intersection (inlined): coefficients of the quadratic, roots
    def fsl_a(E, v, o):
        c, u, hh, r1, r2 = G_(E, o)
        w = V_(E)
        dr = r2 - r1
        scale(E, hh * hh, _dot(u, u), 1)
        scale(E, 2 * hh * dr, _dot(w, u), 0)
        scale(E, dr * dr, _dot(w, w), 1)
        return Rewrite(Sym(hh * hh + dr * dr, "real"))

    def fsl_b(E, v, o):
        c, u, hh, r1, r2 = G_(E, o)
        w = V_(E)
        dr = r2 - r1
        scale(E, 2 * r1 * hh, _dot(w, u), 0)
        scale(E, 2 * r1 * dr, _dot(w, w), 1)
        return Rewrite(Sym(2 * r1 * dr, "real"))

    def fsl_c(E, v, o):
        c, u, hh, r1, r2 = G_(E, o)
        scale(E, r1 * r1, _dot(V_(E), V_(E)), 1)
        return Rewrite(0)

    def fsl_t1(E, v, o):
        c, u, hh, r1, r2 = G_(E, o)
        q = R(v["t1"])
        wroot = 2 * r1 * (r1 - r2)
        use(E, "product-of-nonnegatives", 2 * r1, r1 - r2)
        for key, y in E.ghost.items():  # the root of the discriminant the code took
            if isinstance(key, tuple) and key and key[0] == "sqrt":
                use(E, "nonneg-roots-of-equal-squares-coincide", y.z, wroot)
        if z3.is_app(q) and q.decl().kind() == z3.Z3_OP_DIV:
            use(E, "quotient-equals", q.arg(0), q.arg(1), z3.RealVal(0))
        return Rewrite(0)

    def fsl_t2(E, v, o):
        c, u, hh, r1, r2 = G_(E, o)
        tau = tau_of(E, o)
        q = R(v["t2"])
        if z3.is_app(q) and q.decl().kind() == z3.Z3_OP_DIV:
            use(E, "quotient-equals", q.arg(0), q.arg(1), tau)
        return Rewrite(Sym(tau, "real"))

    def fsl_t2_pos(E, v, o):
        c, u, hh, r1, r2 = G_(E, o)
        tau = tau_of(E, o)
        den = hh * hh + (r2 - r1) * (r2 - r1)
        use(E, "product-of-positives", 2 * r1, r1 - r2)
        use(E, "positive-factor-of-a-positive-product", tau, den)
        return tau > 0

    # ---- annotation inside project_point_on_line (inlined): the foot of the perpendicular from p onto the axis
    def ppl_projection(E, v, o):
        c, u, hh, r1, r2 = G_(E, o)
        w = V_(E)
        tau = tau_of(E, o)
        rho = r1 + tau * (r2 - r1)
        scale(E, tau * hh, _dot(u, u), 1)
        scale(E, rho, _dot(w, u), 0)
        for x in v["projection"].items:
            for q in _div_subterms(R(x)):
                use(E, "quotient-equals", q.arg(0), q.arg(1), tau * hh)
                for uk in u:
                    use(E, "product-with-an-equal-factor", q, tau * hh, uk)
        return Rewrite(NArr((3,), [Sym(c[k] + tau * hh * u[k], "real") for k in range(3)], "real"))

    # ---- back in the carrier: h1 = tau hh, r3 = r1 + tau (r2 - r1)
    def h1_is(E, v, o):
        c, u, hh, r1, r2 = G_(E, o)
        tau = tau_of(E, o)
        scale(E, tau * tau * hh * hh, _dot(u, u), 1)
        use(E, "product-of-nonnegatives", tau, hh)
        use(E, "nonneg-roots-of-equal-squares-coincide", R(v["h1"]), tau * hh)
        return Rewrite(Sym(tau * hh, "real"))

    def r3_is(E, v, o):
        c, u, hh, r1, r2 = G_(E, o)
        tau = tau_of(E, o)
        rho = r1 + tau * (r2 - r1)
        scale(E, rho * rho, _dot(V_(E), V_(E)), 1)
        use(E, "scaling-a-nonnegative-by-at-most-one", tau, r1 - r2)
        use(E, "nonneg-roots-of-equal-squares-coincide", R(v["r3"]), rho)
        return Rewrite(Sym(rho, "real"))

    def post_hint(E, vars):
        o = E.top_old
        c, u, hh, r1, r2 = G_(E, o)
        f = o["frustum_cone"]
        h = R(E.sqrt(Sym(dist2(f.fields["c1"], f.fields["c2"]), "real"), nonneg_known=True))
        E.prove("VolSphereFrustumConeIntersection.calc_concentric_intersect_volume/step/centre-distance-is-the-height", h == hh, "annotation")
        if "c13-tau" in E.ghost:
            tau = E.ghost["c13-tau"]
            for nm in ("frustum-inside-the-sphere", "frustum-higher-than-the-sphere", "frustum-lower-than-the-sphere"):
                use(E, "taper-case/" + nm, r1, r2, hh, tau)

    def concentric_pre(E, v, o):
        """the sphere is centred on one end of the frustum with that end's radius (exactly: tolerance bands collapsed), positive radii,
        distinct end centres"""
        s, f = v["sphere"], v["frustum_cone"]
        cs, rs = [R(x) for x in s.fields["center"].items], R(s.fields["radius"])
        c1, c2 = [R(x) for x in f.fields["c1"].items], [R(x) for x in f.fields["c2"].items]
        r1, r2 = R(f.fields["r1"]), R(f.fields["r2"])
        at1 = z3.And(rs == r1, *[a == b for a, b in zip(cs, c1)])
        at2 = z3.And(rs == r2, *[a == b for a, b in zip(cs, c2)])
        return z3.And(z3.Or(at1, at2), r1 > 0, r2 > 0, dist2(f.fields["c1"], f.fields["c2"]) > 0)

    def bands_pre(E, v, o):
        """the library's own tolerance bands (see `outside_tolerance_bands`), stated on radii and the squared centre distance only"""
        s, f = v["sphere"], v["frustum_cone"]
        cs, rs = [R(x) for x in s.fields["center"].items], R(s.fields["radius"])
        c1 = [R(x) for x in f.fields["c1"].items]
        r1, r2 = R(f.fields["r1"]), R(f.fields["r2"])
        return outside_t_band(rs, r1 + r2 - rs, dist2(f.fields["c1"], f.fields["c2"]))

    def _radius_band(o):
        s, f = o["sphere"], o["frustum_cone"]
        cs, rs = [R(x) for x in s.fields["center"].items], R(s.fields["radius"])
        c1 = [R(x) for x in f.fields["c1"].items]
        r1, r2 = R(f.fields["r1"]), R(f.fields["r2"])
        at1 = z3.And(rs == r1, *[a == b for a, b in zip(cs, c1)])
        return in_radius_band(rs, r1 + r2 - rs, at1)

    def concentric_post(E, v, o):
        """stated on the OBJECTS (usable at call sites): the sphere's radius is one of the end radii, the other end's radius is
        r1 + r2 - rs, the height is the distance of the end centres (the very root np.linalg.norm produced).
        EXACT outside the radius bands.  Inside them (the far end thinner by at most eps, or -- sphere on the c2 end -- within
        np.allclose's tolerance) the code may treat the radii as equal: the result is the exact volume for the radii as given OR the exact
        volume with the far radius replaced by the sphere's -- two pose-independent values; which of them is returned is not promised
        (in the unchanged code it depends on whether np.allclose also matches the two centres, i.e. on where the solid sits)."""
        s, f = o["sphere"], o["frustum_cone"]
        rs = R(s.fields["radius"])
        r1, r2 = R(f.fields["r1"]), R(f.fields["r2"])
        h = R(E.sqrt(Sym(dist2(f.fields["c1"], f.fields["c2"]), "real"), nonneg_known=True))
        res = R(v["result"])
        return z3.Or(res == V_sf(rs, r1 + r2 - rs, h), z3.And(_radius_band(o), res == V_sf(rs, rs, h)))

    # union of a sphere with a frustum that shares its centre and radius at one end: inclusion-exclusion over the three closed forms
    # (the intersection through its VERIFIED contract: its two preconditions are obligations here; get_volume / the volume cache of
    # the two members are executed as they are)
    def sfu_setup(end):
        def setup(S):
            from swcgeom.utils.volumetric_object import VolSphereFrustumConeUnion

            d = _concentric_setup(end)(S)
            return dict(self=S.obj(VolSphereFrustumConeUnion, obj1=d["sphere"], obj2=d["frustum_cone"]), hh=d["hh"], r1=d["r1"], r2=d["r2"])

        return setup

    def on_members(clause):
        return lambda E, v, o: clause(E, dict(sphere=v["self"].fields["obj1"], frustum_cone=v["self"].fields["obj2"]), o)

    def sfu_post(E, v, o):
        s, f = o["self"].fields["obj1"], o["self"].fields["obj2"]
        rs, r1, r2 = R(s.fields["radius"]), R(f.fields["r1"]), R(f.fields["r2"])
        h = R(E.sqrt(Sym(dist2(f.fields["c1"], f.fields["c2"]), "real"), nonneg_known=True))
        res, rest = R(v["result"]), V_sphere(rs) + V_fr(r1, r2, h)
        band = _radius_band(dict(sphere=s, frustum_cone=f))  # inside the radius bands: see concentric_post
        return z3.Or(res == rest - V_sf(rs, r1 + r2 - rs, h), z3.And(band, res == rest - V_sf(rs, rs, h)))

    def sfu_members_kept(E, v, o):
        s, f, s0, f0 = v["self"].fields["obj1"], v["self"].fields["obj2"], o["self"].fields["obj1"], o["self"].fields["obj2"]
        same = [R(a) == R(b) for a, b in zip(s.fields["center"].items + f.fields["c1"].items + f.fields["c2"].items,
                                                s0.fields["center"].items + f0.fields["c1"].items + f0.fields["c2"].items)]
        return z3.And(R(s.fields["radius"]) == R(s0.fields["radius"]), R(f.fields["r1"]) == R(f0.fields["r1"]), R(f.fields["r2"]) == R(f0.fields["r2"]), *same)

    Rg.add(f"{VO}:VolSphereFrustumConeUnion._get_volume", prop="C13",
           variants={"sphere-at-c1-end": sfu_setup("c1"), "sphere-at-c2-end": sfu_setup("c2")},
           requires=[("sphere-shares-centre-and-radius-with-one-end-of-the-frustum", on_members(concentric_pre)),
                     ("crossing-parameter-outside-the-librarys-own-t-band", on_members(bands_pre))],
           ensures=[("sphere-plus-frustum-minus-the-integral-of-the-smaller-profile", sfu_post),
                    ("geometry-of-the-two-members-untouched", sfu_members_kept)],
           notes="any radii (both taper directions in one), arbitrary pose; the members' volume caches may be filled")

    Rg.add(f"{VO}:VolSphereFrustumConeIntersection.calc_concentric_intersect_volume", prop="C13",
           variants={"sphere-at-c1-end/widening": _concentric_setup("c1", False), "sphere-at-c2-end/widening": _concentric_setup("c2", False),
                     "sphere-at-c1-end/taper": _concentric_setup("c1", True), "sphere-at-c2-end/taper": _concentric_setup("c2", True)},
           requires=[("sphere-shares-centre-and-radius-with-one-end-of-the-frustum", concentric_pre),
                     ("crossing-parameter-outside-the-librarys-own-t-band", bands_pre)],
           returns="real",
           ensures=[("equals-integral-of-the-smaller-profile", concentric_post)],
           lemmas=[note_entry],
           options=dict(backend_first="cvc5",  # the vector algebra of the taper branch: cvc5 decides every step in < 1.2 s, z3 is erratic on three of them
                        hints={"post/equals-integral-of-the-smaller-profile": post_hint},
                        asserts_after={"h": [("height-is-the-centre-distance", h_is_hh)],
                                       "up": [("axis-direction-is-the-unit-axis", up_is_u)],
                                       "v": [("radial-unit-vector-noted", v_noted)],
                                       "h1": [("height-of-the-crossing-is-tau-times-the-height", h1_is)],
                                       "r3": [("radius-at-the-crossing-is-on-the-slant-line", r3_is)]},
                        asserts_after_in={"find_sphere_line_intersection": {"a": [("leading-coefficient", fsl_a)], "b": [("linear-coefficient", fsl_b)],
                                                                            "c": [("constant-coefficient-vanishes", fsl_c)],
                                                                            "t1": [("first-root-is-the-start-point", fsl_t1)],
                                                                            "t2": [("second-root-is-tau", fsl_t2), ("tau-is-positive", fsl_t2_pos)]},
                                          "project_point_on_line": {"projection": [("foot-of-the-perpendicular-on-the-axis", ppl_projection)]}}),
           notes="both taper directions; the random unit vector is ANY unit vector orthogonal to the axis (contract of find_unit_vector_on_plane)")
