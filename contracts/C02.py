"""C02 — reading keeps every row or fails loudly: sidecar contracts."""
import z3

from pyvc.spec import Registry
from pyvc.values import Opaque, Sym, fresh_name

FILE = "swcgeom/utils/file.py"
IO = "swcgeom/core/swc_utils/io.py"

CLOSED = z3.Function("closed_after", z3.IntSort(), z3.BoolSort())


def file_handle(S, name="fh"):
    def close(eng, recv, args, kwargs):
        eng.ghost.setdefault("closed", []).append(recv.z)
        return None

    return S.opaque({"close": close}, name=name)


def register(R: Registry):
    def reader(S, with_handle=True):
        from swcgeom.utils.file import FileReader

        return S.obj(FileReader, fname="", fb=None, f=file_handle(S) if with_handle else None, encoding="utf-8", kwargs={})

    def handle_closed(E, v, o):
        f = o["self"].fields["f"]
        if f is None:
            return True
        return any(z.eq(f.z) for z in E.ghost.get("closed", []))

    R.add(
        f"{FILE}:FileReader.__exit__",
        prop="C02",
        variants={
            "exception-in-body": lambda S: dict(self=reader(S), exc_type=ValueError, exc_val=S.opaque({}, "exc"), exc_tb=None),
            "decode-error-in-body": lambda S: dict(self=reader(S), exc_type=UnicodeDecodeError, exc_val=S.opaque({}, "exc"), exc_tb=None),
            "normal-exit": lambda S: dict(self=reader(S), exc_type=None, exc_val=None, exc_tb=None),
            "never-opened": lambda S: dict(self=reader(S, False), exc_type=ValueError, exc_val=S.opaque({}, "exc"), exc_tb=None),
        },
        returns="bool",
        ensures=[
            # Python's `with` rule: a true result swallows the exception raised in the body.
            "does-not-suppress :: implies(not is_none(exc_type), not result)",
            ("closes-the-handle", handle_closed),
        ],
    )
