"""C02 — reading keeps every row or fails loudly: sidecar contracts.

The file is ABSTRACT: a source `f` (an int id) delivers NL(f) lines LINE(f, k); reading line k may instead fail to
decode (DECERR(f, k)).  Lines, regex groups and derived strings are opaque string ids (class AStr); what the regexes
/ str methods / int() / float() say about them are uninterpreted functions:

    RE_HIT(method+pattern, s)   the compiled pattern's search/match accepts s       (is_row / is_comment)
    IS_BLANK(s)                 s.isspace()
    GRP(pattern, s, g)          group g of that match
    INT_OK/INT_OF, FLT_OK/FLT_OF   int(s) / float(s): succeeds?, value
    LEN, DROP, RMSUF, STARTS    len(s), s[n:], s.removesuffix(t), s.startswith(t)

so the theorem proved about `parse_swc` holds for EVERY interpretation of them ("for any line grammar"): the table
has exactly one entry per row line, in file order, each field the conversion of the matching group; comments are the
comment lines (minus the writer's column header) in order; any other line / failed conversion / decode error leaves
through ValueError; a normal return consumed and classified every line; columns are never unevenly filled.
"""
import re

import z3

from pyvc import models as M
from pyvc.engine import ProgExc, Unsupported
from pyvc.models import FmtPiece, SymStr
from pyvc.spec import Registry
from pyvc.values import NativeMethod, Obj, Opaque, PList, SArr, Sym, fresh_name, to_z3, zint

DEPENDS = ["C18"]  # read_swc relies on the verified contracts of reset_index_ / mark_roots_as_somas_

FILE = "swcgeom/utils/file.py"
IO = "swcgeom/core/swc_utils/io.py"
TREE = "swcgeom/core/tree.py"
NORM = "swcgeom/core/swc_utils/normalizer.py"
CHK = "swcgeom/core/swc_utils/checker.py"

_I, _B, _R, _S = z3.IntSort(), z3.BoolSort(), z3.RealSort(), z3.StringSort()
CLOSED = z3.Function("closed_after", _I, _B)

NL = z3.Function("n_lines", _I, _I)
LINE = z3.Function("line", _I, _I, _I)
DECERR = z3.Function("decode_error_at", _I, _I, _B)
RE_HIT = z3.Function("re_hit", _S, _I, _B)
GRP = z3.Function("re_group", _S, _I, _I, _I)
IS_BLANK = z3.Function("is_blank", _I, _B)
INT_OK = z3.Function("int_ok", _I, _B)
INT_OF = z3.Function("int_of", _I, _I)
FLT_OK = z3.Function("float_ok", _I, _B)
FLT_OF = z3.Function("float_of", _I, _R)
LEN = z3.Function("strlen", _I, _I)
DROP = z3.Function("drop_prefix", _I, _I, _I)
RMSUF = z3.Function("removesuffix", _I, _S, _I)
STARTS = z3.Function("startswith", _I, _S, _B)
# ghost counters / enumerations (defined by their unfolding, see ghost_axioms)
RCNT = z3.Function("rows_before", _I, _I, _I)
RLINE = z3.Function("row_line", _I, _I, _I)
CCNT = z3.Function("comments_before", _I, _I, _I)
CLINE = z3.Function("comment_line", _I, _I, _I)
UNREADABLE = z3.Function("source_unreadable", _I, _B)

# reference grammar, written from the SWC format / property statement (NOT read from the source)
REF_FLOAT = r"([+-]?(?:\d+(?:[.]\d*)?(?:[eE][+-]?\d+)?|[.]\d+(?:[eE][+-]?\d+)?))"
REF_COMMENT = r"^\s*#"


def ref_row_pattern(n_extra):
    cols = [r"([0-9]+)", r"([0-9]+)", REF_FLOAT, REF_FLOAT, REF_FLOAT, REF_FLOAT, r"(-?[0-9]+)"] + [REF_FLOAT] * n_extra
    return r"^\s*" + r"\s+".join(cols) + r"(?=\s|$)\s*([\s+\-.0-9eE]*)$"


CANON = {}  # text of the row pattern the carrier compiles -> the name the contract uses for "the row test" (see _re_compile)


def tag(method, pattern):
    return z3.StringVal(method + ":" + CANON.get(pattern, pattern))


ASTR_MODEL = ("str-model: lines/tokens are abstract strings; isspace, removesuffix, startswith, s[n:], len are uninterpreted functions of them; "
              "truthiness = 'is not the empty string' (id 0)")


class AStr(Sym):
    """an abstract string (opaque id of kind 'ref'); id 0 is the empty string (truthiness)"""

    __slots__ = ()

    def __init__(self, z):
        Sym.__init__(self, z, "ref")

    def __pyvc_getattr__(self, eng, name):
        z = self.z
        eng.assumptions.add(ASTR_MODEL)
        if name == "isspace":
            return NativeMethod(lambda e, r, a, k: e.sbool(IS_BLANK(z)), self, name)
        if name == "removesuffix":
            def rm(e, r, a, k):
                if len(a) != 1 or not isinstance(a[0], str):
                    raise Unsupported("removesuffix of an abstract string with a non-literal argument")
                return AStr(RMSUF(z, z3.StringVal(a[0])))
            return NativeMethod(rm, self, name)
        if name == "startswith":
            def sw(e, r, a, k):
                if len(a) != 1 or not isinstance(a[0], str):
                    raise Unsupported("startswith of an abstract string with a non-literal argument")
                return e.sbool(STARTS(z, z3.StringVal(a[0])))
            return NativeMethod(sw, self, name)
        raise Unsupported(f"str.{name} of an abstract string has no model")

    def __pyvc_getitem__(self, eng, idx):
        eng.assumptions.add(ASTR_MODEL)
        if isinstance(idx, slice) and idx.stop is None and idx.step is None and idx.start is not None:
            return AStr(DROP(self.z, to_z3(idx.start, "int")))
        raise Unsupported("only s[n:] is modelled on an abstract string")


class AMatch:
    """match object of a modelled regex on an abstract string"""

    def __init__(self, ptag, s):
        self.ptag, self.s = ptag, s

    def __pyvc_getattr__(self, eng, name):
        if name == "group":
            def group(e, r, a, k):
                g = a[0] if a else 0
                return AStr(GRP(self.ptag, self.s.z, to_z3(g, "int")))
            return NativeMethod(group, self, name)
        raise Unsupported(f"match.{name} on an abstract string")


def _pattern_method(pat, method):
    native = getattr(pat, method)

    def model(eng, args, kwargs):
        if len(args) == 1 and isinstance(args[0], AStr):
            eng.assumptions.add("re-model: pattern.search/match on an abstract line = uninterpreted predicate re_hit(method:pattern, line); groups = re_group(...)")
            t = tag(method, pat.pattern)
            if eng.branch(eng.sbool(RE_HIT(t, args[0].z))):
                return AMatch(t, args[0])
            return None
        if M.all_concrete(args, kwargs):
            return native(*[M.unwrap(a) for a in args], **kwargs)
        raise Unsupported("regex applied to a structured string")

    return model


def _register_pattern(pat):
    for m in ("search", "match", "fullmatch"):
        M.EXTRA_MODELS[getattr(pat, m)] = _pattern_method(pat, m)


def _re_compile(eng, args, kwargs):
    if not M.all_concrete(args, kwargs):
        raise Unsupported("re.compile of a symbolic pattern")
    pat = re.compile(*args, **kwargs)
    _register_pattern(pat)  # `re` caches compiled patterns: the same text gives the same object
    if (eng.cur_key or "").endswith(":parse_swc") and not eng.inline_stack and not eng.spec_mode:
        # is_row in the contract means "matches the SWC line grammar written in this file"; the carrier's own pattern must be it
        ex = eng.visible_vars().get("extras")
        n_extra = len(ex.items) if isinstance(ex, PList) and ex.items is not None else 0
        # its TEXT is free; its shape (group c+1 = column c) is checked here and what it accepts by the obligations C02/regex/* (contracts/regex_facts.py)
        from contracts.regex_facts import row_shape_ok

        eng.prove("parse_swc/regex/row-pattern-has-the-swc-line-shape", row_shape_ok(pat.pattern, n_extra, pat.flags), "definition")
        CANON[pat.pattern] = ref_row_pattern(n_extra)
    return pat


M.EXTRA_MODELS[re.compile] = _re_compile


def _int_model(eng, args, kwargs):
    if len(args) == 1 and isinstance(args[0], AStr):
        eng.assumptions.add("int()/float() of an abstract token: uninterpreted value, may raise ValueError (uninterpreted success predicate)")
        if not eng.branch(eng.sbool(INT_OK(args[0].z))):
            raise ProgExc(ValueError, "invalid literal for int()")
        return Sym(INT_OF(args[0].z), "int")
    return M.BUILTIN_MODELS[int](eng, args, kwargs)


def _float_model(eng, args, kwargs):
    if len(args) == 1 and isinstance(args[0], AStr):
        eng.assumptions.add("int()/float() of an abstract token: uninterpreted value, may raise ValueError (uninterpreted success predicate)")
        if not eng.branch(eng.sbool(FLT_OK(args[0].z))):
            raise ProgExc(ValueError, "could not convert string to float")
        return Sym(FLT_OF(args[0].z), "real")
    return M.BUILTIN_MODELS[float](eng, args, kwargs)


def _len_model(eng, args, kwargs):
    if len(args) == 1 and isinstance(args[0], AStr):
        z = LEN(args[0].z)
        eng.assume(z >= 0)
        return Sym(z, "int")
    return M.BUILTIN_MODELS[len](eng, args, kwargs)


M.EXTRA_MODELS[int] = _int_model
M.EXTRA_MODELS[float] = _float_model
M.EXTRA_MODELS[len] = _len_model


def _df_from_dict(eng, args, kwargs):
    """pd.DataFrame.from_dict({name: list}): one column per key; pandas refuses columns of different lengths
    (ValueError 'All arrays must be of the same length') -- here a named obligation."""
    from pyvc.npmodels import DFrame

    (d,) = args
    if kwargs or d.items is None:
        raise Unsupported("DataFrame.from_dict form")
    eng.assumptions.add("pandas-model: DataFrame.from_dict({name: list}) has one column per key holding the list's values; needs equally long lists")
    cols, n0 = {}, None
    for kname, lst in d.items.items():
        if not isinstance(lst, PList):
            raise Unsupported("DataFrame.from_dict column value")
        if lst.items is not None:
            if lst.items:
                raise Unsupported("DataFrame.from_dict of a concrete non-empty list")
            n, arr, kind = 0, z3.K(_I, z3.IntVal(0)), "int"
        else:
            n, arr, kind = lst.n, lst.cols[0], lst.kinds[0]
        if n0 is None:
            n0 = n
        else:
            ok = zint(n) == zint(n0)
            if not eng.spec_mode:
                fn = (eng.cur_key or "?").split(":")[-1]
                eng.prove(f"{fn}/safety/table-columns-equally-long", ok, "safety", "DataFrame.from_dict")
        cols[kname] = SArr(arr, n0 if n0 is not None else n, kind, name=str(kname))
    return DFrame(cols, n0 if n0 is not None else 0)


def _install_pandas():
    import pandas as pd

    M.EXTRA_MODELS[pd.DataFrame.from_dict] = _df_from_dict


_install_pandas()


# ---------------------------------------------------------------------------
def file_handle(S, name="fh"):
    def close(eng, recv, args, kwargs):
        eng.ghost.setdefault("closed", []).append(recv.z)
        return None

    return S.opaque({"close": close}, name=name)


def is_row(n_extra, s):
    return RE_HIT(tag("search", ref_row_pattern(n_extra)), s)


def is_comment(n_extra, s):
    """a comment line: not a data row (the row test comes first) and `^\\s*#` matches"""
    return z3.And(z3.Not(is_row(n_extra, s)), RE_HIT(tag("match", REF_COMMENT), s))


def comment_text(s):
    """the line minus the matched `\\s*#` prefix minus one trailing newline"""
    return RMSUF(DROP(s, LEN(GRP(tag("match", REF_COMMENT), s, 0))), z3.StringVal("\n"))


def header_text(names):
    """what is left of the column-header line the WRITER emits ("# id type x y z r pid[ extras]\\n") after the '#'"""
    return " " + " ".join(names.cols())


def kept_comment(n_extra, names, s):
    return z3.And(is_comment(n_extra, s), z3.Not(STARTS(comment_text(s), z3.StringVal(header_text(names)))))


def conv_ok(n_extra, s):
    """every field of a row line converts"""
    t = tag("search", ref_row_pattern(n_extra))
    return z3.And(*[(INT_OK if c in (0, 1, 6) else FLT_OK)(GRP(t, s, c + 1)) for c in range(7 + n_extra)])


def field(n_extra, s, c):
    t = tag("search", ref_row_pattern(n_extra))
    g = GRP(t, s, c + 1)
    return INT_OF(g) if c in (0, 1, 6) else FLT_OF(g)


def line_ok(n_extra, f, k):
    s = LINE(f, k)
    return z3.And(z3.Not(DECERR(f, k)),
                  z3.Or(z3.And(is_row(n_extra, s), conv_ok(n_extra, s)), is_comment(n_extra, s), z3.And(z3.Not(is_row(n_extra, s)), IS_BLANK(s))))


def ghost_axioms(E, f, n_extra, names):
    """definitions of the ghost counters (primitive recursion over the line index) and of the enumerations of row /
    kept-comment lines (inverse of the strictly increasing counter on the lines it counts)"""
    k = z3.Int(fresh_name("gk"))
    row = lambda kk: is_row(n_extra, LINE(f, kk))
    kept = lambda kk: kept_comment(n_extra, names, LINE(f, kk))
    E.assume(NL(f) >= 0)
    for CNT, ENUM, pred in ((RCNT, RLINE, row), (CCNT, CLINE, kept)):
        E.assume(CNT(f, 0) == 0)
        E.assume(z3.ForAll([k], z3.Implies(k >= 0, CNT(f, k + 1) == CNT(f, k) + z3.If(pred(k), 1, 0)), patterns=[CNT(f, k + 1)]))
        E.assume(z3.ForAll([k], z3.Implies(k >= 0, z3.And(CNT(f, k) >= 0, CNT(f, k) <= k)), patterns=[CNT(f, k)]))
        E.assume(z3.ForAll([k], z3.Implies(z3.And(k >= 0, pred(k)), ENUM(f, CNT(f, k)) == k), patterns=[CNT(f, k)]))
    E.assumptions.add("ghost definition: rows_before/comments_before(f, k) = number of row / kept-comment lines among the first k lines; "
                      "row_line/comment_line(f, j) = index of the j-th such line")


def source_id(reader):
    """the abstract file behind a FileReader object"""
    for fld in ("f", "fb", "fname"):
        v = reader.fields.get(fld)
        if isinstance(v, (Opaque, Sym)):
            return v.z
    raise Unsupported("FileReader without an abstract source")


def lines_of(S, fr):
    """assumed contract of FileReader.__enter__: a text handle iterating the lines of the source; reading line k
    raises UnicodeDecodeError when the bytes do not decode"""
    f = source_id(fr.vars["self"])

    def it(eng, recv):
        def getter(k):
            if eng.branch(eng.sbool(DECERR(f, k.z))):
                raise ProgExc(UnicodeDecodeError, "codec can't decode")
            return AStr(LINE(f, k.z))

        eng.assume(NL(f) >= 0)
        eng.assumptions.add("io-model: iterating the text handle delivers line(f, 0..n_lines(f)-1) in order; delivering line k may instead raise UnicodeDecodeError (decode_error_at(f, k))")
        return NL(f), getter

    h = S.opaque({"__iter_seq__": it}, name="text_handle")
    h.src = f
    return h


def register(R: Registry):
    def reader(S, with_handle=True):
        from swcgeom.utils.file import FileReader

        return S.obj(FileReader, fname="", fb=None, f=file_handle(S) if with_handle else None, encoding="utf-8", kwargs={})

    def handle_closed(E, v, o):
        f = o["self"].fields["f"]
        if f is None:
            return True
        if not (E.cur_key or "").endswith(":FileReader.__exit__"):
            return CLOSED(f.z) if isinstance(f, Opaque) else True  # at a call site: an (unused) fact about a ghost predicate
        return any(z.eq(f.z) for z in E.ghost.get("closed", []))

    R.add(
        f"{FILE}:FileReader.__exit__",
        prop="C02",
        variants={
            "exception-in-body": lambda S: dict(self=reader(S), exc_type=ValueError, exc_val=S.opaque({}, "exc"), exc_tb=None),
            "decode-error-in-body": lambda S: dict(self=reader(S), exc_type=UnicodeDecodeError, exc_val=S.opaque({}, "exc"), exc_tb=None),
            "normal-exit": lambda S: dict(self=reader(S), exc_type=None, exc_val=None, exc_tb=None),
            "never-opened": lambda S: dict(self=reader(S, False), exc_type=ValueError, exc_val=S.opaque({}, "exc"), exc_tb=None),
        },
        returns="bool",
        ensures=[
            # Python's `with` rule: a true result swallows the exception raised in the body.
            "does-not-suppress :: implies(not is_none(exc_type), not result)",
            ("closes-the-handle", handle_closed),
        ],
    )

    R.add(f"{FILE}:FileReader.__enter__", prop="C02", trusted=True, returns=lines_of, ensures=[],
          notes="ASSUMED: the handle iterates the abstract line sequence of the reader's source (open / TextIOWrapper not modelled)")

    register_parse(R)


# ===========================================================================
# parse_swc
def _plen(p):
    return zint(len(p.items)) if p.items is not None else zint(p.n)


def register_parse(R):
    from swcgeom.core.swc_utils import get_names

    names = get_names()

    def source(S, kind):
        from io import BytesIO, TextIOBase

        proto = {}
        if kind == "text-stream":
            proto = {"__isinstance__": (TextIOBase,), ".encoding": lambda eng, v: "utf-8"}
        elif kind == "byte-stream":
            proto = {"__isinstance__": (BytesIO,)}
        return S.opaque(proto, "swc_file")

    def parse_setup(extra, kind):
        def f(S):
            import swcgeom.core.swc_utils.io as io_mod

            for g in list(vars(io_mod).values()):  # module-level compiled patterns (RE_COMMENT)
                if isinstance(g, re.Pattern):
                    _register_pattern(g)
            src = source(S, kind)
            return dict(fname=src, names=names, extra_cols=PList(list(extra)) if extra else None, encoding="utf-8", g_extra=list(extra or []))

        return f

    def ctx(v):
        return v["fname"].z, len(v["g_extra"])

    def axioms(E, fr):
        ghost_axioms(E, fr.vars["fname"].z, len(fr.vars["g_extra"]), names)

    def declare_element_types(E, v, o):
        # type annotation for the loop cut: vals[c] is a list of ints (id, type, pid) or of floats
        for c, lst in enumerate(v["vals"].items):
            lst.hint = "int" if c in (0, 1, 6) else "real"
        return True

    def K(v):
        return to_z3(v["_k0"], "int")

    def inv_equal(E, v, o):
        f, ne = ctx(v)
        return z3.And(*[_plen(p) == RCNT(f, K(v)) for p in v["vals"].items])

    def inv_fields(E, v, o):
        f, ne = ctx(v)
        out = []
        for c, p in enumerate(v["vals"].items):
            if p.items is not None:
                if p.items:
                    return False
                continue
            j = z3.Int(fresh_name("j"))
            out.append(z3.ForAll([j], z3.Implies(z3.And(j >= 0, j < zint(p.n)), z3.Select(p.cols[0], j) == field(ne, LINE(f, RLINE(f, j)), c))))
        return z3.And(*out) if out else True

    def comments_are(f, ne, p, upto):
        if p.items is not None:
            if p.items:
                return False
            return CCNT(f, upto) == 0
        j = z3.Int(fresh_name("j"))
        return z3.And(zint(p.n) == CCNT(f, upto),
                      z3.ForAll([j], z3.Implies(z3.And(j >= 0, j < zint(p.n)), z3.Select(p.cols[0], j) == comment_text(LINE(f, CLINE(f, j))))))

    def inv_comments(E, v, o):
        f, ne = ctx(v)
        return comments_are(f, ne, v["comments"], K(v))

    def inv_consumed(E, v, o):
        f, ne = ctx(v)
        j = z3.Int(fresh_name("j"))
        return z3.ForAll([j], z3.Implies(z3.And(j >= 0, j < K(v)), line_ok(ne, f, j)))

    def post_count(E, v, o):
        f, ne = ctx(v)
        df, _ = v["result"]
        return z3.And(list(df.cols) == names.cols() + v["g_extra"], zint(df.n) == RCNT(f, NL(f)))

    def post_fields(E, v, o):
        f, ne = ctx(v)
        df, _ = v["result"]
        out = []
        for c, key in enumerate(names.cols() + v["g_extra"]):
            if key not in df.cols:
                return False
            a = df.cols[key]
            j = z3.Int(fresh_name("j"))
            out.append(z3.ForAll([j], z3.Implies(z3.And(j >= 0, j < zint(df.n)), z3.Select(a.arr, j) == field(ne, LINE(f, RLINE(f, j)), c))))
        return z3.And(*out)

    def post_comments(E, v, o):
        f, ne = ctx(v)
        _, cm = v["result"]
        return comments_are(f, ne, cm, NL(f))

    def post_consumed(E, v, o):
        f, ne = ctx(v)
        j = z3.Int(fresh_name("j"))
        return z3.ForAll([j], z3.Implies(z3.And(j >= 0, j < NL(f)), line_ok(ne, f, j)))

    def may_raise(E, v, o):
        f, ne = ctx(v)
        j = z3.Int(fresh_name("j"))
        return z3.Exists([j], z3.And(j >= 0, j < NL(f), z3.Not(line_ok(ne, f, j))))

    def parse_result(S, fr):
        extra = fr.vars.get("extra_cols")
        extra = list(extra.items) if isinstance(extra, PList) and extra.items else []
        cols = {c: ("int" if j in (0, 1, 6) else "real") for j, c in enumerate(names.cols() + extra)}
        from pyvc.values import snapshot

        df, cm = S.dframe(cols, name="parsed"), S.plist("ref", name="comments")
        S.eng.ghost.setdefault("parsed", []).append(dict(df=df, comments=cm, df0=snapshot(df), comments0=snapshot(cm)))
        return (df, cm)

    def at_site(v):
        # at a call site (read_swc) the extra-column list is taken from the argument
        if "g_extra" not in v:
            e = v.get("extra_cols")
            v["g_extra"] = list(e.items) if isinstance(e, PList) and e.items else []
        return v

    def wrap(fn):
        return lambda E, v, o: fn(E, at_site(v), o)

    R.add(
        f"{IO}:parse_swc",
        prop="C02",
        variants={
            "path": parse_setup(None, "path"),
            "path+one-extra-column": parse_setup(["e"], "path"),
            "byte-stream": parse_setup(None, "byte-stream"),
            "text-stream": parse_setup(None, "text-stream"),
        },
        lemmas=[axioms],
        returns=parse_result,
        raises={"ValueError": ("only-when-some-line-is-bad-or-undecodable", wrap(may_raise))},
        ensures=[
            ("one-table-entry-per-row-line", wrap(post_count)),
            ("every-field-is-the-conversion-of-its-group-in-file-order", wrap(post_fields)),
            ("comments-are-the-comment-lines-minus-the-column-header-in-order", wrap(post_comments)),
            ("every-line-was-read-and-is-a-row-a-comment-or-blank", wrap(post_consumed)),
        ],
        loops={0: dict(
            invariant=[("columns-equally-filled-one-entry-per-row-line-so-far", inv_equal),
                       ("fields-are-the-conversions-of-the-row-groups", inv_fields),
                       ("comments-so-far", inv_comments),
                       ("lines-so-far-read-and-classified", inv_consumed)],
            types={"comments": "ref"})},
        options=dict(asserts_after={"vals": [("element-types-declared", declare_element_types)]}),
        notes="number of lines, every line, every token and every converted value symbolic/abstract; the inner loop over the "
              "seven (eight) conversions is unrolled; source kinds path / byte stream / text stream and 0/1 extra column as variants",
    )


# ===========================================================================
# read_swc (dispatch) and Tree.from_swc (error wrapping)
def register_read(R):
    from pyvc.values import snapshot
    from swcgeom.core.swc_utils import get_names

    names = get_names()
    NCOLS = names.cols()

    # callees that are not under a verified contract are replaced, FOR THIS CARRIER ONLY (globals_override, nothing is
    # registered for other properties), by assumed stand-ins: they may rewrite the table's contents (never its number
    # of rows / its columns), are logged, and do nothing else
    def stand_in(name, rewrites_df=False, keeps_root=False, returns_bool=False):
        from pyvc.loops import havoc_value
        from pyvc.values import Callback, fresh

        def model(eng, args, kwargs):
            eng.assumptions.add(f"assumed-contract(local to read_swc): {name} " + ("rewrites only the contents of df" if rewrites_df else "is pure")
                                + (" and keeps a root" if keeps_root else ""))
            df = args[0]
            eng.call_log.append((name, dict(df=df)))
            if rewrites_df:
                havoc_value(eng, df)
            if keeps_root:
                pid = df.cols[names.pid]
                i = z3.Int(fresh_name("i"))
                eng.assume(z3.Exists([i], z3.And(i >= 0, i < zint(df.n), z3.Select(pid.arr, i) == -1)))
            return fresh("bool", name) if returns_bool else None

        return Callback(name, model)

    STAND_INS = {
        "sort_nodes_": stand_in("sort_nodes_", rewrites_df=True),  # C05 owns its functional contract
        "link_roots_to_nearest_": stand_in("link_roots_to_nearest_", rewrites_df=True, keeps_root=True),  # C18 bounded stand-in
        "is_single_root": stand_in("is_single_root", returns_bool=True),  # only feeds a warning
    }

    def read_setup(fix_roots, sort_nodes, reset_index):
        def f(S):
            src = S.opaque({}, "swc_file")
            return dict(swc_file=src, extra_cols=None, fix_roots=fix_roots, sort_nodes=sort_nodes, reset_index=reset_index,
                        encoding="utf-8", names=None)

        return f

    def axioms(E, fr):
        ghost_axioms(E, fr.vars["swc_file"].z, 0, names)

    def rows(f):
        return RCNT(f, NL(f))

    def pre_root(E, v, o):
        f = v["swc_file"].z
        j = z3.Int(fresh_name("j"))
        return z3.Exists([j], z3.And(j >= 0, j < rows(f), field(0, LINE(f, RLINE(f, j)), 6) == -1))

    def pre_ids(E, v, o):
        f = v["swc_file"].z
        j = z3.Int(fresh_name("j"))
        return z3.ForAll([j], z3.Implies(z3.And(j >= 0, j < rows(f)), field(0, LINE(f, RLINE(f, j)), 0) >= 0))

    def calls(E, name):
        return [a for nm, a in E.call_log if nm == name]

    def parsed(E):
        ps = E.ghost.get("parsed", [])
        return ps[0] if len(ps) == 1 else None

    def post_same_objects(E, v, o):
        p = parsed(E)
        if p is None or len(calls(E, "parse_swc")) != 1:
            return False
        a = calls(E, "parse_swc")[0]
        df, cm = v["result"]
        ok = df is p["df"] and cm is p["comments"] and a["fname"] is o["swc_file"] and a["extra_cols"] is None and a["encoding"] == "utf-8"
        if not ok:
            return False
        c0 = p["comments0"]
        return z3.And(zint(cm.n) == zint(c0.n), cm.cols[0] == c0.cols[0])  # the comment list is returned untouched

    def post_repair(E, v, o):
        fr_ = o["fix_roots"]
        nm, nl = len(calls(E, "mark_roots_as_somas_")), len(calls(E, "link_roots_to_nearest_"))
        cnts = [g for k_, g in E.ghost.items() if isinstance(k_, tuple) and k_ and k_[0] == "cnt"]
        if fr_ is False:
            return nm == 0 and nl == 0 and not cnts
        p = parsed(E)
        if p is None or len(cnts) != 1:
            return False
        # the count the dispatch is based on is the number of parsed rows whose parent is -1
        cnt, pid0 = cnts[0], p["df0"].cols[names.pid]
        i = z3.Int(fresh_name("i"))
        is_root_count = z3.And(cnt(0) == 0, z3.ForAll([i], z3.Implies(i >= 0, cnt(i + 1) == cnt(i) + z3.If(z3.Select(pid0.arr, i) == -1, 1, 0))))
        several = cnt(zint(p["df0"].n)) > 1
        want_m = 1 if fr_ == "somas" else 0
        want_l = 1 if fr_ == "nearest" else 0
        if nm > 1 or nl > 1 or nm > want_m or nl > want_l:
            return False
        for a in calls(E, "mark_roots_as_somas_") + calls(E, "link_roots_to_nearest_"):
            if a["df"] is not p["df"]:
                return False
        return z3.And(is_root_count, several == z3.BoolVal(nm + nl == 1) if fr_ in ("somas", "nearest") else z3.BoolVal(nm + nl == 0))

    def post_renumber(E, v, o):
        p = parsed(E)
        ns, nr = calls(E, "sort_nodes_"), calls(E, "reset_index_")
        want_s = 1 if o["sort_nodes"] else 0
        want_r = 1 if (not o["sort_nodes"] and o["reset_index"]) else 0
        if p is None or len(ns) != want_s or len(nr) != want_r:
            return False
        return all(a["df"] is p["df"] for a in ns + nr)

    def post_nothing_else(E, v, o):
        allowed = {"parse_swc", "mark_roots_as_somas_", "link_roots_to_nearest_", "sort_nodes_", "reset_index_", "is_single_root"}
        return all(nm in allowed for nm, _ in E.call_log) and len(calls(E, "is_single_root")) == 1

    def post_attributes(E, v, o):
        """without root repair / sorting the node attributes are exactly what the rows say (ids only re-based)"""
        p = parsed(E)
        if p is None:
            return False
        if o["sort_nodes"] or calls(E, "mark_roots_as_somas_") or calls(E, "link_roots_to_nearest_"):
            return True
        df, _ = v["result"]
        keep = NCOLS if not o["reset_index"] else [c for c in NCOLS if c not in (names.id, names.pid)]
        f = o["swc_file"].z
        out = [zint(df.n) == rows(f)]
        for c in keep:
            j = z3.Int(fresh_name("j"))
            out.append(z3.ForAll([j], z3.Implies(z3.And(j >= 0, j < zint(df.n)), z3.Select(df.cols[c].arr, j) == field(0, LINE(f, RLINE(f, j)), NCOLS.index(c)))))
        return z3.And(*out)

    def may_raise(E, v, o):
        f = v["swc_file"].z
        j = z3.Int(fresh_name("j"))
        bad_line = z3.Exists([j], z3.And(j >= 0, j < NL(f), z3.Not(line_ok(0, f, j))))
        return z3.Or(bad_line, z3.BoolVal(v["fix_roots"] not in (False, "somas", "nearest")))

    def read_result(S, fr):
        cols = {c: ("int" if j in (0, 1, 6) else "real") for j, c in enumerate(NCOLS)}
        df, cm = S.dframe(cols, name="table"), S.plist("ref", name="comments")
        S.eng.ghost.setdefault("read", []).append(dict(df=df, comments=cm))
        return (df, cm)

    def site(fn):
        # at a call site (Tree.from_swc) the effect clauses about read_swc's own execution say nothing
        return lambda E, v, o: True if (E.cur_key or "").endswith("from_swc") else fn(E, v, o)

    variants = {}
    for fx in (False, "somas", "nearest", "bogus"):
        for sn in (False, True):
            for ri in (True, False):
                variants[f"fix_roots={fx},sort_nodes={sn},reset_index={ri}"] = read_setup(fx, sn, ri)

    R.add(
        f"{IO}:read_swc",
        prop="C02",
        variants=variants,
        lemmas=[axioms],
        options=dict(globals_override=STAND_INS),
        returns=read_result,
        requires=[("file-has-a-root-row", pre_root), ("row-ids-are-unsigned(regex fact: the id group is [0-9]+)", pre_ids)],
        raises={"ValueError": ("only-for-a-bad-file-or-an-unknown-fix-mode", may_raise),
                # at call sites: the file may also be unreadable (open() fails) -- never raised by the modelled body itself
                "OSError": ("unreadable-source", lambda E, v, o: UNREADABLE(v["swc_file"].z))},
        ensures=[
            ("returns-the-parsed-table-and-the-untouched-comment-list", site(post_same_objects)),
            ("root-repair-only-with-several-roots-and-only-the-requested-one", site(post_repair)),
            ("sort-nodes-else-reset-index-else-neither", site(post_renumber)),
            ("no-other-call-touches-the-table(warnings-only-warn)", site(post_nothing_else)),
            ("attributes-are-what-the-rows-say", site(post_attributes)),
        ],
        notes="file abstract (see parse_swc); all 16 combinations of fix_roots x sort_nodes x reset_index as variants; "
              "precondition: the file has a row whose parent is -1 (reset_index_/mark_roots_as_somas_ need a root)",
    )

    # ------------------------------------------------------------ Tree.from_swc
    # NOTE on the key: contracts/C19.py registers an ASSUMED contract under the natural key "…:Tree.from_swc" (its
    # population carriers call it modularly).  The registry holds one contract per key, so the VERIFIED contract of
    # the same function is registered under an alias that resolves to the same source (extract skips "<locals>").
    FROM_SWC = f"{TREE}:Tree.<locals>.from_swc"

    def builder(S):
        """stand-in for `cls`: a class whose from_data_frame is abstract (Tree.__init__/padding are C03/C09 matter)"""
        def from_data_frame(eng, recv, args, kwargs):
            eng.assumptions.add("assumed(local to Tree.from_swc): cls.from_data_frame is abstract; its call is logged")
            eng.ghost.setdefault("built", []).append(dict(args=list(args), kwargs=dict(kwargs)))
            return Opaque(z3.Const(fresh_name("tree"), _I), {})

        return S.opaque({"from_data_frame": from_data_frame}, "cls")

    def from_setup(S):
        return dict(cls=builder(S), swc_file=S.opaque({}, "swc_file"))

    def bad_source(v):
        f = v["swc_file"].z
        j = z3.Int(fresh_name("j"))
        return z3.Or(z3.Exists([j], z3.And(j >= 0, j < NL(f), z3.Not(line_ok(0, f, j)))), UNREADABLE(f))

    def from_built(E, v, o):
        rd, built = E.ghost.get("read", []), E.ghost.get("built", [])
        cs = calls(E, "read_swc")
        if len(rd) != 1 or len(built) != 1 or len(cs) != 1 or cs[0]["swc_file"] is not o["swc_file"]:
            return False
        b = built[0]
        return (len(b["args"]) == 1 and b["args"][0] is rd[0]["df"] and b["kwargs"].get("comments") is rd[0]["comments"]
                and b["kwargs"].get("source") == "" and set(b["kwargs"]) == {"source", "comments"})

    R.add(
        FROM_SWC,
        prop="C02",
        setup=from_setup,
        requires=[("file-has-a-root-row", pre_root), ("row-ids-are-unsigned(regex fact: the id group is [0-9]+)", pre_ids)],
        raises={"ValueError": ("only-when-the-source-is-bad-or-unreadable", lambda E, v, o: bad_source(v))},
        ensures=[
            ("a-tree-is-returned-only-for-a-clean-readable-source(no-error-swallowed)", lambda E, v, o: z3.Not(bad_source(v))),
            ("tree-is-built-from-exactly-the-table-and-comments-read", from_built),
            ("something-is-returned", lambda E, v, o: v["result"] is not None),
        ],
        notes="any exception class read_swc may raise (ValueError for a bad file, OSError for an unreadable one) must leave as ValueError",
    )


_register_0 = register


def register(R):  # noqa: F811
    _register_0(R)
    register_read(R)


def regex_facts():
    """regex-language facts of this property (contracts/regex_facts.py): obligations C02/regex/<label>"""
    from contracts import regex_facts as RF

    return RF.facts("C02")
