"""C02 — reading keeps every row or fails loudly: sidecar contracts.

The file is ABSTRACT: a source `f` (an int id) delivers NL(f) lines LINE(f, k); reading line k may instead fail to
decode (DECERR(f, k)).  Lines, regex groups and derived strings are opaque string ids (class AStr); what the regexes
/ str methods / int() / float() say about them are uninterpreted functions:

    RE_HIT(method+pattern, s)   the compiled pattern's search/match accepts s       (is_row / is_comment)
    IS_BLANK(s)                 s.isspace()
    GRP(pattern, s, g)          group g of that match
    INT_OK/INT_OF, FLT_OK/FLT_OF   int(s) / float(s): succeeds?, value
    LEN, DROP, RMSUF, STARTS    len(s), s[n:], s.removesuffix(t), s.startswith(t)

so the theorem proved about `parse_swc` holds for EVERY interpretation of them ("for any line grammar"): the table
has exactly one entry per row line, in file order, each field the conversion of the matching group; comments are the
comment lines in order, minus the writer's column header = the LAST comment line in front of the first row line (end of the
file when there is no row) if its text starts like the header; any other line / failed conversion / decode error leaves
through ValueError; a normal return consumed and classified every line; columns are never unevenly filled.
"""
import re

import z3

from pyvc import ext_C01 as IOX
from pyvc import models as M
from pyvc.engine import ProgExc, Unsupported
from pyvc.models import FmtPiece, SymStr
from pyvc.spec import Registry
from pyvc.values import NativeMethod, Obj, Opaque, PDict, PList, SArr, Sym, fresh_name, to_z3, zint

DEPENDS = ["C18", "C05"]  # read_swc relies on the verified contracts of reset_index_ / mark_roots_as_somas_ / link_roots_to_nearest_ / is_single_root (C18) and sort_nodes_ (C05)

# Dtype-faithful casts (pyvc/ext_C05_frame.py: int -> narrower int wraps modulo 2**bits, ...) are ON for parse_swc / read_swc.  For the
# carriers that BUILD the Tree (Tree.from_swc here, Tree.from_data_frame / Tree.__init__ under C01) they are off by default: the UNCHANGED
# Tree.__init__ narrows the int64 table columns to int32 (padding1d(..., dtype=np.int32)), so "every column of the tree is the column of the
# table" is false there for ids / types / parents >= 2**31 (observation, docs/w4/g-c01.md section 4).  VERIF_FAITHFUL_TREE=1 switches it on.
import os as _os

FAITHFUL_TREE_BUILD = _os.environ.get("VERIF_FAITHFUL_TREE") == "1"
FILE = "swcgeom/utils/file.py"
IO = "swcgeom/core/swc_utils/io.py"
TREE = "swcgeom/core/tree.py"
NORM = "swcgeom/core/swc_utils/normalizer.py"
CHK = "swcgeom/core/swc_utils/checker.py"

_I, _B, _R, _S = z3.IntSort(), z3.BoolSort(), z3.RealSort(), z3.StringSort()
CLOSED = z3.Function("closed_after", _I, _B)

NL = z3.Function("n_lines", _I, _I)
LINE = z3.Function("line", _I, _I, _I)
DECERR = z3.Function("decode_error_at", _I, _I, _B)
RE_HIT = z3.Function("re_hit", _S, _I, _B)
GRP = z3.Function("re_group", _S, _I, _I, _I)
IS_BLANK = z3.Function("is_blank", _I, _B)
INT_OK = z3.Function("int_ok", _I, _B)
INT_OF = z3.Function("int_of", _I, _I)
FLT_OK = z3.Function("float_ok", _I, _B)
FLT_OF = z3.Function("float_of", _I, _R)
LEN = z3.Function("strlen", _I, _I)
DROP = z3.Function("drop_prefix", _I, _I, _I)
RMSUF = z3.Function("removesuffix", _I, _S, _I)
STARTS = z3.Function("startswith", _I, _S, _B)
# ghost counters / enumerations (defined by their unfolding, see ghost_axioms)
RCNT = z3.Function("rows_before", _I, _I, _I)
RLINE = z3.Function("row_line", _I, _I, _I)
ACNT = z3.Function("hash_lines_before", _I, _I, _I)      # ALL comment lines among the first k lines (the column header included)
ALINE = z3.Function("hash_line", _I, _I, _I)              # index of the j-th of them
FIRSTROW = z3.Function("first_row_line", _I, _I)          # index of the first row line; n_lines when the file has no row
NLEAD = z3.Function("leading_comment_lines", _I, _I)      # number of comment lines in front of it
HASHDR = z3.Function("has_column_header", _I, _B)         # the last of those starts like the writer's column header
CCNT = z3.Function("comments_before", _I, _I, _I)         # KEPT comment lines (all but the column header) among the first k lines
CLINE = z3.Function("comment_line", _I, _I, _I)           # index of the j-th kept comment line
UNREADABLE = z3.Function("source_unreadable", _I, _B)
ABSPATH = z3.Function("abspath", _I, _I)

# reference grammar, written from the SWC format / property statement (NOT read from the source)
REF_FLOAT = r"([+-]?(?:\d+(?:[.]\d*)?(?:[eE][+-]?\d+)?|[.]\d+(?:[eE][+-]?\d+)?))"
REF_COMMENT = r"^\s*#"


def ref_row_pattern(n_extra):
    cols = [r"([0-9]+)", r"([0-9]+)", REF_FLOAT, REF_FLOAT, REF_FLOAT, REF_FLOAT, r"(-?[0-9]+)"] + [REF_FLOAT] * n_extra
    return r"^\s*" + r"\s+".join(cols) + r"(?=\s|$)\s*([\s+\-.0-9eE]*)$"


CANON = {}  # text of the row pattern the carrier compiles -> the name the contract uses for "the row test" (see _re_compile)


def tag(method, pattern):
    return z3.StringVal(method + ":" + CANON.get(pattern, pattern))


ASTR_MODEL = ("str-model: lines/tokens are abstract strings; isspace, removesuffix, startswith, s[n:], len are uninterpreted functions of them; "
              "truthiness = 'is not the empty string' (id 0)")


class AStr(Sym):
    """an abstract string (opaque id of kind 'ref'); id 0 is the empty string (truthiness)"""

    __slots__ = ()

    def __init__(self, z):
        Sym.__init__(self, z, "ref")

    def __pyvc_getattr__(self, eng, name):
        z = self.z
        eng.assumptions.add(ASTR_MODEL)
        if name == "isspace":
            return NativeMethod(lambda e, r, a, k: e.sbool(IS_BLANK(z)), self, name)
        if name == "removesuffix":
            def rm(e, r, a, k):
                if len(a) != 1 or not isinstance(a[0], str):
                    raise Unsupported("removesuffix of an abstract string with a non-literal argument")
                return AStr(RMSUF(z, z3.StringVal(a[0])))
            return NativeMethod(rm, self, name)
        if name == "startswith":
            def sw(e, r, a, k):
                if len(a) != 1 or not isinstance(a[0], str):
                    raise Unsupported("startswith of an abstract string with a non-literal argument")
                return e.sbool(STARTS(z, z3.StringVal(a[0])))
            return NativeMethod(sw, self, name)
        raise Unsupported(f"str.{name} of an abstract string has no model")

    def __pyvc_getitem__(self, eng, idx):
        eng.assumptions.add(ASTR_MODEL)
        if isinstance(idx, slice) and idx.stop is None and idx.step is None and idx.start is not None:
            return AStr(DROP(self.z, to_z3(idx.start, "int")))
        raise Unsupported("only s[n:] is modelled on an abstract string")


class AMatch:
    """match object of a modelled regex on an abstract string"""

    def __init__(self, ptag, s, pat=None, method=None):
        self.ptag, self.s, self.pat, self.method = ptag, s, pat, method

    def __pyvc_getattr__(self, eng, name):
        if name == "group":
            def group(e, r, a, k):
                g = a[0] if a else 0
                return AStr(GRP(self.ptag, self.s.z, to_z3(g, "int")))
            return NativeMethod(group, self, name)
        if name == "groups" and self.pat is not None:
            # m.groups() = (m.group(1), ..., m.group(k)), k = number of groups of the pattern (every group of the patterns used here takes part in a match)
            def groups(e, r, a, k):
                if a or k:
                    raise Unsupported("match.groups(default) on an abstract string")
                return tuple(AStr(GRP(self.ptag, self.s.z, z3.IntVal(g))) for g in range(1, self.pat.groups + 1))
            return NativeMethod(groups, self, name)
        if name in ("end", "start") and self.method == "match":
            # Pattern.match anchors at position 0: start() = 0 and end() = len(group(0))
            def pos(e, r, a, k):
                if a or k:
                    raise Unsupported(f"match.{name}(group) on an abstract string")
                if name == "start":
                    return 0
                z = LEN(GRP(self.ptag, self.s.z, z3.IntVal(0)))
                e.assume(z >= 0)
                return Sym(z, "int")
            return NativeMethod(pos, self, name)
        raise Unsupported(f"match.{name} on an abstract string")


def _pattern_method(pat, method):
    native = getattr(pat, method)

    def model(eng, args, kwargs):
        if len(args) == 1 and isinstance(args[0], AStr):
            eng.assumptions.add("re-model: pattern.search/match on an abstract line = uninterpreted predicate re_hit(method:pattern, line); groups = re_group(...)")
            t = tag(method, pat.pattern)
            if eng.branch(eng.sbool(RE_HIT(t, args[0].z))):
                return AMatch(t, args[0], pat, method)
            return None
        if M.all_concrete(args, kwargs):
            return native(*[M.unwrap(a) for a in args], **kwargs)
        raise Unsupported("regex applied to a structured string")

    return model


def _register_pattern(pat):
    for m in ("search", "match", "fullmatch"):
        M.EXTRA_MODELS[getattr(pat, m)] = _pattern_method(pat, m)


def _re_compile(eng, args, kwargs):
    if not M.all_concrete(args, kwargs):
        raise Unsupported("re.compile of a symbolic pattern")
    pat = re.compile(*args, **kwargs)
    _register_pattern(pat)  # `re` caches compiled patterns: the same text gives the same object
    if (eng.cur_key or "").endswith(":parse_swc") and not eng.inline_stack and not eng.spec_mode:
        # is_row in the contract means "matches the SWC line grammar written in this file"; the carrier's own pattern must be it
        ex = eng.visible_vars().get("extras")
        n_extra = len(ex.items) if isinstance(ex, PList) and ex.items is not None else 0
        # its TEXT is free; its shape (group c+1 = column c) is checked here and what it accepts by the obligations C02/regex/* (contracts/regex_facts.py)
        from contracts.regex_facts import row_shape_ok

        eng.prove("parse_swc/regex/row-pattern-has-the-swc-line-shape", row_shape_ok(pat.pattern, n_extra, pat.flags), "definition")
        CANON[pat.pattern] = ref_row_pattern(n_extra)
    return pat


M.EXTRA_MODELS[re.compile] = _re_compile


def _int_model(eng, args, kwargs):
    if len(args) == 1 and isinstance(args[0], AStr):
        eng.assumptions.add("int()/float() of an abstract token: uninterpreted value, may raise ValueError (uninterpreted success predicate)")
        if not eng.branch(eng.sbool(INT_OK(args[0].z))):
            raise ProgExc(ValueError, "invalid literal for int()")
        return Sym(INT_OF(args[0].z), "int")
    return M.BUILTIN_MODELS[int](eng, args, kwargs)


def _float_model(eng, args, kwargs):
    if len(args) == 1 and isinstance(args[0], AStr):
        eng.assumptions.add("int()/float() of an abstract token: uninterpreted value, may raise ValueError (uninterpreted success predicate)")
        if not eng.branch(eng.sbool(FLT_OK(args[0].z))):
            raise ProgExc(ValueError, "could not convert string to float")
        return Sym(FLT_OF(args[0].z), "real")
    return M.BUILTIN_MODELS[float](eng, args, kwargs)


def _len_model(eng, args, kwargs):
    if len(args) == 1 and isinstance(args[0], AStr):
        z = LEN(args[0].z)
        eng.assume(z >= 0)
        return Sym(z, "int")
    return M.BUILTIN_MODELS[len](eng, args, kwargs)


M.EXTRA_MODELS[int] = _int_model
M.EXTRA_MODELS[float] = _float_model
M.EXTRA_MODELS[len] = _len_model


def _df_from_dict(eng, args, kwargs):
    """pd.DataFrame.from_dict({name: list}): one column per key; pandas refuses columns of different lengths
    (ValueError 'All arrays must be of the same length') -- here a named obligation."""
    from pyvc.npmodels import DFrame

    (d,) = args
    if kwargs or d.items is None:
        raise Unsupported("DataFrame.from_dict form")
    eng.assumptions.add("pandas-model: DataFrame.from_dict({name: list}) has one column per key holding the list's values; needs equally long lists")
    cols, n0 = {}, None
    for kname, lst in d.items.items():
        if not isinstance(lst, PList):
            raise Unsupported("DataFrame.from_dict column value")
        if lst.items is not None:
            if lst.items:
                raise Unsupported("DataFrame.from_dict of a concrete non-empty list")
            n, arr, kind = 0, z3.K(_I, z3.IntVal(0)), "int"
        else:
            n, arr, kind = lst.n, lst.cols[0], lst.kinds[0]
        if n0 is None:
            n0 = n
        else:
            ok = zint(n) == zint(n0)
            if not eng.spec_mode:
                fn = (eng.cur_key or "?").split(":")[-1]
                eng.prove(f"{fn}/safety/table-columns-equally-long", ok, "safety", "DataFrame.from_dict")
        cols[kname] = SArr(arr, n0 if n0 is not None else n, kind, name=str(kname))
    return DFrame(cols, n0 if n0 is not None else 0)


def _to_numeric(eng, args, kwargs):
    """pd.to_numeric(numeric column[, downcast=...]): the same values; `downcast` picks the smallest dtype that HOLDS every value (pandas
    keeps the dtype when one does not fit), so no value changes (floats are reals here); the resulting width is not recorded"""
    v = args[0] if args else None
    if len(args) != 1 or set(kwargs) - {"downcast", "errors"} or not isinstance(v, SArr) or v.kind not in ("int", "real"):
        raise Unsupported("pd.to_numeric form")
    if kwargs.get("errors", "raise") != "raise" or kwargs.get("downcast") not in (None, "integer", "signed", "unsigned", "float"):
        raise Unsupported("pd.to_numeric options")
    eng.assumptions.add("pandas-model: pd.to_numeric(numeric column, downcast=...) keeps every value (downcast only to a dtype that holds them all); width not recorded")
    return type(v)(v.arr, v.n, v.kind, name=v.name)


def _install_pandas():
    import pandas as pd

    M.EXTRA_MODELS[pd.DataFrame.from_dict] = _df_from_dict
    M.EXTRA_MODELS[pd.to_numeric] = _to_numeric


_install_pandas()


# ---------------------------------------------------------------------------
def file_handle(S, name="fh"):
    def close(eng, recv, args, kwargs):
        eng.ghost.setdefault("closed", []).append(recv.z)
        return None

    return S.opaque({"close": close}, name=name)


def is_row(n_extra, s):
    return RE_HIT(tag("search", ref_row_pattern(n_extra)), s)


def is_comment(n_extra, s):
    """a comment line: not a data row (the row test comes first) and `^\\s*#` matches"""
    return z3.And(z3.Not(is_row(n_extra, s)), RE_HIT(tag("match", REF_COMMENT), s))


def comment_text(s):
    """the line minus the matched `\\s*#` prefix minus one trailing newline"""
    return RMSUF(DROP(s, LEN(GRP(tag("match", REF_COMMENT), s, 0))), z3.StringVal("\n"))


def header_text(names):
    """what is left of the column-header line the WRITER emits ("# id type x y z r pid[ extras]\\n") after the '#'"""
    return " " + " ".join(names.cols())


def starts_like_header(names, s):
    """the text the reader keeps of comment line s starts with the seven column names of the writer's header line"""
    return STARTS(comment_text(s), z3.StringVal(header_text(names)))


def header_ordinal(f):
    """position of the column-header line among the comment lines (meaningful when HASHDR(f))"""
    return NLEAD(f) - 1


def kept_comment(n_extra, names, f, k):
    """line k of f is a comment line the reader returns: a comment line, and not THE column-header line of the file.  Context dependent:
    the column header is the last comment line in front of the first row, and only if it starts like the header the writer emits there;
    a line of the same text anywhere else (an earlier line, a line between / behind the rows) is a comment like any other."""
    return z3.And(is_comment(n_extra, LINE(f, k)), z3.Not(z3.And(HASHDR(f), ACNT(f, k) == header_ordinal(f))))


def conv_ok(n_extra, s):
    """every field of a row line converts"""
    t = tag("search", ref_row_pattern(n_extra))
    return z3.And(*[(INT_OK if c in (0, 1, 6) else FLT_OK)(GRP(t, s, c + 1)) for c in range(7 + n_extra)])


def field(n_extra, s, c):
    t = tag("search", ref_row_pattern(n_extra))
    g = GRP(t, s, c + 1)
    return INT_OF(g) if c in (0, 1, 6) else FLT_OF(g)


def line_ok(n_extra, f, k):
    s = LINE(f, k)
    return z3.And(z3.Not(DECERR(f, k)),
                  z3.Or(z3.And(is_row(n_extra, s), conv_ok(n_extra, s)), is_comment(n_extra, s), z3.And(z3.Not(is_row(n_extra, s)), IS_BLANK(s))))


def ghost_axioms(E, f, n_extra, names):
    """definitions of the ghost counters (primitive recursion over the line index) and of the enumerations of row /
    comment lines (inverse of the strictly increasing counter on the lines it counts); the column header and the kept
    comments are DEFINED from them without recursion (the recursion `comments_before` obeys is the lemma of `lemmas()` below)"""
    k = z3.Int(fresh_name("gk"))
    row = lambda kk: is_row(n_extra, LINE(f, kk))
    hash_ = lambda kk: is_comment(n_extra, LINE(f, kk))
    E.assume(NL(f) >= 0)
    for CNT, ENUM, pred in ((RCNT, RLINE, row), (ACNT, ALINE, hash_)):
        E.assume(CNT(f, 0) == 0)
        E.assume(z3.ForAll([k], z3.Implies(k >= 0, CNT(f, k + 1) == CNT(f, k) + z3.If(pred(k), 1, 0)), patterns=[CNT(f, k + 1)]))
        E.assume(z3.ForAll([k], z3.Implies(k >= 0, z3.And(CNT(f, k) >= 0, CNT(f, k) <= k)), patterns=[CNT(f, k)]))
        E.assume(z3.ForAll([k], z3.Implies(z3.And(k >= 0, pred(k)), ENUM(f, CNT(f, k)) == k), patterns=[CNT(f, k)]))
    # the column header: the LAST comment line in front of the first row line (of the end of the file when no line is a row), if its text starts like it
    E.assume(FIRSTROW(f) == z3.If(RCNT(f, NL(f)) > 0, RLINE(f, 0), NL(f)))
    E.assume(NLEAD(f) == ACNT(f, FIRSTROW(f)))
    E.assume(HASHDR(f) == z3.And(NLEAD(f) > 0, starts_like_header(names, LINE(f, ALINE(f, header_ordinal(f))))))
    # kept comments = the comment lines minus that one: the counter skips it, the enumeration jumps over it
    E.assume(z3.ForAll([k], CCNT(f, k) == ACNT(f, k) - z3.If(z3.And(HASHDR(f), ACNT(f, k) > header_ordinal(f)), 1, 0), patterns=[CCNT(f, k)]))
    E.assume(z3.ForAll([k], CLINE(f, k) == ALINE(f, k + z3.If(z3.And(HASHDR(f), k >= header_ordinal(f)), 1, 0)), patterns=[CLINE(f, k)]))
    E.assumptions.add("ghost definition: rows_before/hash_lines_before(f, k) = number of row / comment lines among the first k lines; row_line/hash_line(f, j) = index "
                      "of the j-th such line; first_row_line(f) = row_line(f, 0), n_lines(f) if no line is a row; leading_comment_lines(f) = hash_lines_before(f, "
                      "first_row_line(f)); has_column_header(f) = the last of these comment lines exists and its kept text starts with ' id type x y z r pid'; "
                      "comments_before(f, k) = hash_lines_before(f, k) minus 1 once the header is among them; comment_line(f, j) = hash_line(f, j), shifted by one from the header on")


def lemmas():
    """`comments_before` / `comment_line` ARE the counter / enumeration of the lines that satisfy the context-dependent `kept_comment`: the two facts that
    used to be their definition (when `kept_comment` was a property of the line alone) follow from the definitions above."""
    from swcgeom.core.swc_utils import get_names

    class Collect:
        def __init__(self):
            self.pc, self.assumptions = [], set()

        def assume(self, fact):
            self.pc.append(fact)

    names = get_names()
    out = []
    for ne in (0, 1):
        E, f, k = Collect(), z3.Int("any_file"), z3.Int("any_line")
        ghost_axioms(E, f, ne, names)
        kept = kept_comment(ne, names, f, k)
        sfx = "" if ne == 0 else "(one-extra-column)"
        out.append((f"comments/comments_before-counts-the-kept-comment-lines:it-moves-by-one-exactly-over-a-kept-comment-line{sfx}", E.pc + [k >= 0],
                    CCNT(f, k + 1) == CCNT(f, k) + z3.If(kept, 1, 0)))
        out.append((f"comments/comment_line-enumerates-the-kept-comment-lines:the-line-behind-ordinal-comments_before(k)-is-k-for-a-kept-line-k{sfx}", E.pc + [k >= 0, kept],
                    CLINE(f, CCNT(f, k)) == k))
        out.append((f"comments/a-comment-line-is-dropped-only-if-it-is-the-last-one-in-front-of-the-first-row-and-starts-like-the-column-header{sfx}",
                    E.pc + [k >= 0, is_comment(ne, LINE(f, k)), z3.Not(kept)],
                    z3.And(ACNT(f, k) == NLEAD(f) - 1, ACNT(f, k + 1) == ACNT(f, FIRSTROW(f)), starts_like_header(names, LINE(f, k)))))
    return out


# ===========================================================================
# FileReader.__init__ / __enter__ : which handle is opened / wrapped for which source kind, with which encoding
def make_source(kind, encoding="utf-8"):
    """the three source kinds of `PathOrIO` as abstract sources (pyvc/ext_C01.py, io section)"""
    if kind == "text-stream":
        return IOX.text_stream("swc_file", encoding)
    if kind == "byte-stream":
        return IOX.byte_stream("swc_file")
    return IOX.path_source("swc_file")


NEUTRAL_OPEN_OPTIONS = {
    # options of open() / io.TextIOWrapper that do not change WHICH text is delivered or whether undecodable bytes raise: buffering
    # strategy and explicit defaults.  Everything else -- errors="ignore"/"replace"/..., newline="\r", a different encoding -- counts.
    "line_buffering": (True, False), "write_through": (True, False), "buffering": (-1, 1, 4096, 8192, 65536, 1 << 20), "errors": (None, "strict"),
    "newline": (None,), "closefd": (True,), "opener": (None,),  # newline="" / "\n" keep "\r" in comment texts of CRLF files, "\r\n" reads an LF file as ONE line: not neutral
}


def relevant_options(kwargs):
    """the keyword arguments of an open / wrap event minus the neutral ones"""
    return {k: v for k, v in kwargs.items() if not (k in NEUTRAL_OPEN_OPTIONS and not isinstance(v, (Sym, Opaque)) and v in NEUTRAL_OPEN_OPTIONS[k])}


def register_reader(R):
    from swcgeom.utils.file import FileReader

    KINDS = ("text-stream", "byte-stream", "path")

    def init_setup(kind, encoding, **kw):
        def f(S):
            IOX.install_io(AStr)
            src = make_source(kind, "latin-1")  # a text stream brings its own encoding, different from every variant's argument
            d = dict(self=S.obj(FileReader), fname=src, encoding=encoding, kwargs=PDict(dict(kw)), g_kind=kind, g_kw=dict(kw))
            if encoding == "detect":
                d["low_confidence"] = S.real("low_confidence")
            return d

        return f

    def init_fields(E, v, o):
        """the source is kept in exactly one of f / fb / fname, by kind; the other two stay None / None / ''"""
        fl, src, kind = v["self"].fields, o["fname"], o["g_kind"]
        want = dict(f=src if kind == "text-stream" else None, fb=src if kind == "byte-stream" else None, fname=src if kind == "path" else "")
        return all((fl.get(k) is w) if isinstance(w, Opaque) else (k in fl and fl[k] == w and not isinstance(fl[k], Opaque)) for k, w in want.items())

    def init_encoding(E, v, o):
        """a text stream decodes itself: its own encoding is recorded whatever was asked for (detection skipped); otherwise the
        encoding asked for, or -- for 'detect' -- what chardet names for the source's bytes, utf-8 when it names none"""
        enc, src, kind = v["self"].fields.get("encoding"), o["fname"], o["g_kind"]
        if kind == "text-stream":
            return enc == "latin-1"
        if o["encoding"] != "detect":
            return enc == o["encoding"]
        det = IOX.events(E, "detect")
        if len(det) != 1 or not det[0]["data"].z.eq(IOX.BYTES_OF(src.z)):
            return False  # chardet is asked once, about the bytes of THIS source
        return (enc is det[0]["encoding"]) if det[0]["encoding"] is not None else enc == "utf-8"

    def init_io(E, v, o):
        """construction touches the source only to detect the encoding: a byte stream is read once and REWOUND, a path is opened
        'rb' once, read and closed again; nothing is opened for text reading, wrapped or left open"""
        ev, src, kind = IOX.events(E), o["fname"], o["g_kind"]
        ops = [e["op"] for e in ev]
        if kind == "text-stream" or o["encoding"] != "detect":
            return ops == []
        if kind == "byte-stream":
            return ops == ["read", "seek", "detect"] and ev[0]["handle"] is src and ev[1]["handle"] is src and IOX.position(E, src) == 0
        h = ev[0]["handle"] if ev else None
        return (ops == ["open", "read", "close", "detect"] and ev[0]["name"] is src and ev[0]["mode"] == "rb" and ev[0]["kwargs"] == {}
                and ev[1]["handle"] is h and ev[2]["handle"] is h)

    def init_kwargs(E, v, o):
        kw = v["self"].fields.get("kwargs")
        return isinstance(kw, PDict) and kw.items == o["g_kw"]

    def init_may_raise(E, v, o):
        return z3.And(z3.BoolVal(v["g_kind"] == "path" and v["encoding"] == "detect"), IOX.UNREADABLE(v["fname"].z))

    R.add(
        f"{FILE}:FileReader.__init__",
        prop="C02",
        variants={f"{k},encoding={e}": init_setup(k, e, **({"errors": "strict"} if (k, e) == ("path", "utf-8") else {}))
                  for k in KINDS for e in ("utf-8", "gbk", "detect")},
        raises={"OSError": ("only-when-detecting-the-encoding-of-an-unreadable-path", init_may_raise)},
        ensures=[
            ("source-kept-in-exactly-one-of-f-fb-fname-by-kind", init_fields),
            ("encoding:own-for-a-text-stream-else-as-asked-else-detected-or-utf-8", init_encoding),
            ("source-touched-only-for-detection:byte-stream-read-once-and-rewound,path-opened-rb-once-and-closed", init_io),
            ("extra-keyword-arguments-stored-for-open", init_kwargs),
        ],
        notes="source abstract (pyvc/ext_C01.py io section); 3 source kinds x (utf-8 | another codec | detect); detect_encoding is INLINED (real code), "
              "chardet.detect / open / BytesIO.read / seek are assumed models",
    )

    # ---------------------------------------------------------------- __enter__
    def enter_setup(kind, state="fresh", **kw):
        def f(S):
            IOX.install_io(AStr)
            src = make_source(kind)
            enc = S.opaque({"__isinstance__": (str,)}, "encoding")  # any encoding name
            fl = dict(fname=src if kind == "path" else "", fb=src if kind == "byte-stream" else None, f=src if kind == "text-stream" else None,
                      encoding=enc, kwargs=PDict(dict(kw)))
            if state == "entered-before":  # a reader whose __enter__ ran already: self.f holds that handle
                fl["f"] = IOX.text_handle(src.z, "earlier_handle")
            return dict(self=S.obj(FileReader, **fl), g_kind=kind, g_src=src, g_kw=dict(kw), g_state=state, g_enc=enc, g_f0=fl["f"])

        return f

    def enter_stored(E, v, o):
        return v["result"] is not None and v["result"] is v["self"].fields.get("f")

    def enter_handle(E, v, o):
        """text stream: the stream itself; byte stream: ONE TextIOWrapper over self.fb with self.encoding; path: ONE open(self.fname,
        'r', encoding=self.encoding, **self.kwargs); nothing else is opened, wrapped, read or closed.  (A byte-stream reader wraps
        again on re-entry, a path reader re-uses the handle it has.)"""
        ev, kind, src, r = IOX.events(E), o["g_kind"], o["g_src"], v["result"]
        ops = [e["op"] for e in ev]
        if kind == "text-stream" or (kind == "path" and o["g_state"] == "entered-before"):
            return ops == [] and r is o["g_f0"]
        if kind == "byte-stream":
            return (ops == ["wrap"] and ev[0]["handle"] is r and ev[0]["buffer"] is src and ev[0]["encoding"] is o["g_enc"] and relevant_options(ev[0]["kwargs"]) == {})
        return (ops == ["open"] and ev[0]["handle"] is r and ev[0]["name"] is src and ev[0]["mode"] == "r" and ev[0]["encoding"] is o["g_enc"]
                and relevant_options(ev[0]["kwargs"]) == relevant_options(o["g_kw"]))

    def enter_lines(E, v, o):
        """the handle returned delivers the lines of the reader's source"""
        r = v["result"]
        return isinstance(r, Opaque) and getattr(r, "src", None) is not None and r.src.eq(o["g_src"].z)

    def enter_fields_kept(E, v, o):
        fl, kind, src = v["self"].fields, o["g_kind"], o["g_src"]
        return ((fl.get("fname") is src if kind == "path" else fl.get("fname") == "") and (fl.get("fb") is src if kind == "byte-stream" else fl.get("fb") is None)
                and fl.get("encoding") is o["g_enc"] and isinstance(fl.get("kwargs"), PDict) and fl["kwargs"].items == o["g_kw"])

    def enter_may_raise(E, v, o):
        return z3.And(z3.BoolVal(v["g_kind"] == "path" and v["g_state"] == "fresh"), IOX.UNREADABLE(v["g_src"].z))

    R.add(
        f"{FILE}:FileReader.__enter__",
        prop="C02",
        variants={
            "text-stream": enter_setup("text-stream"),
            "byte-stream": enter_setup("byte-stream"),
            "byte-stream,entered-before": enter_setup("byte-stream", "entered-before"),
            "path": enter_setup("path"),
            "path,extra-open-arguments": enter_setup("path", errors="replace", newline=""),
            "path,entered-before": enter_setup("path", "entered-before"),
        },
        requires=[("byte-stream-at-its-start(a-fresh-stream,or-rewound-by-__init__)", lambda E, v, o: IOX.position(E, v["g_src"]) == 0 if v["g_kind"] == "byte-stream" else True)],
        raises={"OSError": ("only-for-an-unreadable-path", enter_may_raise)},
        ensures=[
            ("returns-the-handle-it-stores-in-self.f", enter_stored),
            ("handle:the-text-stream-itself|one-TextIOWrapper-over-the-byte-stream|one-open-of-the-path-for-reading,with-the-reader's-encoding-and-nothing-else", enter_handle),
            ("the-handle-delivers-the-lines-of-the-reader's-source", enter_lines),
            ("source-encoding-and-open-arguments-not-changed", enter_fields_kept),
        ],
        notes="NOT trusted any more: verified against the assumed models of open / io.TextIOWrapper (pyvc/ext_C01.py); inlined at its call site in parse_swc",
    )


def register(R: Registry):
    from swcgeom.utils.file import FileReader

    IOX.install_io(AStr)

    def reader(S, with_handle=True):
        # the handle an earlier __enter__ returned: a text handle over some source (close() logged, .closed readable)
        return S.obj(FileReader, fname="", fb=None, f=IOX.text_handle(z3.Int(fresh_name("some_source")), "fh") if with_handle else None, encoding="utf-8", kwargs={})

    def handle_closed(E, v, o):
        f = o["self"].fields["f"]
        if not (E.cur_key or "").endswith(":FileReader.__exit__"):
            return CLOSED(f.z) if isinstance(f, Opaque) else True  # at a call site: an (unused) fact about a ghost predicate
        return f is None or any(z.eq(f.z) for z in E.ghost.get("closed", []))

    def nothing_else_closed(E, v, o):
        f, closed = o["self"].fields["f"], E.ghost.get("closed", [])
        if not (E.cur_key or "").endswith(":FileReader.__exit__"):
            return True
        return (not closed) if f is None else (len(closed) == 1 and closed[0].eq(f.z))

    R.add(
        f"{FILE}:FileReader.__exit__",
        prop="C02",
        variants={
            "exception-in-body": lambda S: dict(self=reader(S), exc_type=ValueError, exc_val=S.opaque({}, "exc"), exc_tb=None),
            "decode-error-in-body": lambda S: dict(self=reader(S), exc_type=UnicodeDecodeError, exc_val=S.opaque({}, "exc"), exc_tb=None),
            "normal-exit": lambda S: dict(self=reader(S), exc_type=None, exc_val=None, exc_tb=None),
            "never-opened": lambda S: dict(self=reader(S, False), exc_type=ValueError, exc_val=S.opaque({}, "exc"), exc_tb=None),
        },
        returns="bool",
        ensures=[
            # Python's `with` rule: a true result swallows the exception raised in the body.
            "does-not-suppress :: implies(not is_none(exc_type), not result)",
            ("closes-the-handle", handle_closed),
            ("closes-it-once-and-closes-nothing-else(a-reader-that-was-never-entered-closes-nothing)", nothing_else_closed),
        ],
    )

    register_reader(R)
    register_parse(R)


# ===========================================================================
# parse_swc
def _plen(p):
    return zint(len(p.items)) if p.items is not None else zint(p.n)


def register_parse(R):
    from swcgeom.core.swc_utils import get_names

    names = get_names()

    def parse_setup(extra, kind, encoding="utf-8"):
        def f(S):
            import swcgeom.core.swc_utils.io as io_mod

            IOX.install_io(AStr)
            S.eng.ghost["dtype-faithful"] = True  # astype / np.asarray(dtype=) on the parsed columns: dtype-faithful casts (pyvc/ext_C05_frame.py)

            for g in list(vars(io_mod).values()):  # module-level compiled patterns (RE_COMMENT)
                if isinstance(g, re.Pattern):
                    _register_pattern(g)
            src = make_source(kind)
            return dict(fname=src, names=names, extra_cols=PList(list(extra)) if extra else None, encoding=encoding, g_extra=list(extra or []), g_kind=kind)

        return f

    def ctx(v):
        return v["fname"].z, len(v["g_extra"])

    def axioms(E, fr):
        ghost_axioms(E, fr.vars["fname"].z, len(fr.vars["g_extra"]), names)

    def declare_element_types(E, v, o):
        # type annotation for the loop cut: vals[c] is a list of ints (id, type, pid) or of floats
        for c, lst in enumerate(v["vals"].items):
            lst.hint = "int" if c in (0, 1, 6) else "real"
        return True

    def the_handle(v):
        """the text handle over the source being parsed (whatever local holds it)"""
        hs = [h for h in IOX.handles_in(v) if h.src.eq(v["fname"].z)]
        return hs[0] if len(hs) == 1 else None

    def K(v):
        """number of lines of the source the reading loop has dealt with at its head: a `for` loop over a sequence of lines the handle
        handed out (iteration, readlines, read + splitlines ...) is `_k0` items into that sequence, which starts at line `seq_start`; a
        `while` loop that pulls the lines itself (readline / next) stands where the handle's ghost cursor stands"""
        h = the_handle(v)
        if "_k0" in v:
            return to_z3(v["_k0"], "int") + (h.cursor.seq_start if h is not None else 0)
        if h is None:
            raise Unsupported("parse_swc: a reading loop without a sequence index and without a text handle over the source")
        return h.cursor.z

    def loop_moves_the_cursor(eng, fr):
        """loop state the body reaches through the handle only: its ghost cursor, when the loop pulls lines itself (a `while` loop; a
        `for` loop over a handed-out sequence is positioned by its own index)"""
        from pyvc.loops import _visible

        vs = _visible(fr)
        return IOX.Cursors([] if "_k0" in vs else [h.cursor for h in IOX.handles_in(vs)])

    def inv_equal(E, v, o):
        f, ne = ctx(v)
        return z3.And(*[_plen(p) == RCNT(f, K(v)) for p in v["vals"].items])

    def inv_fields(E, v, o):
        f, ne = ctx(v)
        out = []
        for c, p in enumerate(v["vals"].items):
            if p.items is not None:
                if p.items:
                    return False
                continue
            j = z3.Int(fresh_name("j"))
            out.append(z3.ForAll([j], z3.Implies(z3.And(j >= 0, j < zint(p.n)), z3.Select(p.cols[0], j) == field(ne, LINE(f, RLINE(f, j)), c))))
        return z3.And(*out) if out else True

    def all_comments_are(f, ne, p, upto):
        """p holds the texts of ALL comment lines among the first `upto` lines, in file order"""
        if p.items is not None:
            if p.items:
                return False
            return ACNT(f, upto) == 0
        j = z3.Int(fresh_name("j"))
        return z3.And(zint(p.n) == ACNT(f, upto),
                      z3.ForAll([j], z3.Implies(z3.And(j >= 0, j < zint(p.n)), z3.Select(p.cols[0], j) == comment_text(LINE(f, ALINE(f, j))))))

    def comments_are(f, ne, p):
        """p holds the texts of the KEPT comment lines of the whole file, in file order"""
        if p.items is not None:
            if p.items:
                return False
            return CCNT(f, NL(f)) == 0
        j = z3.Int(fresh_name("j"))
        return z3.And(zint(p.n) == CCNT(f, NL(f)),
                      z3.ForAll([j], z3.Implies(z3.And(j >= 0, j < zint(p.n)), z3.Select(p.cols[0], j) == comment_text(LINE(f, CLINE(f, j))))))

    def inv_comments(E, v, o):
        # the loop keeps EVERY comment line; which of them is the column header is decided behind the loop
        f, ne = ctx(v)
        return all_comments_are(f, ne, v["comments"], K(v))

    def leading_count_name():
        """the local in which the loop remembers how many comment lines came in front of the first row: the name that is assigned `len(<the comment
        list>)` INSIDE the loop (read from the source as it is now, so that the invariant does not spell the name); None when there is no such local"""
        import ast as _ast

        from pyvc import extract

        try:
            fn = extract.find(f"{IO}:parse_swc")[0]  # the AST the symbolic executor runs (locals re-anchored by pyvc/align.py after a mere rename)
        except KeyError:
            return None
        loops_ = [n for n in _ast.walk(fn) if isinstance(n, _ast.For)]
        for node in (_ast.walk(loops_[0]) if loops_ else ()):
            if (isinstance(node, _ast.Assign) and len(node.targets) == 1 and isinstance(node.targets[0], _ast.Name) and isinstance(node.value, _ast.Call)
                    and isinstance(node.value.func, _ast.Name) and node.value.func.id == "len" and len(node.value.args) == 1
                    and isinstance(node.value.args[0], _ast.Name) and node.value.args[0].id == "comments"):
                return node.targets[0].id
        return None

    def inv_leading(E, v, o):
        """once a row line has been met the local holds the number of comment lines in front of the FIRST one (and that many comments are in the
        list); before, it holds its negative start value"""
        f, ne = ctx(v)
        nm = leading_count_name()
        if nm is None or nm not in v:
            return True  # a reader that keeps no such count is judged by the postcondition alone
        c = to_z3(v[nm], "int")
        return z3.And((c < 0) == (RCNT(f, K(v)) == 0),
                      z3.Implies(c >= 0, z3.And(c == ACNT(f, RLINE(f, 0)), c <= _plen(v["comments"]))))

    def comment_texts(eng, lst):
        # the entries of the comment list are abstract strings (what the loop appends; `comments[i].startswith(...)` behind the loop)
        lst.promote("ref")
        lst.proto = {"__wrap__": AStr}

    def inv_consumed(E, v, o):
        f, ne = ctx(v)
        j = z3.Int(fresh_name("j"))
        return z3.ForAll([j], z3.Implies(z3.And(j >= 0, j < K(v)), line_ok(ne, f, j)))

    def post_count(E, v, o):
        f, ne = ctx(v)
        df, _ = v["result"]
        return z3.And(list(df.cols) == names.cols() + v["g_extra"], zint(df.n) == RCNT(f, NL(f)))

    def post_fields(E, v, o):
        f, ne = ctx(v)
        df, _ = v["result"]
        out = []
        for c, key in enumerate(names.cols() + v["g_extra"]):
            if key not in df.cols:
                return False
            a = df.cols[key]
            j = z3.Int(fresh_name("j"))
            out.append(z3.ForAll([j], z3.Implies(z3.And(j >= 0, j < zint(df.n)), z3.Select(a.arr, j) == field(ne, LINE(f, RLINE(f, j)), c))))
        return z3.And(*out)

    def post_comments(E, v, o):
        f, ne = ctx(v)
        _, cm = v["result"]
        return comments_are(f, ne, cm)

    def post_consumed(E, v, o):
        f, ne = ctx(v)
        j = z3.Int(fresh_name("j"))
        return z3.ForAll([j], z3.Implies(z3.And(j >= 0, j < NL(f)), line_ok(ne, f, j)))

    def may_raise(E, v, o):
        f, ne = ctx(v)
        j = z3.Int(fresh_name("j"))
        return z3.Exists([j], z3.And(j >= 0, j < NL(f), z3.Not(line_ok(ne, f, j))))

    def post_io(E, v, o):
        """the source is opened for text reading exactly once, the way its kind demands, with the requested encoding (for 'detect':
        what chardet named, else utf-8), and the handle the reader opened is closed again when parse_swc returns"""
        if "g_kind" not in v:
            return True  # at a call site nothing is known about the source kind
        kind, src = v["g_kind"], v["fname"]
        ev = [e for e in IOX.events(E) if e["op"] in ("open", "wrap") and e.get("mode", "r") != "rb"]
        if kind == "text-stream":
            return ev == []
        if len(ev) != 1 or ev[0]["op"] != ("wrap" if kind == "byte-stream" else "open") or ev[0].get("buffer", ev[0].get("name")) is not src or relevant_options(ev[0]["kwargs"]) != {}:
            return False
        enc = ev[0]["encoding"]
        if o["encoding"] != "detect":
            ok = enc == o["encoding"]
        else:
            det = IOX.events(E, "detect")
            ok = len(det) == 1 and ((enc is det[0]["encoding"]) if det[0]["encoding"] is not None else enc == "utf-8")
        return z3.And(z3.BoolVal(bool(ok)), CLOSED(ev[0]["handle"].z))

    def parse_result(S, fr):
        extra = fr.vars.get("extra_cols")
        extra = list(extra.items) if isinstance(extra, PList) and extra.items else []
        cols = {c: ("int" if j in (0, 1, 6) else "real") for j, c in enumerate(names.cols() + extra)}
        from pyvc.values import snapshot

        df, cm = S.dframe(cols, name="parsed"), S.plist("ref", name="comments")
        S.eng.ghost.setdefault("parsed", []).append(dict(df=df, comments=cm, df0=snapshot(df), comments0=snapshot(cm)))
        return (df, cm)

    def at_site(v):
        # at a call site (read_swc) the extra-column list is taken from the argument
        if "g_extra" not in v:
            e = v.get("extra_cols")
            v["g_extra"] = list(e.items) if isinstance(e, PList) and e.items else []
        return v

    def wrap(fn):
        return lambda E, v, o: fn(E, at_site(v), o)

    R.add(
        f"{IO}:parse_swc",
        prop="C02",
        variants={
            "path": parse_setup(None, "path"),
            "path+one-extra-column": parse_setup(["e"], "path"),
            "byte-stream": parse_setup(None, "byte-stream"),
            "text-stream": parse_setup(None, "text-stream"),
            "byte-stream,encoding=detect": parse_setup(None, "byte-stream", "detect"),
            "path,encoding=detect": parse_setup(None, "path", "detect"),
        },
        lemmas=[axioms],
        returns=parse_result,
        raises={"ValueError": ("only-when-some-line-is-bad-or-undecodable", wrap(may_raise)),
                "OSError": ("only-when-the-source-is-unreadable(open-fails)", lambda E, v, o: IOX.UNREADABLE(v["fname"].z))},
        ensures=[
            ("one-table-entry-per-row-line", wrap(post_count)),
            ("every-field-is-the-conversion-of-its-group-in-file-order", wrap(post_fields)),
            ("comments-are-the-comment-lines-minus-the-column-header-in-order", wrap(post_comments)),
            ("every-line-was-read-and-is-a-row-a-comment-or-blank", wrap(post_consumed)),
            ("source-opened-once-for-its-kind-with-the-requested-encoding-and-closed-on-return", post_io),
        ],
        loops={0: dict(
            invariant=[("columns-equally-filled-one-entry-per-row-line-so-far", inv_equal),
                       ("fields-are-the-conversions-of-the-row-groups", inv_fields),
                       ("comments-so-far", inv_comments),
                       ("number-of-comment-lines-in-front-of-the-first-row-remembered", inv_leading),
                       ("lines-so-far-read-and-classified", inv_consumed)],
            modifies=[loop_moves_the_cursor],
            types={"comments": comment_texts})},
        options=dict(asserts_after={"vals": [("element-types-declared", declare_element_types)]}),
        notes="number of lines, every line, every token and every converted value symbolic/abstract; the inner loop over the "
              "seven (eight) conversions is unrolled; source kinds path / byte stream / text stream and 0/1 extra column as variants",
    )


# ===========================================================================
# read_swc (dispatch) and Tree.from_swc (error wrapping)
def register_read(R):
    from pyvc.values import snapshot
    from swcgeom.core.swc_utils import get_names

    names = get_names()
    NCOLS = names.cols()

    # every callee is used through its VERIFIED contract: parse_swc (this module), mark_roots_as_somas_ / link_roots_to_nearest_ /
    # reset_index_ / is_single_root (contracts/C18.py), sort_nodes_ (contracts/C05.py).  Their preconditions become obligations
    # `read_swc/call:<callee>/pre/...` here and are discharged from read_swc's own preconditions on the FILE's table:
    #   always                      every parent id names the id of some row (otherwise the real code leaves with a KeyError of the
    #                               connectivity check: loud, but outside this contract)
    #   fix_roots='nearest' or      the file describes a forest: ids pairwise distinct, no cycle (depth witness dp18, root function comp18)
    #   sort_nodes=True
    #   sort_nodes=True without     exactly one root row (sort_nodes_impl asserts it)
    #   root repair
    from types import SimpleNamespace

    from contracts import C05 as K5
    from contracts import C18 as K18

    def file_table(E, f):
        """the (id, pid) columns the file's rows describe, as a frame-like pair of arrays (lambda terms over the abstract fields)"""
        key = ("file-table", f.get_id())
        if key not in E.ghost:
            j = z3.Int("jf02")
            n = RCNT(f, NL(f))
            E.ghost[key] = (SimpleNamespace(cols={"id": SArr(z3.Lambda([j], field(0, LINE(f, RLINE(f, j)), 0)), n, "int", name="file_id"),
                                                  "pid": SArr(z3.Lambda([j], field(0, LINE(f, RLINE(f, j)), 6)), n, "int", name="file_pid")}, n=n), f)
        return E.ghost[key][0]

    def needs_forest(v):
        return v["fix_roots"] == "nearest" or bool(v["sort_nodes"])

    def wanted_pre(v):
        out = ["every-parent-id-names-a-row"]
        if needs_forest(v):
            out += ["ids-pairwise-distinct-and-never-the-marker", "no-cycle(dp18-is-the-depth)", "comp18-is-the-row-of-the-root"]
        return out

    def pre_table(which):
        def f(E, v, o):
            if which not in wanted_pre(v):
                return True
            return K18.forest_pre(E, file_table(E, v["swc_file"].z), which)

        return (which + "(file)", f)

    def pre_one_root_when_sorting_unrepaired(E, v, o):
        if not (v["sort_nodes"] and v["fix_roots"] is False):
            return True
        T = K18.Table18(E, file_table(E, v["swc_file"].z))
        a, b = z3.Int("a18"), z3.Int("b18")
        return z3.ForAll([a, b], z3.Implies(z3.And(T.R(a), T.R(b), z3.Select(T.PID, a) == -1, z3.Select(T.PID, b) == -1), a == b))

    def define_sort_ghosts(E, v):
        """runs just before the first precondition of the call sort_nodes_(df) is emitted.  C05's contract of sort_nodes_ speaks about the
        table through ghost symbols (P0 root row, posof row of an id, pp parent row, depth5 depth).  They occur nowhere else in this proof, so
        they are DEFINED here by explicit terms over the table at hand (a definition by an explicit term cannot be inconsistent):
            P0 := the first root row,  posof(k) := the last row carrying id k,  pp(p) := the row carrying p's parent id,
            depth5(p) := the depth of p   -- dp18 (file forest) when no repair ran; dp18 + 1 outside the first tree after `somas`;
                                             the depth witness of link_roots_to_nearest_'s contract after `nearest`."""
        df = v["df"]
        T = K18.Table18(E, df)
        p, a, b = z3.Int("p02"), z3.Int("a18"), z3.Int("b18")
        E.prove("read_swc/step/the-table-to-sort-has-a-root", z3.Exists([a], z3.And(T.R(a), z3.Select(T.PID, a) == -1)), "annotation")
        r0 = K18._first_root(E, df)
        marks, links = calls(E, "mark_roots_as_somas_"), calls(E, "link_roots_to_nearest_")
        if links:
            depth = z3.Select(E.ghost["link-witness"][1], p)
        elif marks:
            depth = K18.dp18(p) + z3.If(K18.comp18(p) != r0, 1, 0)
        else:
            depth = K18.dp18(p)
            # no repair ran although one was requested: np.count_nonzero(pid == -1) > 1 was false.  Two root rows would count at least 2
            # (induction on the table length: Lean `count_two`), so there is at most one.
            for fcnt, mask in E.ghost.get("cnt-functions", []):
                E.assume(z3.ForAll([a, b], z3.Implies(z3.And(0 <= a, a < b, b < T.n, to_z3(mask.get(a), "bool"), to_z3(mask.get(b), "bool")), fcnt(T.n) >= 2)))
                E.assumptions.add("assumed-lemma:count-of-two-marked-positions-is-at-least-2 (induction on the array length) instantiated for the root-row mask in read_swc")
        E.ghost["table-handed-to-the-sort"] = snapshot(df)  # what the sorted-read clauses compare the result with
        E.assume(K5.P0 == r0)
        E.assume(z3.ForAll([p], K5.posof(p) == K18.lastrow(E, T.ID, T.n)(p)))
        E.assume(z3.ForAll([p], K5.pp(p) == T.e(p)))
        E.assume(z3.ForAll([p], K5.depth5(p) == depth))
        E.assumptions.add("ghost definition (read_swc, at the call of sort_nodes_): C05's table witnesses P0 / posof / pp / depth5 are defined by explicit terms over the table handed to sort_nodes_")

    def table_as_parsed(E, v, o):
        """annotation after `df, comments = parse_swc(...)`: the parsed frame satisfies what was required of the file's table"""
        df = v["df"]
        return z3.And(*[K18.forest_pre(E, df, w) for w in wanted_pre(o)])

    def read_setup(fix_roots, sort_nodes, reset_index):
        def f(S):
            S.eng.ghost["dtype-faithful"] = True
            src = S.opaque({}, "swc_file")
            return dict(swc_file=src, extra_cols=None, fix_roots=fix_roots, sort_nodes=sort_nodes, reset_index=reset_index,
                        encoding="utf-8", names=None)

        return f

    def axioms(E, fr):
        ghost_axioms(E, fr.vars["swc_file"].z, 0, names)

    def rows(f):
        return RCNT(f, NL(f))

    def pre_root(E, v, o):
        f = v["swc_file"].z
        j = z3.Int(fresh_name("j"))
        return z3.Exists([j], z3.And(j >= 0, j < rows(f), field(0, LINE(f, RLINE(f, j)), 6) == -1))

    def pre_ids(E, v, o):
        f = v["swc_file"].z
        j = z3.Int(fresh_name("j"))
        return z3.ForAll([j], z3.Implies(z3.And(j >= 0, j < rows(f)), field(0, LINE(f, RLINE(f, j)), 0) >= 0))

    def calls(E, name):
        return [a for nm, a in E.call_log if nm == name]

    def parsed(E):
        ps = E.ghost.get("parsed", [])
        return ps[0] if len(ps) == 1 else None

    def post_same_objects(E, v, o):
        p = parsed(E)
        if p is None or len(calls(E, "parse_swc")) != 1:
            return False
        a = calls(E, "parse_swc")[0]
        df, cm = v["result"]
        ok = df is p["df"] and cm is p["comments"] and a["fname"] is o["swc_file"] and a["extra_cols"] is None and a["encoding"] == "utf-8"
        if not ok:
            return False
        c0 = p["comments0"]
        return z3.And(zint(cm.n) == zint(c0.n), cm.cols[0] == c0.cols[0])  # the comment list is returned untouched

    def post_repair(E, v, o):
        fr_ = o["fix_roots"]
        nm, nl = len(calls(E, "mark_roots_as_somas_")), len(calls(E, "link_roots_to_nearest_"))
        cnts = [g for k_, g in E.ghost.items() if isinstance(k_, tuple) and k_ and k_[0] == "cnt"]
        if fr_ is False:
            return nm == 0 and nl == 0 and not cnts
        p = parsed(E)
        if p is None or len(cnts) != 1:
            return False
        # the count the dispatch is based on is the number of parsed rows whose parent is -1
        cnt, pid0 = cnts[0], p["df0"].cols[names.pid]
        i = z3.Int(fresh_name("i"))
        is_root_count = z3.And(cnt(0) == 0, z3.ForAll([i], z3.Implies(i >= 0, cnt(i + 1) == cnt(i) + z3.If(z3.Select(pid0.arr, i) == -1, 1, 0)), patterns=[cnt(i + 1)]))
        several = cnt(zint(p["df0"].n)) > 1
        want_m = 1 if fr_ == "somas" else 0
        want_l = 1 if fr_ == "nearest" else 0
        if nm > 1 or nl > 1 or nm > want_m or nl > want_l:
            return False
        for a in calls(E, "mark_roots_as_somas_") + calls(E, "link_roots_to_nearest_"):
            if a["df"] is not p["df"]:
                return False
        return z3.And(is_root_count, several == z3.BoolVal(nm + nl == 1) if fr_ in ("somas", "nearest") else z3.BoolVal(nm + nl == 0))

    def post_renumber(E, v, o):
        p = parsed(E)
        ns, nr = calls(E, "sort_nodes_"), calls(E, "reset_index_")
        want_s = 1 if o["sort_nodes"] else 0
        want_r = 1 if (not o["sort_nodes"] and o["reset_index"]) else 0
        if p is None or len(ns) != want_s or len(nr) != want_r:
            return False
        return all(a["df"] is p["df"] for a in ns + nr)

    def post_nothing_else(E, v, o):
        allowed = {"parse_swc", "mark_roots_as_somas_", "link_roots_to_nearest_", "sort_nodes_", "reset_index_", "is_single_root"}
        return all(nm in allowed for nm, _ in E.call_log) and len(calls(E, "is_single_root")) == 1

    def post_attributes(E, v, o):
        """without root repair / sorting the node attributes are exactly what the rows say (ids only re-based)"""
        p = parsed(E)
        if p is None:
            return False
        if o["sort_nodes"] or calls(E, "mark_roots_as_somas_") or calls(E, "link_roots_to_nearest_"):
            return True
        df, _ = v["result"]
        keep = NCOLS if not o["reset_index"] else [c for c in NCOLS if c not in (names.id, names.pid)]
        f = o["swc_file"].z
        out = [zint(df.n) == rows(f)]
        for c in keep:
            j = z3.Int(fresh_name("j"))
            out.append(z3.ForAll([j], z3.Implies(z3.And(j >= 0, j < zint(df.n)), z3.Select(df.cols[c].arr, j) == field(0, LINE(f, RLINE(f, j)), NCOLS.index(c)))))
        return z3.And(*out)

    def post_repaired(which):
        """C18: a root repair returns a single-rooted table that keeps the first root, every original edge and every node attribute
        (ids / parent ids re-based on the first root's id when reset_index is on)"""
        def f(E, v, o):
            p = parsed(E)
            if p is None:
                return False
            if o["sort_nodes"] or not (calls(E, "mark_roots_as_somas_") or calls(E, "link_roots_to_nearest_")):
                return True
            df, _ = v["result"]
            d0 = p["df0"]
            n = zint(d0.n)
            key = ("first-root-of-the-parsed-table", d0.cols[names.pid].arr.get_id())
            if key not in E.ghost:
                E.ghost[key] = (K18._first_root(E, d0), d0)
            r0 = E.ghost[key][0]
            sel = z3.Select
            shift = sel(d0.cols[names.id].arr, r0) if o["reset_index"] else z3.IntVal(0)
            x = z3.Int("x02")
            R_ = z3.And(x >= 0, x < n)
            P0, P1 = d0.cols[names.pid].arr, df.cols[names.pid].arr
            if which == "first-root-kept":
                return z3.And(zint(df.n) == n, sel(P1, r0) == -1)
            if which == "no-other-root":
                # re-basing maps the id (first root's id - 1) to the marker -1 (DESIGN 9.3, recorded observation): "no other root" is claimed
                # for files in which no row carries that id, e.g. whenever the first root carries the smallest id
                hyp = z3.ForAll([x], z3.Implies(R_, sel(d0.cols[names.id].arr, x) != shift - 1)) if o["reset_index"] else z3.BoolVal(True)
                return z3.Implies(hyp, z3.ForAll([x], z3.Implies(z3.And(R_, x != r0), sel(P1, x) != -1)))
            if which == "every-original-edge-kept":
                return z3.ForAll([x], z3.Implies(z3.And(R_, sel(P0, x) != -1), sel(P1, x) == sel(P0, x) - shift))
            if which == "ids-and-attributes-kept":
                out = [z3.ForAll([x], z3.Implies(R_, sel(df.cols[names.id].arr, x) == sel(d0.cols[names.id].arr, x) - shift))]
                for c in NCOLS:
                    if c not in (names.id, names.pid):
                        out.append(z3.ForAll([x], z3.Implies(R_, sel(df.cols[c].arr, x) == sel(d0.cols[c].arr, x))))
                return z3.And(*out)
            raise KeyError(which)

        return f

    def post_sorted(which):
        """the sorted-read clause of the property, on the RESULT of read_swc(sort_nodes=True) (not only "sort_nodes_ was called"): the returned
        table is a relabelling of the table handed to the sort -- which, without a root repair, is the file's table row by row -- through a
        one-to-one map sigma between returned rows and file rows (C05's index array; inverse: C05's ghost `newof`):
        id = row position, root in row 0, parents before children, every attribute column read through sigma, and the parent ID of
        file row sigma[k] is the ID carried by file row sigma[parent of k]: the returned tree is isomorphic to the graph of the file."""
        def g(E, v, o):
            if not o["sort_nodes"]:
                return True
            df, _ = v["result"]
            if not hasattr(df, "cols") or any(c not in df.cols for c in NCOLS):
                return False
            n1 = zint(df.n)
            ID1, PID1 = df.cols[names.id].arr, df.cols[names.pid].arr
            k, q = z3.Int(fresh_name("k")), z3.Int(fresh_name("q"))
            sel = z3.Select
            R1 = lambda t: z3.And(t >= 0, t < n1)
            p = parsed(E)
            if p is None:
                return False
            repaired = bool(calls(E, "mark_roots_as_somas_") or calls(E, "link_roots_to_nearest_"))
            # ---- about the result alone
            if which == "id-column-equals-row-position":
                rows_kept = n1 == zint(p["df0"].n)
                return z3.And(rows_kept, z3.ForAll([k], z3.Implies(R1(k), sel(ID1, k) == k)))
            if which == "root-is-row-0-and-parents-precede-children":
                return z3.And(sel(PID1, 0) == -1, z3.ForAll([k], z3.Implies(z3.And(0 < k, k < n1), z3.And(0 <= sel(PID1, k), sel(PID1, k) < k))))
            # ---- relative to the table handed to the sort, through the bijection
            T0, w = E.ghost.get("table-handed-to-the-sort"), E.ghost.get("sort-witness")
            if T0 is None or w is None or any(c not in T0.cols for c in NCOLS):
                return False  # no sort_nodes_ call on this path: no witness of the relabelling
            sg = w["__result__"][1].arr
            ID0, PID0 = T0.cols[names.id].arr, T0.cols[names.pid].arr
            if which == "one-to-one-between-returned-rows-and-file-rows":
                return z3.And(zint(T0.n) == n1,
                              z3.ForAll([k], z3.Implies(R1(k), z3.And(R1(sel(sg, k)), K5.newof(sel(sg, k)) == k))),
                              z3.ForAll([q], z3.Implies(R1(q), z3.And(R1(K5.newof(q)), sel(sg, K5.newof(q)) == q))))
            if which == "every-attribute-column-follows-the-bijection":
                out = []
                for c in NCOLS:
                    if c not in (names.id, names.pid):
                        out.append(z3.ForAll([k], z3.Implies(R1(k), sel(df.cols[c].arr, k) == sel(T0.cols[c].arr, sel(sg, k)))))
                return z3.And(set(df.cols) == set(T0.cols), *out)
            if which == "parent-ids-read-through-the-bijection-name-the-file's-parents":
                return z3.And(sel(PID0, sel(sg, 0)) == -1,
                              z3.ForAll([k], z3.Implies(z3.And(0 < k, k < n1), sel(PID0, sel(sg, k)) == sel(ID0, sel(sg, sel(PID1, k))))))
            if which == "without-root-repair-the-sorted-table-is-the-file's-row-by-row":
                if repaired:
                    return True
                f = o["swc_file"].z
                out = [zint(T0.n) == rows(f)]
                for c in NCOLS:
                    out.append(z3.ForAll([k], z3.Implies(z3.And(k >= 0, k < rows(f)), sel(T0.cols[c].arr, k) == field(0, LINE(f, RLINE(f, k)), NCOLS.index(c)))))
                return z3.And(*out)
            raise KeyError(which)

        return g

    SORTED_READ = ["id-column-equals-row-position", "root-is-row-0-and-parents-precede-children", "one-to-one-between-returned-rows-and-file-rows",
                   "every-attribute-column-follows-the-bijection", "parent-ids-read-through-the-bijection-name-the-file's-parents",
                   "without-root-repair-the-sorted-table-is-the-file's-row-by-row"]

    def may_raise(E, v, o):
        f = v["swc_file"].z
        j = z3.Int(fresh_name("j"))
        bad_line = z3.Exists([j], z3.And(j >= 0, j < NL(f), z3.Not(line_ok(0, f, j))))
        return z3.Or(bad_line, z3.BoolVal(v["fix_roots"] not in (False, "somas", "nearest")))

    def read_result(S, fr):
        cols = {c: ("int" if j in (0, 1, 6) else "real") for j, c in enumerate(NCOLS)}
        df, cm = S.dframe(cols, name="table"), S.plist("ref", name="comments")
        S.eng.ghost.setdefault("read", []).append(dict(df=df, comments=cm))
        return (df, cm)

    def site(fn):
        # at a call site (Tree.from_swc) the effect clauses about read_swc's own execution say nothing
        return lambda E, v, o: True if (E.cur_key or "").endswith("from_swc") else fn(E, v, o)

    variants = {}
    for fx in (False, "somas", "nearest", "bogus"):
        for sn in (False, True):
            for ri in (True, False):
                variants[f"fix_roots={fx},sort_nodes={sn},reset_index={ri}"] = read_setup(fx, sn, ri)

    R.add(
        f"{IO}:read_swc",
        prop="C02",
        variants=variants,
        lemmas=[axioms],
        options=dict(asserts_after={"df": [("the-parsed-table-is-the-file's-table", table_as_parsed)]},
                     hints={"call:sort_nodes_/pre/at-least-one-row": define_sort_ghosts}),
        returns=read_result,
        requires=[("file-has-a-root-row", pre_root), ("row-ids-are-unsigned(regex fact: the id group is [0-9]+)", pre_ids)]
        + [pre_table(w) for w in K18.FOREST_PRE[1:]] + [("one-root-row-when-sorting-without-root-repair(file)", pre_one_root_when_sorting_unrepaired)],
        raises={"ValueError": ("only-for-a-bad-file-or-an-unknown-fix-mode", may_raise),
                # at call sites: the file may also be unreadable (open() fails) -- never raised by the modelled body itself
                "OSError": ("unreadable-source", lambda E, v, o: UNREADABLE(v["swc_file"].z))},
        ensures=[
            ("returns-the-parsed-table-and-the-untouched-comment-list", site(post_same_objects)),
        ] + [("sorted-read/" + w, site(post_sorted(w))) for w in SORTED_READ] + [
            # the sorted-read clauses (about the returned table itself) stand BEFORE the clauses about which helper ran: a short-cut is then
            # judged by what it returns, not only by the absence of the expected call
            ("root-repair-only-with-several-roots-and-only-the-requested-one", site(post_repair)),
            ("sort-nodes-else-reset-index-else-neither", site(post_renumber)),
            ("no-other-call-touches-the-table(warnings-only-warn)", site(post_nothing_else)),
            ("attributes-are-what-the-rows-say", site(post_attributes)),
            ("root-repair/first-root-kept", site(post_repaired("first-root-kept"))),
            ("root-repair/no-other-root", site(post_repaired("no-other-root"))),
            ("root-repair/every-original-edge-kept", site(post_repaired("every-original-edge-kept"))),
            ("root-repair/ids-and-attributes-kept", site(post_repaired("ids-and-attributes-kept"))),
        ],
        notes="file abstract (see parse_swc); all 16 combinations of fix_roots x sort_nodes x reset_index as variants; "
              "precondition: the file has a row whose parent is -1 (reset_index_/mark_roots_as_somas_ need a root)",
    )

    # ------------------------------------------------------------ Tree.from_swc
    # NOTE on the key: contracts/C19.py registers an ASSUMED contract under the natural key "…:Tree.from_swc" (its
    # population carriers call it modularly).  The registry holds one contract per key, so the VERIFIED contract of
    # the same function is registered under an alias that resolves to the same source (extract skips "<locals>").
    FROM_SWC = f"{TREE}:Tree.<locals>.from_swc"

    def abspath_model(eng, args, kwargs):
        """os.path.abspath of an abstract path: an abstract string determined by the path (nothing else is assumed)"""
        (pth,) = args
        if isinstance(pth, Opaque):
            eng.assumptions.add("os-model: os.path.abspath(path) of an abstract path is an abstract string abspath(path)")
            return AStr(ABSPATH(pth.z))
        import os

        return os.path.abspath(pth)

    def from_setup(kind, **options):
        def f(S):
            import os

            from pyvc import ext_C01
            from swcgeom.core.tree import Tree

            ext_C01.install()
            if FAITHFUL_TREE_BUILD:
                S.eng.ghost["dtype-faithful"] = True
            M.EXTRA_MODELS[os.path.abspath] = abspath_model
            src = S.opaque({"__isinstance__": (str,)} if kind == "path" else {}, "swc_file")
            return dict(cls=Tree, swc_file=src, g_kind=kind, kwargs=PDict(dict(options)))

        return f

    def bad_source(v):
        f = v["swc_file"].z
        j = z3.Int(fresh_name("j"))
        return z3.Or(z3.Exists([j], z3.And(j >= 0, j < NL(f), z3.Not(line_ok(0, f, j)))), UNREADABLE(f))

    def the_read(E, o):
        rd, cs = E.ghost.get("read", []), calls(E, "read_swc")
        if len(rd) != 1 or len(cs) != 1 or cs[0]["swc_file"] is not o["swc_file"]:
            return None
        return rd[0]

    READ_DEFAULTS = dict(extra_cols=None, fix_roots=False, sort_nodes=False, reset_index=True, encoding="utf-8", names=None)

    def from_read_once(E, v, o):
        """one read_swc call, on the source given, with exactly the caller's options (everything else at read_swc's defaults)"""
        if the_read(E, o) is None:
            return False
        a, want = calls(E, "read_swc")[0], dict(READ_DEFAULTS)
        want.update(o["kwargs"].items)
        return all(a[k] == w if not isinstance(w, PList) else a[k] is w for k, w in want.items())

    def tree_cols(v):
        from swcgeom.core.tree import Tree

        t = v["result"]
        if not isinstance(t, Obj) or t.cls is not Tree:
            return None
        nd = t.fields.get("ndata")
        return nd.items if nd is not None and getattr(nd, "items", None) is not None else None

    def from_columns(E, v, o):
        """every column of the tree is the corresponding column of the table read_swc returned: same length (= number of
        rows of the table), same value at every row, in row order"""
        rd, nd = the_read(E, o), tree_cols(v)
        if rd is None or nd is None or list(nd) != NCOLS:
            return False
        df, out = rd["df"], []
        for c in NCOLS:
            a, g = nd[c], df.cols[c]
            if not isinstance(a, SArr) or a.kind != g.kind:
                return False
            j = z3.Int(fresh_name("j"))
            out.append(z3.And(a.nz() == zint(df.n), z3.ForAll([j], z3.Implies(z3.And(j >= 0, j < zint(df.n)), z3.Select(a.arr, j) == z3.Select(g.arr, j)))))
        return z3.And(*out)

    def from_dtypes(E, v, o):
        import numpy as np

        nd = tree_cols(v)
        return nd is not None and all(isinstance(nd[c], SArr) and nd[c].dtype == np.dtype("int32" if j in (0, 1, 6) else "float32") for j, c in enumerate(NCOLS))

    def from_comments(E, v, o):
        rd = the_read(E, o)
        if rd is None or tree_cols(v) is None:
            return False
        cm, c0 = v["result"].fields.get("comments"), rd["comments"]
        if not isinstance(cm, PList) or cm.items is not None or cm is c0:
            return False
        return z3.And(zint(cm.n) == zint(c0.n), cm.cols[0] == c0.cols[0])

    def from_source(E, v, o):
        if tree_cols(v) is None:
            return False
        src = v["result"].fields.get("source")
        if o["g_kind"] == "path":
            return isinstance(src, AStr) and src.z.eq(ABSPATH(o["swc_file"].z))
        return src == ""

    def lifted_read_pre(pre):
        lab, f = pre

        def g(E, v, o):
            opts = dict(READ_DEFAULTS)
            opts.update(v["kwargs"].items)
            vv = dict(opts, swc_file=v["swc_file"])
            return f(E, vv, vv)

        return (lab, g)

    R.add(
        FROM_SWC,
        prop="C02",
        variants={"stream-source": from_setup("stream"), "path-source": from_setup("path"),
                  "stream-source,sort_nodes=True": from_setup("stream", sort_nodes=True),
                  "path-source,reset_index=False,fix_roots=somas": from_setup("path", reset_index=False, fix_roots="somas")},
        # read_swc's own preconditions, lifted to the caller for the options it passes on (forest preconditions only when sorting /
        # linking to the nearest node is requested)
        requires=[("file-has-a-root-row", pre_root), ("row-ids-are-unsigned(regex fact: the id group is [0-9]+)", pre_ids)]
        + [lifted_read_pre(pre_table(w)) for w in K18.FOREST_PRE[1:]]
        + [lifted_read_pre(("one-root-row-when-sorting-without-root-repair(file)", pre_one_root_when_sorting_unrepaired))],
        raises={"ValueError": ("only-when-the-source-is-bad-or-unreadable", lambda E, v, o: bad_source(v))},
        ensures=[
            ("a-tree-is-returned-only-for-a-clean-readable-source(no-error-swallowed)", lambda E, v, o: z3.Not(bad_source(v))),
            ("read_swc-is-called-exactly-once-on-the-source-given-with-the-caller's-options", from_read_once),
            ("every-column-of-the-tree-equals-the-corresponding-column-of-the-table-read(n-nodes=#rows,row-order)", from_columns),
            ("int-columns-stored-as-int32-float-columns-as-float32", from_dtypes),
            ("comments-are-the-comments-read-in-order-in-a-list-of-the-tree's-own", from_comments),
            ("source-is-the-absolute-path-for-a-path-source-else-empty", from_source),
            # the two labels of the earlier (weaker) contract, kept so that obligation names stay stable
            ("tree-is-built-from-exactly-the-table-and-comments-read", lambda E, v, o: z3.And(to_z3(E.truth(from_columns(E, v, o)), "bool"), to_z3(E.truth(from_comments(E, v, o)), "bool"))),
            ("something-is-returned", lambda E, v, o: v["result"] is not None),
        ],
        notes="any exception class read_swc may raise (ValueError for a bad file, OSError for an unreadable one) must leave as ValueError; "
              "a parent id that names no row is outside the domain (the real code leaves with ValueError wrapping the KeyError of the connectivity check)"
              "; Tree.from_data_frame / Tree.__init__ / padding1d / DictSWC.__init__ are INLINED (real code), read_swc enters through its contract",
    )


# ===========================================================================
# read_swc: plumbing of `extra_cols` / `names` / `encoding` into parse_swc.  The dispatch contract above (all fix_roots x sort_nodes x
# reset_index combinations) fixes extra_cols=None, names=None, encoding='utf-8'; this second contract of the SAME function (registered
# under an alias key that resolves to the same source, like Tree.from_swc) varies exactly those three and keeps the dispatch options
# at their defaults / reset_index off.
def register_read_plumbing(R):
    from pyvc.values import Callback, fresh
    from swcgeom.core.swc_utils import get_names

    names = get_names()
    NCOLS = names.cols()

    def single_root_stub(eng, args, kwargs):
        eng.assumptions.add("assumed-contract(local to read_swc): is_single_root is pure")
        eng.call_log.append(("is_single_root", dict(df=args[0], kwargs=dict(kwargs))))
        return fresh("bool", "is_single_root")

    def setup(extra, names_given, encoding, reset_index):
        def f(S):
            IOX.install_io(AStr)
            S.eng.ghost["dtype-faithful"] = True
            ex = PList(list(extra)) if extra is not None else None
            if ex is not None:
                ex.frozen = True
            return dict(swc_file=S.opaque({}, "swc_file"), extra_cols=ex, fix_roots=False, sort_nodes=False, reset_index=reset_index,
                        encoding=encoding, names=(names if names_given else None), g_extra=list(extra or []))

        return f

    def ne(v):
        return len(v["g_extra"])

    def axioms(E, fr):
        ghost_axioms(E, fr.vars["swc_file"].z, len(fr.vars["g_extra"]), names)

    def rows(f):
        return RCNT(f, NL(f))

    def pre_root(E, v, o):
        f, j = v["swc_file"].z, z3.Int(fresh_name("j"))
        return z3.Exists([j], z3.And(j >= 0, j < rows(f), field(ne(v), LINE(f, RLINE(f, j)), 6) == -1))

    def calls(E, name):
        return [a for nm, a in E.call_log if nm == name]

    def parsed(E):
        ps = E.ghost.get("parsed", [])
        return ps[0] if len(ps) == 1 else None

    def post_plumbing(E, v, o):
        cs = calls(E, "parse_swc")
        if len(cs) != 1 or parsed(E) is None:
            return False
        a = cs[0]
        return (a["fname"] is o["swc_file"] and a["extra_cols"] is v["extra_cols"] and a["encoding"] == o["encoding"] and a["names"] == names
                and a["names"] is (o["names"] if o["names"] is not None else a["names"]))

    def post_table(E, v, o):
        p = parsed(E)
        if p is None:
            return False
        df, cm = v["result"]
        if df is not p["df"] or cm is not p["comments"] or list(df.cols) != NCOLS + v["g_extra"]:
            return False
        c0 = p["comments0"]
        return z3.And(zint(cm.n) == zint(c0.n), cm.cols[0] == c0.cols[0])

    def post_values(E, v, o):
        """one entry per row line; every column - the requested extra ones included - holds what the rows say (ids / parents re-based
        when reset_index is on: that arithmetic is C18's contract of reset_index_)"""
        p = parsed(E)
        if p is None:
            return False
        df, _ = v["result"]
        f, allc = o["swc_file"].z, NCOLS + v["g_extra"]
        keep = [c for c in allc if not (o["reset_index"] and c in (names.id, names.pid))]
        if any(c not in df.cols for c in allc):
            return False
        out = [zint(df.n) == rows(f)]
        for c in keep:
            j = z3.Int(fresh_name("j"))
            out.append(z3.ForAll([j], z3.Implies(z3.And(j >= 0, j < zint(df.n)), z3.Select(df.cols[c].arr, j) == field(ne(v), LINE(f, RLINE(f, j)), allc.index(c)))))
        return z3.And(*out)

    def post_names_to_checker(E, v, o):
        cs = calls(E, "is_single_root")
        return len(cs) == 1 and cs[0]["kwargs"].get("names") == names and set(cs[0]["kwargs"]) == {"names"}

    def may_raise(E, v, o):
        f, j = v["swc_file"].z, z3.Int(fresh_name("j"))
        return z3.Exists([j], z3.And(j >= 0, j < NL(f), z3.Not(line_ok(ne(v), f, j))))

    R.add(
        f"{IO}:<locals>.read_swc",
        prop="C02",
        variants={
            "one-extra-column,names-omitted,encoding=gbk,reset_index": setup(["e"], False, "gbk", True),
            "two-extra-columns,names-given,encoding=detect,no-reset": setup(["e", "g"], True, "detect", False),
            "no-extra-column,names-given,encoding=utf-8,reset_index": setup(None, True, "utf-8", True),
            "empty-extra-list,names-omitted,encoding=latin-1,no-reset": setup([], False, "latin-1", False),
        },
        lemmas=[axioms],
        options=dict(globals_override={"is_single_root": Callback("is_single_root", single_root_stub)}),
        requires=[("file-has-a-root-row", pre_root)],
        raises={"ValueError": ("only-for-a-bad-file", may_raise),
                "OSError": ("unreadable-source", lambda E, v, o: UNREADABLE(v["swc_file"].z))},
        ensures=[
            ("parse_swc-called-once-with-the-caller's-source-extra-columns-encoding-and-names(default-names-when-omitted)", post_plumbing),
            ("returns-the-parsed-table-with-the-seven-columns-then-the-extra-columns-and-the-untouched-comment-list", post_table),
            ("one-entry-per-row-and-every-column-extra-ones-included-holds-what-the-rows-say", post_values),
            ("the-same-names-go-to-the-single-root-check", post_names_to_checker),
        ],
        notes="second contract of read_swc (alias key): extra_cols / names / encoding vary, dispatch options at defaults; is_single_root is a local "
              "assumed stand-in (pure, only feeds a warning), parse_swc and reset_index_ enter through their verified contracts",
    )


_register_0 = register


def register(R):  # noqa: F811
    _register_0(R)
    register_read(R)
    register_read_plumbing(R)


def regex_facts():
    """regex-language facts of this property (contracts/regex_facts.py): obligations C02/regex/<label>"""
    from contracts import regex_facts as RF

    return RF.facts("C02")
