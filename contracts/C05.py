"""C05 — node renumbering is a pure relabelling with parents before children.

`sort_nodes_impl((ids, pids))` is verified for tables of ANY length with arbitrary distinct ids in arbitrary row order:
    precondition   ids pairwise distinct and != -1; exactly one row p0 has pid -1; every other pid names the id of a row (ghost parent
                   position pp) and every row reaches p0 (ghost depth witness).
    postcondition  with sigma = the returned index array (new id -> old row):  sigma is a bijection of [0, n);  new_ids = 0..n-1;
                   new_pids[0] = -1 and sigma[0] = p0;  for k > 0: 0 <= new_pids[k] < k and sigma[new_pids[k]] = pp(sigma[k])
                   (the parent relation is preserved and parents come first).
Ghost state: a slot permutation (slot / at) whose first new_id slots hold the visited rows in visiting order — it carries the counting
argument (new_id < n at every store, new_id = n at the end) that z3 cannot do by itself; stk_of = stack position of a pending row.
"""
import z3

from pyvc import ext_C05, ext_C05_frame
from pyvc.spec import Registry
from pyvc.values import Obj, PList, SArr, Sym, fresh_name, to_z3, zint

NORM = "swcgeom/core/swc_utils/normalizer.py"
I, B = z3.IntSort(), z3.BoolSort()
pp = z3.Function("pp", I, I)          # ghost: row of a row's parent
posof = z3.Function("posof", I, I)    # ghost: row carrying an id
depth5 = z3.Function("depth5", I, I)


class Ghost5:
    pass


def sel(a, i):
    return z3.Select(a, i)


P0 = z3.Int("rootrow5")              # ghost: the row of the unique root
newof = z3.Function("newof", I, I)    # ghost: inverse of the returned index array (old row -> new id)


def conc(n):
    """the row count as a Python int when it is a concrete number (tables of a fixed size), else None"""
    if isinstance(n, int) and not isinstance(n, bool):
        return n
    if z3.is_int_value(n):
        return n.as_long()
    return None


def fa(vs, n, body):
    """`forall vs in [0, n): body` -- a quantified formula for a symbolic n, the conjunction of its instances for a concrete one
    (`body` must be trivially true outside the range: every caller guards it with R(..))"""
    m = conc(n)
    if m is None:
        return z3.ForAll(vs, body)
    import itertools

    insts = [z3.substitute(body, *[(x, z3.IntVal(c)) for x, c in zip(vs, combo)]) for combo in itertools.product(range(m), repeat=len(vs))]
    return z3.simplify(z3.And(*insts)) if insts else z3.BoolVal(True)


def table_pre(A, P, n):
    """the input domain of C05 as formulas over the id / pid arrays (ghost symbols pp, posof, depth5, P0)"""
    a, b, p = z3.Int(fresh_name("a")), z3.Int(fresh_name("b")), z3.Int(fresh_name("p"))
    R = lambda t: z3.And(t >= 0, t < n)
    return [
        ("at-least-one-row", n >= 1),
        ("ids-pairwise-distinct", fa([a, b], n, z3.Implies(z3.And(R(a), R(b), a != b), sel(A, a) != sel(A, b)))),
        ("minus-one-is-the-marker-never-an-id", fa([p], n, z3.Implies(R(p), z3.And(sel(A, p) != -1, posof(sel(A, p)) == p)))),
        ("exactly-one-root-row", z3.And(R(P0), sel(P, P0) == -1, fa([p], n, z3.Implies(z3.And(R(p), p != P0), sel(P, p) != -1)))),
        ("every-other-parent-id-names-a-row", fa([p], n, z3.Implies(z3.And(R(p), p != P0), z3.And(R(pp(p)), sel(P, p) == sel(A, pp(p)))))),
        ("every-row-reaches-the-root", z3.And(depth5(P0) == 0, fa([p], n, z3.Implies(z3.And(R(p), p != P0), z3.And(depth5(p) == depth5(pp(p)) + 1, depth5(p) > 0))))),
    ]


def pre_clauses(get):
    """requires-clauses: `get(v)` returns (A, P, n) of the table in the parameter frame"""
    out = []
    for k, (lab, _) in enumerate(table_pre(z3.K(I, z3.IntVal(0)), z3.K(I, z3.IntVal(0)), z3.IntVal(1))):
        out.append((lab, (lambda kk: lambda E, v, o: table_pre(*get(v))[kk][1])(k)))
    return out


import os as _os
FIXED_SIZES = tuple(int(x) for x in _os.environ.get('C05_SIZES','1,2,3,4,5,6').split(','))
FIXED_NOTE = ("second registration on tables of a fixed number of rows (contents symbolic): loops whose trip count follows from the row count "
              "are executed, the clauses are decided at that size")


def fixed_name(m):
    return f"{m} rows, any ids in any row order"


def setup(S, size=None):
    if size is None:
        n = S.int("n")
        S.assume(n.z >= 0)
    else:
        n = Sym(z3.IntVal(size), "int")
    ids, pids = S.arr("int", n=n if size is None else size, name="old_ids"), S.arr("int", n=n if size is None else size, name="old_pids")
    p = z3.Int("p5")
    ident = z3.Lambda([p], p)
    G = Obj(Ghost5, dict(slot=SArr(ident, n.z, "int", name="slot"), at=SArr(ident, n.z, "int", name="at"), stk_of=SArr(z3.K(I, z3.IntVal(-1)), n.z, "int", name="stk_of")))
    return dict(topology=(ids, pids), G=G)


def T(E, v):
    ids, pids = v["topology"]
    return ids.arr, pids.arr, ids.nz(), P0


def stack_view(st):
    if st.items is None:
        return st.cols[0], st.cols[1], zint(st.n)
    ia, qa = z3.K(I, z3.IntVal(0)), z3.K(I, z3.IntVal(0))
    for k, (x, q) in enumerate(st.items):
        ia, qa = z3.Store(ia, k, to_z3(x, "int")), z3.Store(qa, k, to_z3(q, "int"))
    return ia, qa, z3.IntVal(len(st.items))


def inv(which):
    def f(E, v, o):
        A, P, n, p0 = T(E, v)
        G = v["G"]
        slot, at, stk_of = G.fields["slot"].arr, G.fields["at"].arr, G.fields["stk_of"].arr
        new_id = to_z3(v["new_id"], "int")
        sid, sq, ln = stack_view(v["s"])
        id_map, new_pids = v["id_map"].arr, v["new_pids"].arr
        R = lambda t: z3.And(t >= 0, t < n)
        V = lambda t: sel(slot, t) < new_id
        on = lambda c: z3.And(0 <= sel(stk_of, c), sel(stk_of, c) < ln, sel(sid, sel(stk_of, c)) == sel(A, c))
        p, t, k, i, c = (z3.Int(fresh_name(x)) for x in "ptkic")
        if which == "slot-permutation":
            return z3.And(0 <= new_id, new_id <= n, ln >= 0, v["id_map"].nz() == n, v["new_pids"].nz() == n,
                          z3.ForAll([p], z3.Implies(R(p), z3.And(R(sel(slot, p)), sel(at, sel(slot, p)) == p))),
                          z3.ForAll([t], z3.Implies(R(t), z3.And(R(sel(at, t)), sel(slot, sel(at, t)) == t))))
        if which == "visited-prefix":
            return z3.ForAll([k], z3.Implies(z3.And(0 <= k, k < new_id), sel(id_map, k) == sel(A, sel(at, k))))
        if which == "parents-first":
            return z3.And(z3.Implies(new_id > 0, z3.And(sel(at, 0) == p0, sel(new_pids, 0) == -1)),
                          z3.ForAll([k], z3.Implies(z3.And(0 < k, k < new_id), z3.And(0 <= sel(new_pids, k), sel(new_pids, k) < k, sel(at, sel(new_pids, k)) == pp(sel(at, k))))))
        if which == "stack-entries":
            cc = posof(sel(sid, i))
            return z3.ForAll([i], z3.Implies(z3.And(0 <= i, i < ln), z3.And(R(cc), sel(A, cc) == sel(sid, i), z3.Not(V(cc)), sel(stk_of, cc) == i,
                                                                           z3.If(cc == p0, sel(sq, i) == -1, z3.And(V(pp(cc)), sel(sq, i) == sel(slot, pp(cc)))))))
        if which == "complete":
            return z3.And(z3.Or(V(p0), on(p0)), z3.ForAll([c], z3.Implies(z3.And(R(c), c != p0, V(pp(c))), z3.Or(V(c), on(c)))))
        if which == "visited-closed-upward":
            return z3.ForAll([c], z3.Implies(z3.And(R(c), c != p0, V(c)), V(pp(c))))
        raise KeyError(which)

    return f


INV = [(nm, inv(nm)) for nm in ("slot-permutation", "visited-prefix", "parents-first", "stack-entries", "complete", "visited-closed-upward")]


# ---------------------------------------------------------------------------- ghost code
def g_init(E, v):
    G = v["G"]
    G.fields["stk_of"].arr = z3.Store(G.fields["stk_of"].arr, P0, 0)


def g_visit(E, v):
    """row p = posof(old_id) takes slot new_id; the row that held that slot takes p's old slot"""
    G = v["G"]
    slot, at = G.fields["slot"].arr, G.fields["at"].arr
    new_id = to_z3(v["new_id"], "int")
    p = posof(to_z3(v["old_id"], "int"))
    t, q = sel(slot, p), sel(at, new_id)
    G.fields["slot"].arr = z3.Store(z3.Store(slot, q, t), p, new_id)
    G.fields["at"].arr = z3.Store(z3.Store(at, t, q), new_id, p)


def g_push_children(E, v):
    """the rows selected by the mask go on the stack in row order: row c sits at old_length + rho(c)"""
    G = v["G"]
    flt = getattr(E, "last_filter", None)
    if flt is None:
        return
    _, _, ln = stack_view(v["s"])
    m = flt.nz()
    c = z3.Int(fresh_name("c"))
    old = G.fields["stk_of"].arr
    n = v["topology"][0].nz()
    G.fields["stk_of"].arr = z3.Lambda([c], z3.If(z3.And(c >= 0, c < n, flt.mask.get(c).z), (ln - m) + flt.rho(c), sel(old, c)))


def _is_stack_init(txt):
    """the statement that creates the stack: an assignment (annotated or not) of a one-element list holding a pair `(<root id>, -1)`,
    whatever the stack and the root id are called / however the root id is spelled (anchor on the statement's shape, not on its names)"""
    import ast as _ast

    try:
        st = _ast.parse(txt).body[0]
    except (SyntaxError, IndexError):
        return False
    v = st.value if isinstance(st, (_ast.Assign, _ast.AnnAssign)) else None
    return (isinstance(v, _ast.List) and len(v.elts) == 1 and isinstance(v.elts[0], _ast.Tuple) and len(v.elts[0].elts) == 2
            and _ast.unparse(v.elts[0].elts[1]) == "-1")


GHOST = [
    (_is_stack_init, g_init),
    ("id_map[new_id] = old_id", g_visit),
    (lambda txt: txt.startswith("s.extend("), g_push_children),
]


# ---------------------------------------------------------------------------- postconditions
def view(a):
    """a result column as an SArr: arrays of a concrete shape (`np.arange(6)`, an array built cell by cell) are read as a z3 array of that
    length, so that one clause text serves tables of symbolic and of fixed size"""
    from pyvc.values import NArr

    if isinstance(a, NArr) and a.ndim == 1 and a.kind in ("int", "bool"):
        arr = z3.K(I, z3.IntVal(0))
        for j, x in enumerate(a.items):
            arr = z3.Store(arr, j, to_z3(x, "int"))
        return SArr(arr, len(a.items), "int", name="column")
    return a


def post(which, witness_free=False):
    def f(E, v, o):
        A, P, n, p0 = T(E, v)
        res = v["result"]
        (new_ids, new_pids), sigma = res
        new_ids, new_pids, sigma = view(new_ids), view(new_pids), view(sigma)
        if not all(isinstance(x, SArr) for x in (new_ids, new_pids, sigma)):
            return False
        k, p = z3.Int(fresh_name("k")), z3.Int(fresh_name("p"))
        R = lambda t: z3.And(t >= 0, t < n)
        inv_sigma = z3.Lambda([p], newof(p))  # the ghost inverse of sigma
        if which == "lengths":
            return z3.And(new_ids.nz() == n, new_pids.nz() == n, sigma.nz() == n)
        if which == "one-to-one-between-old-and-new-nodes":
            if witness_free:
                # tables of a fixed size: "a one-to-one map of [0, n) onto itself" needs no inverse as a witness -- n pairwise different
                # rows of [0, n) are all of them
                return z3.And(fa([k], n, z3.Implies(R(k), R(sigma.get(k).z))),
                              fa([k, p], n, z3.Implies(z3.And(R(k), R(p), k != p), sigma.get(k).z != sigma.get(p).z)))
            return z3.And(z3.ForAll([k], z3.Implies(R(k), z3.And(R(sigma.get(k).z), sel(inv_sigma, sigma.get(k).z) == k))),
                          z3.ForAll([p], z3.Implies(R(p), z3.And(R(sel(inv_sigma, p)), sigma.get(sel(inv_sigma, p)).z == p))))
        if which == "new-ids-are-0-to-n-1":
            return fa([k], n, z3.Implies(R(k), new_ids.get(k).z == k))
        if which == "root-is-0":
            return z3.And(new_pids.get(0).z == -1, sigma.get(0).z == p0)
        if which == "parent-relation-preserved-and-parents-first":
            return fa([k], n, z3.Implies(z3.And(0 < k, k < n), z3.And(0 <= new_pids.get(k).z, new_pids.get(k).z < k, sigma.get(new_pids.get(k).z).z == pp(sigma.get(k).z))))
        if which == "parent-id-of-a-renumbered-node-is-the-id-of-the-row-behind-its-new-parent":
            # the same fact without ghost vocabulary, in the ids of the table itself: the row indices[k] names as its parent the id
            # carried by the row indices[new_pids[k]]; the row indices[0] is the root row
            return z3.And(z3.Implies(n > 0, sel(P, sigma.get(0).z) == -1),
                          fa([k], n, z3.Implies(z3.And(0 < k, k < n), sel(P, sigma.get(k).z) == sel(A, sigma.get(new_pids.get(k).z).z))))
        raise KeyError(which)

    return f


def exit_hint(E, v):
    """all rows visited at the exit: tree induction over the parent-position function (assumed lemma, Lean `tree_induction`)"""
    if "G" not in v or "s" not in v:
        return
    A, P, n, p0 = T(E, v)
    slot = v["G"].fields["slot"].arr
    new_id = to_z3(v["new_id"], "int")
    V = lambda t: sel(slot, t) < new_id
    c, x = z3.Int(fresh_name("c")), z3.Int(fresh_name("x"))
    R = lambda t: z3.And(t >= 0, t < n)
    base = V(p0)
    step = z3.ForAll([c], z3.Implies(z3.And(R(c), c != p0, V(pp(c))), V(c)))
    E.prove("sort_nodes_impl/step/root-visited", base, "annotation")
    E.prove("sort_nodes_impl/step/children-of-visited-rows-visited", step, "annotation")
    E.assume(z3.Implies(z3.And(base, step), z3.ForAll([x], z3.Implies(R(x), V(x)))))
    E.assumptions.add("assumed-lemma:tree_induction (depth witness) instantiated for P = visited in sort_nodes_impl")
    at = v["G"].fields["at"].arr
    last = sel(at, n - 1)
    E.prove("sort_nodes_impl/step/last-slot-is-held-by-a-row", z3.And(R(last), sel(slot, last) == n - 1), "annotation")
    E.prove("sort_nodes_impl/step/every-row-numbered", new_id == n, "annotation")
    # ghost definition (once, at the exit of the loop): newof := the final slot map
    E.assume(z3.ForAll([x], newof(x) == sel(slot, x)))


def after_loop(E, v, o):
    exit_hint(E, v)
    return True


def single_root_hint(E, v):
    """np.count_nonzero(old_pids == -1) == 1: the count of a mask that is true at exactly one position is 1 (assumed induction lemma)"""
    A, P, n, p0 = T(E, v)
    for f, mask in E.ghost.get("cnt-functions", []):
        i = z3.Int(fresh_name("i"))
        exactly = z3.ForAll([i], z3.Implies(z3.And(i >= 0, i < n), to_z3(mask.get(i), "bool") == (i == p0)))
        E.assume(z3.Implies(exactly, f(n) == 1))
        E.assumptions.add("assumed-lemma:count-of-a-singleton-mask-is-1 (induction on the array length)")


def impl_result(S, fr):
    """shape of the result at call sites: ((new_ids, new_pids), index array), all of the table's length"""
    n = fr.vars["topology"][0].nz()
    return ((SArr.fresh("int", n, name="new_ids"), SArr.fresh("int", n, name="new_pids")), SArr.fresh("int", n, name="indices"))


def register(R: Registry):
    posts = ["lengths", "one-to-one-between-old-and-new-nodes", "new-ids-are-0-to-n-1", "root-is-0", "parent-relation-preserved-and-parents-first",
             "parent-id-of-a-renumbered-node-is-the-id-of-the-row-behind-its-new-parent"]
    R.add(
        f"{NORM}:sort_nodes_impl",
        prop="C05",
        setup=setup,
        requires=pre_clauses(lambda v: (v["topology"][0].arr, v["topology"][1].arr, v["topology"][0].nz())),
        returns=impl_result,
        ensures=[(nm, post(nm)) for nm in posts],
        # the counting argument is closed where the loop is LEFT (loop key `at_exit`), not after whatever the carrier assigns next: the
        # tail that turns visited ids into rows may be rewritten freely (other locals, np.argsort / np.searchsorted ...)
        loops={0: dict(invariant=INV, types={"s": ["int", "int"]}, modifies=["G"],
                       at_exit=[("all-rows-numbered-when-the-stack-is-empty", after_loop)])},
        options=dict(models=ext_C05.MODELS, ghost_after=GHOST, hints={"exc/unexpected-AssertionError": single_root_hint}),
        notes="termination of the stack loop is not proved; numpy int32 treated as mathematical integers",
    )
    # The same contract on tables of exactly 1 .. 6 rows (ids, parent ids and the row order stay symbolic: every legal table of that many
    # rows).  Everything whose trip count follows from the row count executes there -- doubling rounds, unrolled loops, index-array
    # gathers / scatters, a stable argsort -- so a body that is a NEW algorithm (for which no invariant can exist in advance) is decided:
    # the clauses are quantifier-free at that size and a violated one is answered with a table.  While the body still IS the stack walk
    # (a `while` loop that pops a work list: the loop the contract above carries invariants for) the twin would only repeat that proof
    # six times over ("the fixed-size twin proves nothing the symbolic registration does not; it decides the converse"), so it is
    # registered for bodies without that loop.
    if not has_stack_walk(f"{NORM}:sort_nodes_impl"):
        R.add(
            f"{NORM}:sort_nodes_impl",
            prop="C05",
            variants={fixed_name(m): (lambda S, m=m: setup(S, size=m)) for m in FIXED_SIZES},
            requires=pre_clauses(lambda v: (v["topology"][0].arr, v["topology"][1].arr, v["topology"][0].nz())),
            returns=impl_result,
            ensures=[(nm, post(nm, witness_free=True)) for nm in posts],
            options=dict(models=ext_C05.MODELS, hints={"exc/unexpected-AssertionError": single_root_hint}, allow_symbolic_unroll=True),
            notes=FIXED_NOTE,
        )


def has_stack_walk(key):
    """does the CURRENT text of the function contain the stack walk -- a `while` loop whose body pops a work list?  (read from the source,
    whatever the locals are called; on any doubt: yes, which leaves the symbolic-size contract alone in charge)"""
    import ast as _ast

    from pyvc import extract

    try:
        node, _, _ = extract.find(key)
    except Exception:
        return True
    for w in _ast.walk(node):
        if isinstance(w, _ast.While) and any(isinstance(c, _ast.Call) and isinstance(c.func, _ast.Attribute) and c.func.attr == "pop" for c in _ast.walk(w)):
            return True
    return False


# =========================================================================== sort_nodes_ (table form), _sort_tree / sort_tree (tree form)
TU = "swcgeom/core/tree_utils.py"
EXTRA = "w"  # an extra per-node column (real) carried along by every form of the operation


def register_users(R):
    from contracts.common import COLS

    cols = dict(COLS)
    cols[EXTRA] = "real"
    # The table forms are verified on frames whose columns carry numpy DTYPES (pyvc/ext_C05_frame.py): the seven SWC columns as pandas reads
    # them (int64 / float64), the real extra column `w`, and per variant further extra columns of every dtype family.  "every per-node column,
    # including extra columns" is then a statement about int64 / uint64 / float32 / bool / object columns as well, and an operation that
    # pushes the table through ONE array (to_numpy) is judged by what the casts do to each of them.
    SWC_DT = dict(id="int64", type="int64", x="float64", y="float64", z="float64", r="float64", pid="int64")
    SWC_DT[EXTRA] = "float64"
    FRAMES = {
        "extras:int64": dict(SWC_DT, u="int64"),
        "extras:uint64,float32": dict(SWC_DT, q="uint64", f="float32"),
        "extras:bool,object": dict(SWC_DT, u="int64", b="bool", s=object),
    }

    def typed(dt, frozen=False, size=None):
        def mk(S):
            df = ext_C05_frame.typed_frame(S, dt, n=size)
            df.frozen = frozen
            return dict(df=df, names=None)

        return mk

    def impl_call(E, n=None):
        calls = [kw for nm, kw in E.call_log if nm == "sort_nodes_impl"]
        if len(calls) == 1:
            return calls[0]
        if not calls and n is not None and not (E.cur_key or "").endswith(":sort_nodes_"):
            # at a CALL SITE of sort_nodes_ (modular rule: its body is not executed) the bijection is a Skolem array; the caller's
            # own clauses (the copying form sort_nodes, read_swc) speak about the same one
            w = E.ghost.get("sort-witness")
            if w is None:
                w = E.ghost["sort-witness"] = {"__result__": ((SArr.fresh("int", n, name="new_ids"), SArr.fresh("int", n, name="new_pids")), SArr.fresh("int", n, name="sigma"))}
            return w
        return None

    def permuted(before, after, n, sigma, skip=("id", "pid")):
        """every per-node column (extras included) of `after` is the column of `before` read through sigma"""
        k = z3.Int(fresh_name("k"))
        out = [set(after) == set(before)]
        for c in before:
            if c in skip:
                continue
            out.append(z3.And(after[c].nz() == n, z3.ForAll([k], z3.Implies(z3.And(k >= 0, k < n), after[c].get(k).z == before[c].get(sigma.get(k).z).z))))
        return z3.And(*[x if not isinstance(x, bool) else z3.BoolVal(x) for x in out])

    def relabelled(E, ids_before, pids_before, ids_after, pids_after):
        """ids are 0..n-1, the root is 0, and the parent relation is the old one read through the bijection sigma"""
        c = impl_call(E, ids_before.nz())
        if c is None:
            return False
        (_, _), sigma = c["__result__"]
        n = ids_before.nz()
        k, p = z3.Int(fresh_name("k")), z3.Int(fresh_name("p"))
        R_ = lambda t: z3.And(t >= 0, t < n)
        return z3.And(
            z3.ForAll([k], z3.Implies(R_(k), z3.And(R_(sigma.get(k).z), newof(sigma.get(k).z) == k, ids_after.get(k).z == k))),
            z3.ForAll([p], z3.Implies(R_(p), z3.And(R_(newof(p)), sigma.get(newof(p)).z == p))),
            pids_after.get(0).z == -1, sigma.get(0).z == P0,
            z3.ForAll([k], z3.Implies(z3.And(0 < k, k < n), z3.And(0 <= pids_after.get(k).z, pids_after.get(k).z < k, sigma.get(pids_after.get(k).z).z == pp(sigma.get(k).z)))))

    # Clauses that need NO witness (they speak about the result alone): a path that never calls sort_nodes_impl -- a short-cut -- is judged
    # by them on its merits, with a genuine counter-model when it is wrong.
    def shape(ids_before, ids_after, pids_after, which):
        n = ids_before.nz()
        k = z3.Int(fresh_name("k"))
        if which == "id-column-equals-row-position":
            return z3.And(ids_after.nz() == n, z3.ForAll([k], z3.Implies(z3.And(k >= 0, k < n), ids_after.get(k).z == k)))
        if which == "root-is-row-0-and-parents-precede-children":
            return z3.And(pids_after.nz() == n, pids_after.get(0).z == -1,
                          z3.ForAll([k], z3.Implies(z3.And(0 < k, k < n), z3.And(0 <= pids_after.get(k).z, pids_after.get(k).z < k))))
        raise KeyError(which)

    def parent_ids(E, ids_before, pids_before, pids_after):
        """the preserved parent relation in the ids of the OLD table (no ghost parent function): old row sigma[k] names as its parent the id
        carried by old row sigma[new parent of k]; old row sigma[0] is the root row"""
        n = ids_before.nz()
        c = impl_call(E, n)
        if c is None:
            return False
        sigma = c["__result__"][1]
        k = z3.Int(fresh_name("k"))
        return z3.And(pids_before.get(sigma.get(0).z).z == -1,
                      z3.ForAll([k], z3.Implies(z3.And(0 < k, k < n), pids_before.get(sigma.get(k).z).z == ids_before.get(sigma.get(pids_after.get(k).z).z).z)))

    SHAPES = ("id-column-equals-row-position", "root-is-row-0-and-parents-precede-children")
    PARENT_IDS = "parent-ids-read-through-the-bijection-name-the-old-parents"

    # ---------------------------------------------------------------- sort_nodes_(df)
    def df_post(which):
        def f(E, v, o):
            d1, d0 = v["df"], o["df"]
            if "id" not in d1.cols or "pid" not in d1.cols:
                return False
            if which in SHAPES:
                return shape(d0.cols["id"], d1.cols["id"], d1.cols["pid"], which)
            if which == PARENT_IDS:
                return parent_ids(E, d0.cols["id"], d0.cols["pid"], d1.cols["pid"])
            c = impl_call(E, zint(d0.n))
            if c is None:
                return False
            sigma = c["__result__"][1]
            if which == "every-column-follows-the-bijection":
                return permuted(d0.cols, d1.cols, zint(d0.n), sigma)
            return relabelled(E, d0.cols["id"], d0.cols["pid"], d1.cols["id"], d1.cols["pid"])

        return f

    R.add(f"{NORM}:sort_nodes_", prop="C05",
          variants={**{k: typed(dt) for k, dt in FRAMES.items()}, **{f"{k},rows=3": typed(dt, size=3) for k, dt in list(FRAMES.items())[:1]}},
          requires=pre_clauses(lambda v: (v["df"].cols["id"].arr, v["df"].cols["pid"].arr, zint(v["df"].n))),
          modifies=["df"],
          options=dict(models=ext_C05.MODELS),
          ensures=[(w, df_post(w)) for w in SHAPES]
          + [("every-column-follows-the-bijection", df_post("every-column-follows-the-bijection")),
             ("ids-0-to-n-1-root-0-parents-first-parent-relation-preserved", df_post("relabelled")),
             (PARENT_IDS, df_post(PARENT_IDS))])

    # ---------------------------------------------------------------- sort_nodes(df): the copying form
    def on_result(clause):
        def f(E, v, o):
            r = v["result"]
            if not hasattr(r, "cols"):
                return False
            return clause(E, {"df": r}, o)

        return f

    def frame_uids(df):
        return {df.uid} | {a.uid for a in df.cols.values()}

    def fresh_result(E, v, o):
        r = v["result"]
        return hasattr(r, "cols") and r is not v["df"] and not (frame_uids(r) & frame_uids(o["df"]))

    def frozen_frame(S):
        df = S.dframe(cols)
        df.frozen = True
        return df

    R.add(f"{NORM}:sort_nodes", prop="C05",
          variants={k: typed(dt, frozen=True) for k, dt in FRAMES.items()},
          requires=pre_clauses(lambda v: (v["df"].cols["id"].arr, v["df"].cols["pid"].arr, zint(v["df"].n))),
          options=dict(models=ext_C05.MODELS),
          ensures=[(w, on_result(df_post(w))) for w in SHAPES]
          + [("every-column-follows-the-bijection", on_result(df_post("every-column-follows-the-bijection"))),
             ("ids-0-to-n-1-root-0-parents-first-parent-relation-preserved", on_result(df_post("relabelled"))),
             (PARENT_IDS, on_result(df_post(PARENT_IDS))),
             ("result-is-a-fresh-frame", fresh_result)],
          notes="input frame frozen (any store into it is a failed frame obligation); _copy_and_apply is inlined, sort_nodes_ is used through its contract")

    # ---------------------------------------------------------------- _sort_tree(tree) / sort_tree(tree)
    from contracts.common import col, nof, sym_tree

    def tree_cols(t):
        return dict(t.fields["ndata"].items)

    def st_post(which, fresh_result):
        def f(E, v, o):
            t1 = v["result"]
            t0 = o["tree"]
            if not isinstance(t1, Obj):
                return False
            if which in SHAPES:
                return shape(col(t0, "id"), col(t1, "id"), col(t1, "pid"), which)
            if which == PARENT_IDS:
                return parent_ids(E, col(t0, "id"), col(t0, "pid"), col(t1, "pid"))
            c = impl_call(E)
            if c is None:
                return False
            sigma = c["__result__"][1]
            if which == "every-column-follows-the-bijection":
                return permuted(tree_cols(t0), tree_cols(t1), nof(t0), sigma)
            if which == "relabelled":
                return relabelled(E, col(t0, "id"), col(t0, "pid"), col(t1, "id"), col(t1, "pid"))
            if which == "result-shares-no-storage-with-the-input":
                return all(a.uid not in E.entry_uids for a in tree_cols(t1).values()) and t1 is not v["tree"]
            if which == "returns-the-tree-it-was-given":
                return t1 is v["tree"]
            raise KeyError(which)

        return f

    tree_pre = pre_clauses(lambda v: (col(v["tree"], "id").arr, col(v["tree"], "pid").arr, nof(v["tree"])))
    R.add(f"{TU}:_sort_tree", prop="C05",
          setup=lambda S: dict(tree=sym_tree(S, "t", frozen=False, extra_cols=(EXTRA,))),
          requires=tree_pre,
          options=dict(models=ext_C05.MODELS),
          ensures=[(w, st_post(w, False)) for w in SHAPES]
          + [("every-column-follows-the-bijection", st_post("every-column-follows-the-bijection", False)),
             ("ids-0-to-n-1-root-0-parents-first-parent-relation-preserved", st_post("relabelled", False)),
             (PARENT_IDS, st_post(PARENT_IDS, False)),
             ("sorts-in-place-and-returns-the-same-tree-object", st_post("returns-the-tree-it-was-given", False))])
    R.add(f"{TU}:sort_tree", prop="C05",
          setup=lambda S: dict(tree=sym_tree(S, "t", frozen=True, extra_cols=(EXTRA,))),
          requires=tree_pre,
          options=dict(models=ext_C05.MODELS),
          ensures=[(w, st_post(w, True)) for w in SHAPES]
          + [("every-column-follows-the-bijection", st_post("every-column-follows-the-bijection", True)),
             ("ids-0-to-n-1-root-0-parents-first-parent-relation-preserved", st_post("relabelled", True)),
             (PARENT_IDS, st_post(PARENT_IDS, True)),
             ("result-shares-no-storage-with-the-input", st_post("result-shares-no-storage-with-the-input", True))],
          notes="the input tree is frozen: any store into it is a failed frame obligation")


_reg5 = register


def register(R):  # noqa: F811
    _reg5(R)
    register_users(R)
