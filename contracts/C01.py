"""C01 — SWC write -> read round trip: sidecar contracts of the WRITER side
(`to_swc.get_v`, `to_swc`, `SWCLike.to_swc`); the reader side is contracts/C02.py, the re-basing
arithmetic (`reset_index_`) is proved in contracts/C18.py and re-verified here through DEPENDS.

Text is kept STRUCTURED: a produced string is a sequence of atoms, each either a concrete piece of text
or ("fmt", spec, value) = format(value, spec) of a symbolic number (spec "str" = str(value)).  Postconditions
compare atom sequences: specs and concrete text literally, values by a z3 equality.  Nothing is assumed
about float.__format__ itself (DESIGN: out of reach); what is proved is WHICH value is formatted with
WHICH spec at WHICH place of the line.
"""
import z3

from pyvc import ext_C01
from pyvc import models as M
from pyvc import strmodel as STR
from pyvc.engine import ProgExc, Unsupported
from pyvc.models import FmtPiece, SymStr
from pyvc.spec import Registry
from pyvc.values import Callback, Iter, NArr, Opaque, PList, SArr, Sym, fresh_name, kind_of, to_z3, zint

DEPENDS = ["C18", "C02"]  # reset_index_ (ids/pids re-based on the first root, roots stay -1, attributes untouched)

IO = "swcgeom/core/swc_utils/io.py"
SWC = "swcgeom/core/swc.py"


# ---------------------------------------------------------------------------
# structured text
class SStr(tuple):
    """A string made of atoms (concrete str | FmtPiece | ("join", sep, opaque-lines)).  It is a tuple subclass so that
    the interpreter's generic `+` (operator.add on str/tuple operands) concatenates it."""

    def __add__(self, other):
        if isinstance(other, (str, SStr, SymStr, FmtPiece)):
            return SStr(tuple(self) + (other,))
        return NotImplemented

    def __radd__(self, other):
        if isinstance(other, (str, SymStr, FmtPiece)):
            return SStr((other,) + tuple(self))
        return NotImplemented

    def __repr__(self):
        return "SStr" + tuple.__repr__(self)


def atoms(v):
    """normal form: list of atoms, adjacent concrete text merged, empty text dropped"""
    out = []

    def emit(a):
        if isinstance(a, str):
            if not a:
                return
            if out and isinstance(out[-1], str):
                out[-1] += a
            else:
                out.append(a)
        else:
            out.append(a)

    def walk(x):
        if isinstance(x, str):
            emit(x)
        elif isinstance(x, SStr):
            for p in x:
                walk(p)
        elif isinstance(x, SymStr):
            for p in x.parts:
                walk(p)
        elif isinstance(x, FmtPiece):
            if isinstance(x.value, (str, SStr, SymStr, FmtPiece)) and x.spec in ("", "str"):
                walk(x.value)  # str(s) / format(s, "") of a string is the string
            elif kind_of(x.value) is not None:
                emit(("fmt", x.spec, x.value))
            else:
                emit(("opaque-fmt", x.spec, x.value))
        elif isinstance(x, tuple) and x and x[0] in ("fmt", "join"):
            emit(x)
        else:
            emit(("?", x))

    walk(v)
    return out


def atoms_eq(got, exp):
    """z3 Bool (or Python bool): the two atom sequences denote the same text, piece by piece"""
    if len(got) != len(exp):
        return False
    conj = []
    for a, b in zip(got, exp):
        if isinstance(a, str) or isinstance(b, str):
            if a != b:
                return False
            continue
        if a[0] != b[0]:
            return False
        if a[0] == "fmt":
            if a[1] != b[1]:
                return False  # the format spec is part of the text
            ka, kb = kind_of(a[2]), kind_of(b[2])
            if ka != kb:
                return False  # str(3) and str(3.0) differ
            conj.append(to_z3(a[2], ka) == to_z3(b[2], kb))
        elif a[0] == "join":
            if a[1] != b[1] or a[2] is not b[2]:
                return False
        else:
            return False
    return z3.And(*conj) if conj else True


def fmt(spec, value):
    return ("fmt", spec, value)


# ---------------------------------------------------------------------------
# library models: str.join on structured pieces, open(..., "w")
def _join_model(sep):
    def model(eng, args, kwargs):
        (src,) = args
        if isinstance(src, Opaque):  # the (abstract) line sequence returned by a modular to_swc call
            eng.assumptions.add("str-model: sep.join(lines) kept as the structured text join(sep, lines)")
            return SStr((("join", sep, src),))
        items = M.iterate_concrete(eng, src)
        if all(isinstance(x, str) for x in items):
            return sep.join(items)
        for x in items:
            if not isinstance(x, (str, SStr, SymStr, FmtPiece)):
                raise ProgExc(TypeError, "sequence item: expected str instance")
        eng.assumptions.add("str-model: sep.join(pieces) is the pieces in order with sep between neighbours")
        out = []
        for j, x in enumerate(items):
            if j:
                out.append(sep)
            out.append(x)
        return SStr(tuple(out))

    return model


# builtin bound methods compare equal iff they are the same method of the identical receiver; "" and " " are
# interned singletons in CPython, so these keys match `"".join` / `" ".join` evaluated from the carriers' constants.
# Any other separator in the source has no model => `Unsupported` (exit 3), never a silent pass.
for _sep in ("", " ", "\n", "\t", ",", ";"):
    M.EXTRA_MODELS[_sep.join] = _join_model(_sep)


def _open_model(eng, args, kwargs):
    """open(fname, "w", encoding=...): an abstract text sink; the only effects visible to the carriers are
    __enter__/__exit__ (never suppressing) and writelines(lines), all logged in eng.ghost['opened']."""
    if len(args) < 2 or args[1] != "w":
        raise Unsupported("open() is modelled only for text writing (mode 'w')")
    eng.assumptions.add("io-model: open(path, 'w') yields a context manager whose __exit__ does not suppress; writelines is logged")
    rec = dict(args=list(args), kwargs=dict(kwargs), written=[], entered=0, exited=0)
    eng.ghost.setdefault("opened", []).append(rec)

    def enter(e, recv, a, k):
        rec["entered"] += 1
        return recv

    def exit_(e, recv, a, k):
        rec["exited"] += 1
        return False

    def writelines(e, recv, a, k):
        rec["written"].append(a[0])
        return None

    return Opaque(z3.Const(fresh_name("fh"), z3.IntSort()), {"__enter__": enter, "__exit__": exit_, "writelines": writelines})


M.EXTRA_MODELS[open] = _open_model

INT_COLS = ("id", "type", "pid")
FLT_COLS = ("x", "y", "z", "r")


def _dtype(kind):
    import numpy as np

    return np.dtype("int32") if kind == "int" else np.dtype("float32")


def expected_cell(col, cols, idx, off):
    """the text of one cell, written from the property statement: ids/parents shifted by the offset, the root's
    parent marker -1 kept for every offset, types verbatim, every floating column with exactly four decimals"""
    v = cols[col].get(idx) if isinstance(cols[col], SArr) else cols[col]
    if col == "id":
        return fmt("str", Sym(v.z + to_z3(off, "int"), "int"))
    if col == "pid":
        return fmt("str", Sym(z3.If(v.z == -1, z3.IntVal(-1), v.z + to_z3(off, "int")), "int"))
    if col == "type":
        return fmt("str", v)
    return fmt(".4f", v)


def register(R: Registry):
    from swcgeom.core.swc_utils import get_names

    names = get_names()

    # ------------------------------------------------------------------ get_v
    ALL = list(INT_COLS) + list(FLT_COLS) + ["extra"]

    def getv_setup(col):
        def f(S):
            n = S.int("n")
            S.assume(n.z >= 1)
            cols = {c: S.arr("int" if c in INT_COLS else "real", n=n, name=c, dtype=_dtype("int" if c in INT_COLS else "real")) for c in ALL}
            off, idx = S.int("id_offset"), S.int("idx")

            def get_ndata(eng, args, kwargs):
                return cols[args[0]]

            return dict(k=col, idx=idx, n=n, off=off, cols=cols,
                        __closure__=dict(get_ndata=Callback("get_ndata", get_ndata), names=names, id_offset=off))

        return f

    def cell_post(which):
        def f(E, v, o):
            col = v["k"]
            group = "float" if col in FLT_COLS or col == "extra" else col
            if group != which:
                return True
            return atoms_eq(atoms(v["result"]), [expected_cell(col, v["cols"], v["idx"], v["off"])])

        return f

    R.add(
        f"{IO}:to_swc.<locals>.get_v",
        prop="C01",
        variants={f"k={c}": getv_setup(c) for c in ALL},
        requires=["node-in-range :: 0 <= idx and idx < n", "offset-non-negative :: off >= 0"],
        ensures=[
            ("id-is-shifted-by-the-offset", cell_post("id")),
            ("parent-is-shifted-but-the-root-marker-stays-minus-one", cell_post("pid")),
            ("type-is-written-verbatim", cell_post("type")),
            ("floating-columns-carry-exactly-four-decimals", cell_post("float")),
        ],
        notes="column length, node index, offset and all column contents symbolic; one variant per column name "
              "(the seven SWC columns and one extra floating column)",
    )

    # ----------------------------------------------------------------- to_swc
    def swc_setup(comments, extra):
        def f(S):
            n = S.int("n")
            S.assume(n.z >= 0)
            allc = list(INT_COLS) + list(FLT_COLS) + list(extra or [])
            cols = {c: S.arr("int" if c in INT_COLS else "real", n=n, name=c, dtype=_dtype("int" if c in INT_COLS else "real")) for c in allc}

            def get_ndata(eng, args, kwargs):
                if args[0] not in cols:
                    raise ProgExc(KeyError, args[0])
                return cols[args[0]]

            return dict(get_ndata=Callback("get_ndata", get_ndata), extra_cols=PList(list(extra)) if extra is not None else None,
                        id_offset=S.int("id_offset"), comments=PList(list(comments)) if comments is not None else None, names=None,
                        g_n=n, g_cols=cols, given_comments=comments, given_extra=extra)

        return f

    def col_order(v):
        return names.cols() + list(v["given_extra"] or [])

    def ids_are_positions(E, v, o):
        if isinstance(v["get_ndata"], Callback):
            ids = v["g_cols"]["id"]
        else:  # call site: ask the tree
            ids = E.call(v["get_ndata"], [names.id], {})
        i = z3.Int(fresh_name("i"))
        return z3.ForAll([i], z3.Implies(z3.And(i >= 0, i < ids.nz()), ids.get(i).z == i))

    def comment_line_ok(c, line):
        """one comment -> one newline-terminated '#' line carrying the comment minus its leading blanks
        (a blank comment may also be written as a bare '#')"""
        if not isinstance(line, str):
            return False
        ok = line == "# " + c.lstrip() + "\n"
        if c.strip() == "":
            ok = ok or line == "#\n"
        return ok and line.endswith("\n") and line.count("\n") == 1 and line.startswith("#")

    def out_items(v):
        r = v["result"]
        if not isinstance(r, Iter) or not isinstance(r.seq, PList) or r.seq.items is None:
            return None
        return r.seq.items

    def at_call_site(v):
        # used modularly (SWCLike.to_swc): the result is an abstract line sequence about which nothing is assumed
        return isinstance(v.get("result"), Opaque)

    COMMENT_LINE = "one-newline-terminated-hash-line-carrying-the-comment-minus-its-leading-blanks"

    def any_comments(v):
        """second registration: the comment list has symbolic length and abstract strings in it"""
        return isinstance(v.get("given_comments"), PList)

    def comment_yield(E, v, new, k):
        """iteration k of the comment loop yields exactly one text: '# ' + comment k minus its leading blanks + newline
        (a blank comment - whitespace only or empty - may also be written as a bare '#' line)"""
        if len(new) != 1 or not any_comments(v):
            return False
        z = v["given_comments"].get(k).z
        text = STR.as_id(E, new[0])
        full = STR.as_id(E, SymStr(["# ", STR.AbsStr(STR.apply(E, z, "lstrip", [], "str")), "\n"]))
        blank = z3.Or(STR.apply(E, z, "isspace", [], "bool"), z == 0)
        return z3.Or(text == full, z3.And(blank, text == STR.lit(E, "#\n")))

    def post_comments(E, v, o):
        if at_call_site(v):
            return True
        if any_comments(v):
            from pyvc.loops import LoopYields

            items = out_items(v)
            return (items is not None and len(items) >= 1 and isinstance(items[0], LoopYields) and items[0].ordinal == 0 and items[0].labels == [COMMENT_LINE]
                    and zint(items[0].count) == zint(v["given_comments"].n))
        items, cs = out_items(v), list(v["given_comments"] or [])
        if items is None or len(items) < len(cs):
            return False
        return all(comment_line_ok(c, ln) for c, ln in zip(cs, items))

    def post_header(E, v, o):
        if at_call_site(v):
            return True
        if any_comments(v):
            items = out_items(v)
            return items is not None and len(items) >= 2 and items[1] == "# " + " ".join(col_order(v)) + "\n"
        items, cs = out_items(v), list(v["given_comments"] or [])
        if items is None or len(items) <= len(cs):
            return False
        return items[len(cs)] == "# " + " ".join(col_order(v)) + "\n"

    def post_rows(E, v, o):
        from pyvc.loops import LoopYields

        if at_call_site(v):
            return True
        if any_comments(v):
            items, cs = out_items(v), [None]  # one block for all comment lines
        else:
            items, cs = out_items(v), list(v["given_comments"] or [])
        if items is None or len(items) != len(cs) + 2:
            return False  # nothing but the comments, the header and the node rows
        blk = items[-1]
        if not isinstance(blk, LoopYields) or blk.labels != ["one-line-per-node-with-the-cells-in-column-order"]:
            return False
        return zint(blk.count) == to_z3(v["g_n"], "int")

    def row_yield(E, v, new, k):
        if len(new) != 1:
            return False
        exp = []
        for j, c in enumerate(col_order(v)):
            if j:
                exp.append(" ")
            exp.append(expected_cell(c, v["g_cols"], k, v["id_offset"]))
        exp.append("\n")
        return atoms_eq(atoms(new[0]), atoms(SStr(tuple(exp))))

    def lines_result(S, fr):
        ln = S.opaque({}, "lines")
        S.eng.ghost.setdefault("to_swc_lines", []).append(ln)
        return ln

    R.add(
        f"{IO}:to_swc",
        prop="C01",
        variants={
            "no-comments-argument": swc_setup(None, None),
            "empty-comment-list": swc_setup([], None),
            "blank-plain-indented-and-hash-comments": swc_setup(["", " ", "x", "  x ", "# x", "\t"], None),
            "source-header+one-extra-column": swc_setup(["source: a.swc", "", "hello"], ["e"]),
        },
        requires=[("ids-are-positions", ids_are_positions), "offset-non-negative :: id_offset >= 0"],
        returns=lines_result,
        ensures=[
            ("one-newline-terminated-hash-line-per-comment", post_comments),
            ("column-header-line-follows-the-comments", post_header),
            ("then-exactly-one-row-per-node-and-nothing-else", post_rows),
        ],
        loops={1: dict(invariant=[], yields=[("one-line-per-node-with-the-cells-in-column-order", row_yield)])},
        notes="number of nodes, offset and all column contents symbolic (rows: per-iteration `yields` obligation of the node loop); "
              "comments are concrete small lists (variants) because str methods run natively on concrete strings",
    )

    # second registration of to_swc: ANY number of ARBITRARY comments (a list of abstract strings of symbolic length, pyvc/strmodel.py);
    # the comment loop is cut like the node loop, with a per-iteration description of the line it yields
    def swc_setup_any(extra):
        inner = swc_setup(None, extra)

        def f(S):
            d = inner(S)
            cm = STR.str_list("comments")
            S.assume(cm.n >= 0)
            cm.frozen = True
            d["comments"] = d["given_comments"] = cm
            return d

        return f

    R.add(
        f"{IO}:to_swc",
        prop="C01",
        variants={"any-number-of-arbitrary-comments": swc_setup_any(None), "any-number-of-arbitrary-comments+one-extra-column": swc_setup_any(["e"])},
        requires=[("ids-are-positions", ids_are_positions), "offset-non-negative :: id_offset >= 0"],
        returns=lines_result,
        ensures=[
            ("one-newline-terminated-hash-line-per-comment", post_comments),
            ("column-header-line-follows-the-comments", post_header),
            ("then-exactly-one-row-per-node-and-nothing-else", post_rows),
        ],
        loops={0: dict(invariant=[], yields=[(COMMENT_LINE, comment_yield)]),
               1: dict(invariant=[], yields=[("one-line-per-node-with-the-cells-in-column-order", row_yield)])},
        notes="as above, with a comment list of symbolic length holding abstract strings: `c.isspace()` / `c.lstrip()` are uninterpreted in the comment",
    )

    # --------------------------------------------------------- SWCLike.to_swc
    from contracts.common import col, sym_tree

    def like_setup(source, own_source, comments, fname, extra, how_many="two"):
        def f(S):
            t = sym_tree(S, "t", frozen=True)
            t.fields["source"] = own_source
            if how_many == "two":
                c0, c1 = STR.fresh_str("comment0"), STR.fresh_str("comment1")  # two arbitrary (abstract) comment strings
                t.fields["comments"] = PList([c0, c1])
                own = [c0, c1]
            else:  # any number of arbitrary comment strings
                own = t.fields["comments"] = STR.str_list("comments")
                S.assume(own.n >= 0)
            t.fields["comments"].frozen = True
            return dict(self=t, fname=fname, extra_cols=PList(list(extra)) if extra is not None else None, source=source,
                        comments=comments, id_offset=S.int("id_offset"), own_comments=own)

        return f

    def tree_ids_are_positions(E, v, o):
        ids = col(v["self"], "id")
        i = z3.Int(fresh_name("i"))
        return z3.ForAll([i], z3.Implies(z3.And(i >= 0, i < ids.nz()), ids.get(i).z == i))

    def the_call(E):
        hits = [a for nm, a in E.call_log if nm == "to_swc"]
        return hits[0] if len(hits) == 1 else None

    def like_writer_called(E, v, o):
        from pyvc.values import Bound

        a = the_call(E)
        if a is None:
            return False
        g = a["get_ndata"]
        return isinstance(g, Bound) and g.self_obj is v["self"] and g.func.key.endswith(".get_ndata") and a["names"] is None

    def like_header(E, v, o):
        a = the_call(E)
        if a is None or not isinstance(a["comments"], PList):
            return False
        src, own = o["source"], o["self"].fields["source"]
        exp = []
        if src is not False:
            exp += ["source: " + (src if isinstance(src, str) else (own if own else "Unknown")), ""]
        mine = v["own_comments"]
        if isinstance(mine, PList):  # any number of comments: header entries by position, then entry h+i is the tree's comment i, and no more
            got = a["comments"]
            if o["comments"] is not True:
                return got.items is not None and len(got.items) == len(exp) and all(g == e for g, e in zip(got.items, exp))
            if got.items is not None or got.tup or got.kinds != ["ref"]:
                return False
            h, i = len(exp), z3.Int(fresh_name("i"))
            head = [z3.Select(got.cols[0], j) == STR.as_id(E, e) for j, e in enumerate(exp)]
            return z3.And(zint(got.n) == h + zint(mine.n), *head,
                          z3.ForAll([i], z3.Implies(z3.And(i >= 0, i < zint(mine.n)), z3.Select(got.cols[0], h + i) == z3.Select(mine.cols[0], i))))
        if o["comments"] is True:
            exp += list(mine)
        if a["comments"].items is None:
            return False
        got = a["comments"].items
        return len(got) == len(exp) and all((g == e) if isinstance(e, str) else (g is e) for g, e in zip(got, exp))

    def like_passthrough(E, v, o):
        a = the_call(E)
        if a is None:
            return False
        if a["extra_cols"] is not v["extra_cols"]:
            return False
        return to_z3(a["id_offset"], "int") == to_z3(o["id_offset"], "int")

    def like_text(E, v, o):
        lines = E.ghost.get("to_swc_lines", [])
        opened = E.ghost.get("opened", [])
        if len(lines) != 1:
            return False
        if o["fname"] is None:
            return not opened and atoms_eq(atoms(v["result"]), [("join", "", lines[0])])
        if v["result"] is not None or len(opened) != 1:
            return False
        f = opened[0]
        return (f["args"][:2] == [o["fname"], "w"] and f["kwargs"].get("encoding") == "utf-8" and f["entered"] == 1 and f["exited"] == 1
                and len(f["written"]) == 1 and f["written"][0] is lines[0])

    def like_input_kept(E, v, o):
        cs, was = v["self"].fields["comments"], o["self"].fields["comments"]
        if was.items is None:  # any number of comments: same length, same entries
            if cs.items is not None:
                return False
            i = z3.Int(fresh_name("i"))
            return z3.And(zint(cs.n) == zint(was.n), z3.ForAll([i], z3.Implies(z3.And(i >= 0, i < zint(was.n)), z3.Select(cs.cols[0], i) == z3.Select(was.cols[0], i))))
        return cs.items is not None and len(cs.items) == 2 and all(a is b for a, b in zip(cs.items, v["own_comments"]))

    R.add(
        f"{SWC}:SWCLike.to_swc",
        prop="C01",
        variants={
            "text,source-from-tree,comments": like_setup(True, "a.swc", True, None, None),
            "text,unknown-source,comments": like_setup(True, "", True, None, None),
            "text,given-source,no-comments": like_setup("lab", "a.swc", False, None, None),
            "text,no-source,comments,extra-columns": like_setup(False, "a.swc", True, None, ["e"]),
            "text,no-source,no-comments": like_setup(False, "", False, None, None),
            "file,source-from-tree,comments": like_setup(True, "a.swc", True, "out.swc", None),
            "text,source-from-tree,any-number-of-comments": like_setup(True, "a.swc", True, None, None, "any"),
            "text,given-source,any-number-of-comments": like_setup("lab", "", True, None, None, "any"),
            "text,no-source,any-number-of-comments,extra-columns": like_setup(False, "a.swc", True, None, ["e"], "any"),
            "file,unknown-source,any-number-of-comments": like_setup(True, "", True, "out.swc", None, "any"),
            "text,source-from-tree,any-number-of-comments-not-written": like_setup(True, "a.swc", False, None, None, "any"),
        },
        requires=[("ids-are-positions", tree_ids_are_positions), "offset-non-negative :: id_offset >= 0"],
        ensures=[
            ("writer-called-once-on-this-tree's-columns", like_writer_called),
            ("comments-passed-are-the-optional-source-header-then-the-tree's-own-comments-and-nothing-else", like_header),
            ("offset-and-extra-columns-passed-through", like_passthrough),
            ("output-is-exactly-the-writer's-lines", like_text),
            ("tree's-comment-list-not-modified", like_input_kept),
        ],
        notes="tree size/content and offset symbolic; the tree's comments are two abstract strings, or a list of abstract strings of symbolic "
              "length (pyvc/strmodel.py); option combinations as variants",
    )


# ---------------------------------------------------------------------------
# Round-trip arithmetic (lemma over the contracts above and C18's reset_index_): what the writer's cell formulas put
# on the page, read back as integers and re-based on the first root (the reader's default), is the original numbering.
def lemmas():
    i, p, off = z3.Ints("node parent id_offset")
    wf = [off >= 0, i >= 0, z3.Or(p == -1, p >= 0)]
    cell = lambda col, val: to_z3(expected_cell(col, {col: Sym(val, "int")}, None, Sym(off, "int"))[2], "int")
    root_id_written = cell("id", z3.IntVal(0))          # a well-formed tree's root is node 0
    id_written, pid_written = cell("id", i), cell("pid", p)
    id_back = id_written - root_id_written              # reset_index_: ids-rebased-on-first-root
    pid_back = z3.If(pid_written == -1, z3.IntVal(-1), pid_written - root_id_written)  # edges-rebased / every-root-stays-root
    return [
        ("written-then-rebased-id-is-the-node-index", wf, id_back == i),
        ("written-then-rebased-parent-is-the-original-parent-and-roots-stay-roots", wf, pid_back == p),
        ("a-written-non-root-parent-is-never-the-root-marker", wf + [p >= 0], pid_written != -1),
    ]


# ---------------------------------------------------------------------------
# The round-trip LEMMA proper: the composition  to_swc -> parse_swc -> reset_index_ -> Tree.from_data_frame  stated over the four
# CONTRACTS (their clause functions are fetched from the registry and evaluated, nothing is re-typed here), for an arbitrary
# well-formed tree of symbolic size and an arbitrary offset >= 0.  It is run as a small ghost program on a real engine: `assume`
# collects hypotheses, `prove` emits the lemma obligations.  A change of any of the four contracts that breaks the composition
# (another format spec, another shift, another re-basing, another column wiring) makes a lemma obligation fail or the lemma
# impossible to state (machinery error).  What links the writer's TEXT to the reader's TOKENS is assumed and listed:
STR_OF_INT = z3.Function("text_of_str(int)", z3.IntSort(), z3.IntSort())
FMT4 = z3.Function("text_of_format(real,'.4f')", z3.RealSort(), z3.IntSort())
ROUND4 = z3.Function("round4", z3.RealSort(), z3.RealSort())
WROW = z3.Function("written_row_line", z3.IntSort(), z3.IntSort())
WCOM = z3.Function("written_comment_line", z3.IntSort(), z3.IntSort())

LEMMA_ASSUMPTIONS = [
    "round-trip lemma, assumed (CPython number formatting): float_of_text(fmt4(v)) = round4(v) and the conversion succeeds, for every real v "
    "(round4 uninterpreted: 'v rounded to the four decimals the format carries'); int_of_text(str(k)) = k and succeeds, for every integer k",
    "round-trip lemma, assumed (whitespace token lemma, DESIGN 3/C01): group c of the row pattern on a written row line is the text of its c-th cell",
    "round-trip lemma, assumed (io: what is written is what is read): the lines a reader gets from the written text / file are the texts to_swc yielded, one line "
    "per yielded text, in order, and every one decodes (each yielded text ends with its only line break: C01/lemma/comments/text/a-written-comment-line-ends-"
    "with-its-only-line-break for comments WITHOUT line-break characters, the column languages for rows); utf-8 written is utf-8 read",
    "round-trip lemma, assumed (reading of the abstract string vocabulary): re_hit / re_group / strlen / drop_prefix / removesuffix / startswith / str.lstrip / "
    "is_blank on string ids are CPython's functions of the texts; under this reading the lemma's hypotheses `node lines are rows`, `'#' lines are comments and no "
    "rows`, `the kept text of a written comment line, leading blanks aside, is the comment, leading blanks aside`, `the column-header line starts like the header` ARE the "
    "discharged obligations C01/regex/written-row-line-is-a-row, C01/regex/written-comment-line-is-a-comment-and-no-row, C01/lemma/comments/text/* (types "
    "non-negative: a negative type is written as '-3', which the row pattern of the reader does not accept)",
    "assumed-lemma: counting lemma (lean/Count.lean: count_skips, count_counts): a counter defined by c(k+1) = c(k) + [p(k)] does not move over a block of lines "
    "none of which satisfies p and counts one by one over a block all of which satisfy p.  Instance: the ghost counters rows_before / hash_lines_before of "
    "contracts/C02.py over the written text = m comment lines, the column header, n node lines (the block premises are obligations of the lemma)",
]


def _text_of_atom(a):
    """the text (abstract id) of one cell atom: only str(int) and format(real, '.4f') have assumed read-back facts"""
    tag_, spec, val = a
    if tag_ != "fmt":
        raise KeyError(f"cell atom {a!r}")
    k = kind_of(val)
    if spec == "str" and k == "int":
        return STR_OF_INT(to_z3(val, "int"))
    if spec == ".4f" and k == "real":
        return FMT4(to_z3(val, "real"))
    return z3.Function(f"text_of_format({k},{spec!r})", z3.IntSort() if k == "int" else z3.RealSort(), z3.IntSort())(to_z3(val, k))


def _clause(contract, label, where="ensures"):
    from pyvc.spec import split_label

    for j, cl in enumerate(getattr(contract, where)):
        lab, body = split_label(cl, f"{where}{j}")
        if lab == label:
            return body
    raise KeyError(f"{contract.key}: no {where} clause labelled {label!r} (the round-trip lemma is stated over it)")


def roundtrip_lemma(tamper=None):
    """`tamper(c_write, c_parse, c_reset, c_build)` may edit the four contracts first: used only by tools/lemma_selftest_C01.py to show
    that a broken contract breaks the lemma (the check itself calls it without)"""
    import importlib

    from pyvc.npmodels import DFrame
    from pyvc.spec import eval_clause
    from pyvc.values import Obj, PDict
    from pyvc.verify import Verifier
    from swcgeom.core.swc_utils import get_names, get_types
    from swcgeom.core.tree import Tree

    saved = dict(M.EXTRA_MODELS)  # contracts/C02.py installs process-wide models when imported: keep them out of this process
    try:
        C02, C18 = importlib.import_module("contracts.C02"), importlib.import_module("contracts.C18")
        R = Registry()
        C18.register(R)
        C02.register(R)
        register(R)
    finally:
        M.EXTRA_MODELS.clear()
        M.EXTRA_MODELS.update(saved)
    pick = lambda key, prop: next(c for c in R.alts[key] if c.prop == prop)
    c_write, c_parse = pick(f"{IO}:to_swc", "C01"), pick(f"{IO}:parse_swc", "C02")
    c_reset, c_build = pick("swcgeom/core/swc_utils/normalizer.py:reset_index_", "C18"), pick(f"{TREE}:Tree.from_data_frame", "C01")
    c_write_any = [c for c in R.alts[f"{IO}:to_swc"] if c.prop == "C01" and 0 in c.loops][0]  # second registration: any number of arbitrary comments
    c_like = pick(f"{SWC}:SWCLike.to_swc", "C01")
    if tamper is not None:
        tamper(c_write, c_parse, c_reset, c_build)
        if hasattr(tamper, "more"):
            tamper.more(c_write_any, c_like)
    names = get_names()
    NC = names.cols()
    E = Verifier(R, "C01")
    E.variant = ""
    ev = lambda body, vars_, old=None, globs=None: eval_clause(E, body, vars_, globs or {}, old_vars=old, extra={})

    # ---- an arbitrary well-formed tree, an arbitrary offset
    n, off = z3.Int("n_nodes"), Sym(z3.Int("id_offset"), "int")
    t = {c: SArr(z3.Const(f"tree_{c}", z3.ArraySort(z3.IntSort(), z3.IntSort() if c in INT_COLS else z3.RealSort())), n, "int" if c in INT_COLS else "real", name=c)
         for c in NC}
    i = z3.Int("i")
    E.assume(n >= 1)
    E.assume(z3.ForAll([i], z3.Implies(z3.And(i >= 0, i < n), t["id"].get(i).z == i)))           # WFtree: ids are positions,
    E.assume(t["pid"].get(0).z == -1)                                                              # node 0 is the root,
    E.assume(z3.ForAll([i], z3.Implies(z3.And(i > 0, i < n), z3.And(t["pid"].get(i).z >= 0, t["pid"].get(i).z < n))))  # every other node has a parent
    E.assume(z3.ForAll([i], z3.Implies(z3.And(i >= 0, i < n), t["type"].get(i).z >= 0)))                                                   # types are non-negative
    E.assume(off.z >= 0)
    wv = dict(get_ndata=Callback("get_ndata", None), g_cols=t, g_n=Sym(n, "int"), given_extra=None, given_comments=None, id_offset=off,
              extra_cols=None, comments=None, names=None)
    for j, cl in enumerate(c_write.requires):  # the writer's preconditions hold for such a tree
        from pyvc.spec import split_label

        lab, body = split_label(cl, f"pre{j}")
        E.prove(f"lemma/roundtrip/writer-precondition/{lab}", ev(body, wv), "lemma")

    # ---- 1. to_swc's contract: line k is the cells of node k in column order (per-iteration `yields` clause, arbitrary k)
    (ylab, row_yield), = c_write.loops[1]["yields"]
    k = z3.Int("k")
    cellv = {c: z3.Function(f"written_{c}", z3.IntSort(), z3.IntSort() if c in INT_COLS else z3.RealSort()) for c in NC}

    def written_line(kk):
        # the PROPERTY's picture of a row: str() of the three integer columns, four decimals for the floating ones, blank-separated
        parts = []
        for j, c in enumerate(NC):
            if j:
                parts.append(" ")
            parts.append(FmtPiece(Sym(cellv[c](kk), "int" if c in INT_COLS else "real"), "str" if c in INT_COLS else ".4f"))
        return SStr(tuple(parts) + ("\n",))

    wr = row_yield(E, wv, [written_line(k)], Sym(k, "int"))
    if wr is False:
        raise KeyError("to_swc's row clause no longer describes a row of str()/'.4f' cells: the round-trip lemma cannot be stated")
    E.assume(z3.ForAll([k], z3.Implies(z3.And(k >= 0, k < n), to_z3(wr, "bool"))))
    cells = [a for a in atoms(written_line(k)) if not isinstance(a, str)]
    assert len(cells) == 7

    # ---- 2. assumed bridge text -> tokens (LEMMA_ASSUMPTIONS), over C02's spec functions
    f = z3.Int("written_file")
    row_tag = C02.tag("search", C02.ref_row_pattern(0))
    v_, r_ = z3.Int("v"), z3.Real("r")
    E.assume(z3.ForAll([v_], z3.And(C02.INT_OK(STR_OF_INT(v_)), C02.INT_OF(STR_OF_INT(v_)) == v_)))
    E.assume(z3.ForAll([r_], z3.And(C02.FLT_OK(FMT4(r_)), C02.FLT_OF(FMT4(r_)) == ROUND4(r_))))
    # WROW(k) names the text of the k-th node line (definition of the ghost symbol): the cell texts joined by single blanks, then a newline
    def text_id(line):
        ids = [STR.lit(E, a) if isinstance(a, str) else _text_of_atom(a) for a in atoms(line)]
        z = ids[-1]
        for a in reversed(ids[:-1]):
            z = STR.CONCAT(a, z)
        return z

    general = len(E.pc)  # the two general facts below are dropped again once their consequence for the n node lines is proved (fewer hypotheses: sound)
    E.assume(z3.ForAll([k], z3.Implies(z3.And(k >= 0, k < n), WROW(k) == text_id(written_line(k))), patterns=[WROW(k)]))
    # reading of C01/regex/written-row-line-is-a-row + the whitespace-token lemma: ANY text of that shape (str() of two naturals, four '.4f' texts,
    # str() of an integer >= -1) passes the reader's row test and its column groups are the cell texts
    qv = {c: (z3.Int("q_" + c) if c in INT_COLS else z3.Real("q_" + c)) for c in NC}
    shape = SStr(tuple(x for jx, c in enumerate(NC) for x in ([" "] if jx else []) + [FmtPiece(Sym(qv[c], "int" if c in INT_COLS else "real"), "str" if c in INT_COLS else ".4f")]) + ("\n",))
    any_row = text_id(shape)
    qcells = [a for a in atoms(shape) if not isinstance(a, str)]
    E.assume(z3.ForAll([qv[c] for c in NC], z3.Implies(z3.And(qv["id"] >= 0, qv["type"] >= 0, qv["pid"] >= -1),
                                                       z3.And(C02.is_row(0, any_row), *[C02.GRP(row_tag, any_row, c + 1) == _text_of_atom(a) for c, a in enumerate(qcells)])),
                       patterns=[any_row]))
    E.prove("lemma/roundtrip/structure/every-node-line-has-the-row-shape:it-passes-the-row-test-and-its-groups-are-the-cell-texts",
            z3.ForAll([k], z3.Implies(z3.And(k >= 0, k < n), z3.And(C02.is_row(0, WROW(k)), *[C02.GRP(row_tag, WROW(k), c + 1) == _text_of_atom(a) for c, a in enumerate(cells)])),
                      patterns=[WROW(k)]), "lemma")
    del E.pc[general:-1]
    # ---- 2b. the comment lines to_swc writes (its second registration: ANY number of ARBITRARY comments), the column header, and the
    # structure of the written text: mc comment lines, the header line, n node lines -- which the reader gets back line by line (assumed: io)
    (clab, comment_yield), = c_write_any.loops[0]["yields"]
    mc = z3.Int("n_comments_passed")
    passed = STR.str_list("passed_comments", n=mc)
    E.assume(mc >= 0)
    j = z3.Int("j")
    cy = comment_yield(E, dict(wv, given_comments=passed, comments=passed), [STR.AbsStr(WCOM(j))], Sym(j, "int"))
    if cy is False:
        raise KeyError("to_swc's comment clause no longer describes one text per comment: the round-trip lemma cannot be stated")
    general = len(E.pc)  # as for the node lines: general facts first, their consequence for the m comment lines proved, then the general facts dropped
    E.assume(z3.ForAll([j], z3.Implies(z3.And(j >= 0, j < mc), to_z3(cy, "bool")), patterns=[WCOM(j)]))
    whdr = STR.lit(E, "# " + " ".join(NC) + "\n")  # to_swc's clause column-header-line-follows-the-comments
    # the reading of the abstract vocabulary (LEMMA_ASSUMPTIONS): node lines are rows, '#' lines are comments and no rows, what the reader keeps of a
    # written comment line is the comment (leading blanks aside), the header line starts like the column header.  NOTHING is assumed about whether a
    # written comment starts like the column header: it may (the former finding), the reader keeps it all the same
    hdr_txt = z3.StringVal(C02.header_text(names))
    is_row, is_cm, ctext = (lambda s: C02.is_row(0, s)), (lambda s: C02.is_comment(0, s)), C02.comment_text
    LSTRIP = z3.Function("str.lstrip", z3.IntSort(), z3.IntSort())
    qc = z3.Int("q_comment")
    full_line = STR.as_id(E, SymStr(["# ", STR.AbsStr(LSTRIP(qc)), "\n"]))  # the line of to_swc's comment clause for the comment qc
    bare_line = STR.lit(E, "#\n")
    blank = lambda c: z3.Or(C02.IS_BLANK(c), c == 0)
    # reading of C01/regex/written-comment-line-is-a-comment-and-no-row and C01/lemma/comments/text/*: for ANY comment text
    E.assume(z3.ForAll([qc], z3.And(is_cm(full_line), LSTRIP(ctext(full_line)) == LSTRIP(qc)), patterns=[full_line]))
    E.assume(z3.And(is_cm(bare_line), ctext(bare_line) == 0, LSTRIP(z3.IntVal(0)) == 0))
    E.assume(z3.ForAll([qc], z3.Implies(blank(qc), LSTRIP(qc) == 0), patterns=[LSTRIP(qc)]))
    E.assume(z3.And(is_cm(whdr), C02.STARTS(ctext(whdr), hdr_txt)))
    E.prove("lemma/roundtrip/structure/every-written-comment-line-is-a-comment-line-whose-kept-text-is-the-comment-leading-blanks-aside",
            z3.ForAll([j], z3.Implies(z3.And(j >= 0, j < mc), z3.And(is_cm(WCOM(j)), LSTRIP(ctext(WCOM(j))) == LSTRIP(z3.Select(passed.cols[0], j)))),
                      patterns=[WCOM(j)]), "lemma")
    header_facts = z3.And(is_cm(whdr), C02.STARTS(ctext(whdr), hdr_txt))
    del E.pc[general:-1]
    E.assume(header_facts)
    # the reader gets the written text back line by line (assumed: io)
    NLf, LINEf = C02.NL(f), (lambda t: C02.LINE(f, t))
    E.assume(NLf == mc + 1 + n)
    E.assume(z3.ForAll([j], z3.Implies(z3.And(j >= 0, j < mc), LINEf(j) == WCOM(j)), patterns=[LINEf(j)]))
    E.assume(LINEf(mc) == whdr)
    E.assume(z3.ForAll([k], z3.Implies(z3.And(k > mc, k < NLf), LINEf(k) == WROW(k - mc - 1)), patterns=[LINEf(k)]))
    E.assume(z3.ForAll([k], z3.Not(C02.DECERR(f, k)), patterns=[C02.DECERR(f, k)]))
    # the reader's ghost counters (definitions of contracts/C02.py) and the counting lemma (lean/Count.lean) over the blocks of the written text:
    # rows: m+1 lines that are no rows, then n rows; comment lines: m+1 of them (the comments AND the column header), then n lines that are none
    C02.ghost_axioms(E, f, 0, names)
    kept = lambda kk: C02.kept_comment(0, names, f, kk)
    rng = lambda t, lo, hi: z3.And(t >= lo, t < hi)
    E.prove("lemma/roundtrip/structure/no-line-before-the-first-node-line-is-a-row", z3.ForAll([k], z3.Implies(rng(k, 0, mc + 1), z3.Not(is_row(LINEf(k))))), "lemma")
    E.prove("lemma/roundtrip/structure/every-node-line-is-a-row", z3.ForAll([k], z3.Implies(rng(k, 0, n), is_row(LINEf(mc + 1 + k)))), "lemma")
    E.prove("lemma/roundtrip/structure/every-written-comment-line-and-the-column-header-line-is-a-comment-line",
            z3.ForAll([k], z3.Implies(rng(k, 0, mc + 1), is_cm(LINEf(k)))), "lemma")
    E.prove("lemma/roundtrip/structure/no-node-line-is-a-comment-line", z3.ForAll([k], z3.Implies(rng(k, mc + 1, mc + 1 + n), z3.Not(is_cm(LINEf(k))))), "lemma")
    tt = z3.Int("t")
    RC, AC = (lambda x: C02.RCNT(f, x)), (lambda x: C02.ACNT(f, x))
    E.assume(z3.ForAll([tt], z3.Implies(z3.And(tt >= 0, tt <= mc + 1), RC(tt) == 0), patterns=[RC(tt)]))                     # count_skips  (a = 0, block m+1)
    E.assume(z3.ForAll([tt], z3.Implies(z3.And(tt >= 0, tt <= n), RC(mc + 1 + tt) == tt), patterns=[RC(mc + 1 + tt)]))          # count_counts (a = m+1, block n)
    E.assume(z3.ForAll([tt], z3.Implies(z3.And(tt >= 0, tt <= mc + 1), AC(tt) == tt), patterns=[AC(tt)]))                      # count_counts (a = 0, block m+1)
    E.assume(z3.ForAll([tt], z3.Implies(z3.And(tt >= 0, tt <= n), AC(mc + 1 + tt) == mc + 1), patterns=[AC(mc + 1 + tt)]))      # count_skips  (a = m+1, block n)
    E.prove("lemma/roundtrip/structure/the-reader-does-not-raise:every-line-is-a-convertible-row-or-a-comment",
            z3.ForAll([k], z3.Implies(rng(k, 0, NLf), C02.line_ok(0, f, k))), "lemma")
    E.prove("lemma/roundtrip/structure/there-are-exactly-n-row-lines", C02.RCNT(f, NLf) == n, "lemma")
    E.prove("lemma/roundtrip/structure/the-row-lines-are-the-node-lines-in-node-order",
            z3.ForAll([k], z3.Implies(rng(k, 0, n), C02.LINE(f, C02.RLINE(f, k)) == WROW(k))), "lemma")
    # which line the reader takes for the column header (C02's context-dependent definition): the last comment line in front of the first row line
    E.prove("lemma/roundtrip/structure/the-first-row-line-is-the-first-node-line-and-m+1-comment-lines-precede-it",
            z3.And(C02.FIRSTROW(f) == mc + 1, C02.NLEAD(f) == mc + 1), "lemma")
    E.prove("lemma/roundtrip/structure/the-last-comment-line-before-the-first-row-is-the-writer's-column-header-line-and-starts-like-it",
            z3.And(C02.ALINE(f, mc) == mc, C02.HASHDR(f)), "lemma")
    E.prove("lemma/roundtrip/structure/every-written-comment-line-is-a-kept-comment(whatever-its-text)",
            z3.ForAll([k], z3.Implies(rng(k, 0, mc), kept(k))), "lemma")
    E.prove("lemma/roundtrip/structure/neither-the-column-header-nor-a-node-line-is-a-kept-comment",
            z3.ForAll([k], z3.Implies(rng(k, mc, mc + 1 + n), z3.Not(kept(k)))), "lemma")
    E.prove("lemma/roundtrip/structure/there-are-exactly-m-kept-comment-lines", C02.CCNT(f, NLf) == mc, "lemma")
    E.prove("lemma/roundtrip/structure/the-kept-comment-lines-are-the-written-comment-lines-in-order",
            z3.ForAll([k], z3.Implies(rng(k, 0, mc), C02.LINE(f, C02.CLINE(f, k)) == WCOM(k))), "lemma")
    E.prove("lemma/roundtrip/every-written-row-converts(no-ValueError-from-the-reader)",
            z3.ForAll([k], z3.Implies(z3.And(k >= 0, k < n), C02.conv_ok(0, C02.LINE(f, C02.RLINE(f, k))))), "lemma")

    # ---- 3. parse_swc's contract on that file
    kinds = {c: ("int" if c in INT_COLS else "real") for c in NC}
    d0 = DFrame({c: SArr.fresh(kinds[c], z3.Int("parsed_rows"), name=f"parsed_{c}") for c in NC}, z3.Int("parsed_rows"))
    E.assume(d0.n >= 0)
    cm_back = PList.fresh("ref", name="comments_read")
    E.assume(cm_back.n >= 0)
    pv = dict(fname=Opaque(f, {}), names=names, extra_cols=None, encoding="utf-8", result=(d0, cm_back))
    for lab in ("one-table-entry-per-row-line", "every-field-is-the-conversion-of-its-group-in-file-order",
                "comments-are-the-comment-lines-minus-the-column-header-in-order"):
        E.assume(ev(_clause(c_parse, lab), pv, dict(pv)))

    # ---- 4. reset_index_'s contract (C18) on the parsed table: precondition proved, postconditions assumed
    for j, cl in enumerate(c_reset.requires):
        from pyvc.spec import split_label

        lab, body = split_label(cl, f"pre{j}")
        E.prove(f"lemma/roundtrip/reset_index_-precondition-on-the-parsed-table/{lab}", ev(body, dict(df=d0, names=None)), "lemma")
    d1 = DFrame({c: SArr.fresh(kinds[c], d0.n, name=f"rebased_{c}") for c in NC}, d0.n)
    for j, cl in enumerate(c_reset.ensures):
        from pyvc.spec import split_label

        lab, body = split_label(cl, f"post{j}")
        E.assume(ev(body, dict(df=d1, names=None, result=None), dict(df=d0, names=None)))

    # ---- 5. Tree.from_data_frame's contract on the re-based table
    m = z3.Int("read_back_nodes")
    back = {c: SArr.fresh(kinds[c], m, name=f"read_back_{c}") for c in NC}
    tree2 = Obj(Tree, dict(ndata=PDict(dict(back)), names=names, types=get_types(), source="", comments=PList([])))
    bv = dict(df=d1, source="", comments=None, names=None, result=tree2, g_extra=[])
    E.assume(ev(_clause(c_build, "n-nodes-is-the-number-of-rows-and-every-SWC-column-holds-the-frame's-values-in-row-order"), bv, dict(bv)))

    # ---- the round trip (PROPERTY C01): same number of nodes, ids 0..n-1, same parents, same types, floats rounded to four decimals
    hyps_for_cover = list(E.pc)
    E.prove("lemma/roundtrip/same-number-of-nodes", m == n, "lemma")
    node = z3.Int("node")
    E.assume(z3.And(node >= 0, node < n))
    E.prove("lemma/roundtrip/id-is-the-node-index(arange)", back["id"].get(node).z == node, "lemma")
    E.prove("lemma/roundtrip/parent-is-the-original-parent(root-stays-minus-one)", back["pid"].get(node).z == t["pid"].get(node).z, "lemma")
    E.prove("lemma/roundtrip/type-is-the-original-type", back["type"].get(node).z == t["type"].get(node).z, "lemma")
    for c in FLT_COLS:
        E.prove(f"lemma/roundtrip/{c}-is-the-original-formatted-with-.4f-and-parsed-back(round4)", back[c].get(node).z == ROUND4(t[c].get(node).z), "lemma")
    # ---- the comment clause of PROPERTY C01 over parse_swc's comment list (Tree.from_swc hands it to the tree: C02's clause
    # comments-are-the-comments-read-in-order-in-a-list-of-the-tree's-own): what was passed to to_swc comes back, in order, leading blanks aside
    cback = lambda x: z3.Select(cm_back.cols[0], x)
    j = z3.Int("j")
    E.prove("lemma/roundtrip/comments/as-many-comments-come-back-as-were-passed-to-the-writer", zint(cm_back.n) == mc, "lemma")
    E.prove("lemma/roundtrip/comments/comment-j-comes-back-in-place-with-the-same-text-leading-blanks-aside",
            z3.ForAll([j], z3.Implies(z3.And(j >= 0, j < mc), LSTRIP(cback(j)) == LSTRIP(z3.Select(passed.cols[0], j)))), "lemma")
    # ---- SWCLike.to_swc's contract: what it passes is the optional source header, then the tree's own comments, and nothing else (three source kinds)
    like_header = _clause(c_like, "comments-passed-are-the-optional-source-header-then-the-tree's-own-comments-and-nothing-else")
    own = STR.str_list("tree_comments")
    E.assume(own.n >= 0)
    for kind, src, own_src, head in (("source-taken-from-the-tree", True, "a.swc", ["source: a.swc", ""]), ("source-unknown", True, "", ["source: Unknown", ""]),
                                     ("source-given", "lab", "a.swc", ["source: lab", ""]), ("no-source-header", False, "a.swc", [])):
        keep = len(E.pc)
        tree = Obj(Tree, dict(source=own_src, comments=own))
        E.call_log = [("to_swc", dict(comments=passed, get_ndata=None, names=None, extra_cols=None, id_offset=off))]
        lv = dict(self=tree, source=src, comments=True, own_comments=own)
        E.assume(like_header(E, lv, dict(lv)))
        h = len(head)
        E.prove(f"lemma/roundtrip/comments/{kind}/what-comes-back-is-the-source-header-of-this-export-then-every-comment-of-the-tree-and-nothing-else",
                z3.And(zint(cm_back.n) == h + zint(own.n), *[LSTRIP(cback(q)) == LSTRIP(STR.lit(E, s)) for q, s in enumerate(head)],
                       z3.ForAll([j], z3.Implies(z3.And(j >= 0, j < zint(own.n)), LSTRIP(cback(h + j)) == LSTRIP(z3.Select(own.cols[0], j))))), "lemma")
        del E.pc[keep:]
    E.call_log = []
    out = [(o.name.split("/lemma/", 1)[1], o.hyps, o.goal) for o in E.obligs]
    out.append(("cover:roundtrip/hypotheses-are-satisfiable", hyps_for_cover, z3.BoolVal(False)))
    return out


# ---------------------------------------------------------------------------
# The comment part of the round trip at the level of TEXTS (z3 sequence theory): one arbitrary comment c without line-break characters,
# the line to_swc's comment clause says is written for it, and what parse_swc's contract (contracts/C02.py: comment_text / kept_comment)
# says the reader makes of that line.  str.lstrip / removesuffix / s[n:] / startswith are DEFINED here over z3 strings the way CPython
# defines them (tools/xcheck_strmodel.py evaluates the definitions against the interpreter); the reader's comment test is the real pattern
# (read from the repository by contracts/regex_facts.py).
def comment_text_lemmas(definitions_only=False):
    import importlib

    from contracts import regex_facts as RF
    from pyvc import regex_z3 as RZ
    from swcgeom.core.swc_utils import get_names

    C02 = _import_quietly("contracts.C02")
    names = get_names()
    ws, nws = RF.WS(), RF.NWS()
    S = z3.StringVal
    no_break = z3.Star(RZ.re_of_ranges(RZ.complement([(10, 10), (13, 13)])))  # no LF, no CR: a comment LINE
    stripped = z3.Union(RZ.eps(), RZ.cat(nws, RZ.full()))                      # empty, or starting with a non-blank

    def is_lstrip(s, w, u):
        """u = s.lstrip(): s = w u, w blanks only, u empty or starting with a non-blank (w is the witness)"""
        return [s == z3.Concat(w, u), z3.InRe(w, z3.Star(ws)), z3.InRe(u, stripped)]

    def removesuffix(s, r, suffix):
        return [z3.If(z3.SuffixOf(S(suffix), s), s == z3.Concat(r, S(suffix)), r == s)]

    (m_row, p_row, f_row), (m_cm, p_cm, f_cm) = RF.swc_patterns(0)
    matched = RZ.parse(p_cm, f_cm).fullmatch()  # the texts the comment pattern can match (group 0 of `match` is such a prefix of the line)
    c, w, u, g0, rest, cm, w2, u2, ex = (z3.String("cl!" + n) for n in "c w u g0 rest cm w2 u2 extras".split())
    full, bare = z3.Concat(S("# "), u, S("\n")), S("#\n")
    comment = [z3.InRe(c, no_break)] + is_lstrip(c, w, u)

    tail, u3, nxt = z3.String("cl!tail"), z3.String("cl!u3"), z3.String("cl!next_line")
    comment_no_row = z3.Intersect(RZ.parse(p_cm, f_cm).hit(m_cm), z3.Complement(RZ.parse(p_row, f_row).hit(m_row)))  # lines the reader takes for comments

    def reader(line):
        """C02.comment_text: line minus the matched prefix minus one trailing newline; for a line that starts with '#' the matched prefix is
        the '#' alone (first lemma below)"""
        return [line == z3.Concat(S("#"), rest)] + removesuffix(rest, cm, "\n")

    if definitions_only:  # for tools/xcheck_strmodel.py: the definitions are evaluated on concrete texts and compared with CPython
        return dict(is_lstrip=is_lstrip, removesuffix=removesuffix, matched=matched, no_break=no_break, method=m_cm, pattern=p_cm)
    hdr = S(C02.header_text(names))
    like_header = z3.PrefixOf(S(C02.header_text(names).lstrip()), u)
    blank_cm = z3.Concat(S(" "), u)
    out = [
        ("a-written-comment-line-ends-with-its-only-line-break", comment, z3.InRe(full, z3.Concat(no_break, z3.Re("\n")))),
        ("the-prefix-the-reader-strips-from-a-line-that-starts-with-a-hash-is-the-hash-alone",
         [z3.Concat(S("#"), tail) == z3.Concat(g0, rest), z3.InRe(g0, matched)], g0 == S("#")),
        ("the-text-the-reader-keeps-is-one-blank-then-the-comment-minus-its-leading-blanks", comment + reader(full), cm == blank_cm),
        ("the-text-the-reader-keeps-of-a-bare-hash-line-is-empty", reader(bare), cm == S("")),
        ("read-back-text-leading-blanks-aside-is-the-comment-leading-blanks-aside", [z3.InRe(u, stripped)] + is_lstrip(blank_cm, w2, u2), u2 == u),
        ("a-blank-comment-minus-its-leading-blanks-is-empty(so-the-bare-hash-line-reads-back-right)", [z3.InRe(c, z3.Star(ws))] + is_lstrip(c, w, u), u == S("")),
        ("the-kept-text-of-a-written-comment-line-starts-like-the-column-header-exactly-if-the-comment-leading-blanks-aside-starts-with-the-column-names",
         [z3.InRe(u, stripped)], z3.PrefixOf(hdr, blank_cm) == like_header),
        ("the-reader-keeps-the-empty-text-of-a-bare-hash-line", [], z3.Not(z3.PrefixOf(hdr, S("")))),
        # PROPERTY C01, comment clause: EVERY comment comes back, WHATEVER its text (a comment that starts like the column header included: nothing is
        # assumed about u beyond "no line break").  The reader (C02: kept_comment) drops one line at most: the LAST comment line in front of the first row.
        # In the written text the line behind a comment's line is the line of the next comment or the column-header line; both pass the reader's comment
        # test and fail its row test (the REAL patterns), so no written comment line is the last comment line in front of the rows.  (On the reader
        # before the repair this obligation read "the kept text does not start like the header" and failed with the text 'id type x y z r pid'.)
        ("every-written-comment-is-kept-by-the-reader", [z3.InRe(u, no_break), z3.InRe(u3, no_break),
                                                          z3.Or(nxt == z3.Concat(S("# "), u3, S("\n")), nxt == bare, nxt == z3.Concat(S("# " + " ".join(names.cols())), ex, S("\n")))],
         z3.And(z3.InRe(full, comment_no_row), z3.InRe(nxt, comment_no_row))),
        ("the-writer's-column-header-line-is-dropped-by-the-reader(with-any-extra-columns)",
         reader(z3.Concat(S("# " + " ".join(names.cols())), ex, S("\n"))), z3.PrefixOf(hdr, cm)),  # `ex`: whatever follows the seven names
    ]
    return [("comments/text/" + lab, hyps, goal) for lab, hyps, goal in out]


def _import_quietly(modname):
    """contracts/C02.py installs process-wide models when imported: keep them out of this process"""
    import importlib

    saved = dict(M.EXTRA_MODELS)
    try:
        return importlib.import_module(modname)
    finally:
        M.EXTRA_MODELS.clear()
        M.EXTRA_MODELS.update(saved)


_lemmas_arith = lemmas


def lemmas():  # noqa: F811
    return _lemmas_arith() + roundtrip_lemma() + comment_text_lemmas()


# ===========================================================================
# column -> array construction: Tree.__init__, DictSWC.__init__, Tree.from_data_frame
TREE = "swcgeom/core/tree.py"
PAD = dict(id=0, type=0, x=0, y=0, z=0, r=1, pid=0)  # filling value of a column that is GIVEN but shorter than n (radius: 1); an absent column is all zeros


def _np32(col):
    import numpy as np

    return np.dtype("int32") if col in INT_COLS else np.dtype("float32")


def _np64(col):
    import numpy as np

    return np.dtype("int64") if col in INT_COLS else np.dtype("float64")


def _kind(col):
    return "int" if col in INT_COLS else "real"


def register_build(R):
    import numpy as np
    from pyvc.values import Obj, PDict
    from swcgeom.core.swc import DictSWC
    from swcgeom.core.swc_utils import get_names, get_types
    from swcgeom.core.tree import Tree

    names = get_names()
    NCOLS = names.cols()

    def _comments(S, how):
        """the `comments` argument: None (False), two abstract strings (True), or a list of abstract strings of symbolic length ("any"); frozen"""
        if not how:
            return None
        if how == "any":
            cm = STR.str_list("comments")
            S.assume(cm.n >= 0)
        else:
            cm = PList([STR.fresh_str("comment0"), STR.fresh_str("comment1")])
        cm.frozen = True
        return cm

    def column_is(arr, n, given, pad, col):
        """arr has exactly n entries; entry i is given[i] where the given column has one, else the padding value"""
        i = z3.Int(fresh_name("i"))
        k = _kind(col)
        want = to_z3(0, k) if given is None else z3.If(i < given.nz(), to_z3(given.get(i), k), to_z3(pad, k))
        return z3.And(arr.nz() == to_z3(n, "int"), z3.ForAll([i], z3.Implies(z3.And(i >= 0, i < arr.nz()), to_z3(arr.get(i), k) == want)))

    def stored(E, v, o):
        d = v["self"]
        cm = d.fields.get("comments")
        if isinstance(o["comments"], PList) and o["comments"].items is None:  # any number of comments: an own list with the same entries in the same order
            was = o["comments"]
            if not (isinstance(cm, PList) and cm.items is None and cm is not v["comments"] and cm.uid != was.uid and cm.kinds == was.kinds
                    and d.fields.get("source") == o["source"] and d.fields.get("names") == names and d.fields.get("types") == get_types()):
                return False
            q = z3.Int(fresh_name("q"))
            return z3.And(zint(cm.n) == zint(was.n), z3.ForAll([q], z3.Implies(z3.And(q >= 0, q < zint(was.n)), z3.Select(cm.cols[0], q) == z3.Select(was.cols[0], q))))
        want_cm = [] if o["comments"] is None else list(o["comments"].items)
        return (isinstance(cm, PList) and cm.items is not None and len(cm.items) == len(want_cm) and all(a is b for a, b in zip(cm.items, want_cm))
                and (o["comments"] is None or cm is not v["comments"])  # a list of its own: later edits of the tree's comments do not reach the caller's list
                and d.fields.get("source") == o["source"] and d.fields.get("names") == names and d.fields.get("types") == get_types())

    # ---------------------------------------------------------------- Tree.__init__
    def init_setup(widths, free=(), extra=("e",), drop=(), comments=True):
        def f(S):
            ext_C01.install()
            n = S.int("n_nodes")
            S.assume(n.z >= 0)
            cols = {}
            for c in NCOLS + list(extra):
                if c in drop:
                    continue
                m = S.int(f"len_{c}") if c in free else n  # a free length: shorter than n (padded), equal, or longer (cut)
                a = S.arr(_kind(c), n=m, name=c, dtype=(_np64(c) if widths == 64 else _np32(c)))
                a.frozen = True
                cols[c] = a
            cm = _comments(S, comments)
            return dict(self=S.obj(Tree), n_nodes=n, source="a.swc", comments=cm, names=None, kwargs=PDict(dict(cols)), g_cols=dict(cols), g_extra=list(extra))

        return f

    def init_cols(E, v, o):
        nd = v["self"].fields.get("ndata")
        if not isinstance(nd, PDict) or nd.items is None or list(nd.items) != NCOLS + v["g_extra"]:
            return False  # the seven SWC columns in format order, then the extra columns in the order given
        out = []
        for c in NCOLS:
            a, g = nd.items[c], v["g_cols"].get(c)
            if not isinstance(a, SArr):
                return False
            if g is None and c == "id":
                g = SArr(z3.Lambda([z3.Int("k")], z3.Int("k")), o["n_nodes"].z, "int")      # default numbering 0..n-1
            if g is None and c == "pid":
                g = SArr(z3.Lambda([z3.Int("k")], z3.Int("k") - 1), o["n_nodes"].z, "int")  # default parent: the preceding node (a chain), root -1
            out.append(column_is(a, o["n_nodes"], g, PAD[c], c))
        return z3.And(*out)

    def init_dtypes(E, v, o):
        nd = v["self"].fields["ndata"].items
        return all(isinstance(nd[c], SArr) and nd[c].dtype == _np32(c) for c in NCOLS)

    def init_extra(E, v, o):
        nd = v["self"].fields["ndata"].items
        return all(nd.get(c) is v["g_cols"][c] for c in v["g_extra"])

    R.add(
        f"{TREE}:Tree.__init__",
        prop="C01",
        variants={
            "all-columns,64-bit(as-a-parsed-frame-hands-them-over),length-n": init_setup(64),
            "all-columns,32-bit,id-and-x-of-any-length(short:padded,long:cut)": init_setup(32, free=("id", "x")),
            "all-columns,64-bit,type-r-pid-of-any-length,no-comments": init_setup(64, free=("type", "r", "pid"), comments=False),
            "no-id-no-pid:default-numbering-and-chain-parents": init_setup(32, extra=(), drop=("id", "pid")),
            "only-id-and-pid:attributes-zero": init_setup(64, extra=(), drop=("type", "x", "y", "z", "r")),
            "all-columns,64-bit,length-n,any-number-of-comments(as-read-from-a-file)": init_setup(64, extra=(), comments="any"),
        },
        requires=["size-non-negative :: n_nodes >= 0"],
        ensures=[
            ("every-SWC-column-has-n-entries:the-given-values-in-order-then-the-padding-value", init_cols),
            ("int-columns-stored-as-int32-float-columns-as-float32", init_dtypes),
            ("extra-columns-kept-as-given-after-the-seven-SWC-columns", init_extra),
            ("source-names-types-stored-comments-copied-into-an-own-list", stored),
        ],
        notes="n_nodes, every column's length and content symbolic; given arrays are frozen (a write = failed frame obligation)",
    )

    # ---------------------------------------------------------------- DictSWC.__init__
    def dict_setup(comments, names_given):
        def f(S):
            n = S.int("n")
            S.assume(n.z >= 0)
            cols = {}
            for c in NCOLS + ["e"]:
                a = S.arr(_kind(c), n=n, name=c, dtype=_np32(c))
                a.frozen = True
                cols[c] = a
            cm = _comments(S, comments)
            return dict(self=S.obj(DictSWC), source="a.swc", comments=cm, names=(names if names_given else None), kwargs=PDict(dict(cols)), g_cols=dict(cols))

        return f

    def dict_cols(E, v, o):
        nd = v["self"].fields.get("ndata")
        return (isinstance(nd, PDict) and nd.items is not None and list(nd.items) == list(v["g_cols"])
                and all(nd.items[c] is v["g_cols"][c] for c in nd.items))

    R.add(
        f"{SWC}:DictSWC.__init__",
        prop="C01",
        variants={**{f"comments-{'given' if c else 'omitted'},names-{'given' if nm else 'omitted'}": dict_setup(c, nm) for c in (True, False) for nm in (True, False)},
                  "any-number-of-comments,names-omitted": dict_setup("any", False)},
        ensures=[
            ("one-column-per-keyword-in-the-given-order-holding-the-very-array-given", dict_cols),
            ("source-names-types-stored-comments-copied-into-an-own-list", stored),
        ],
        notes="the columns are the arrays handed over (no copy, no conversion): values, order and dtype are the caller's",
    )

    # ---------------------------------------------------------------- Tree.from_data_frame
    def frame_setup(extra, comments=True):
        def f(S):
            ext_C01.install()
            cols = {c: _kind(c) for c in NCOLS + list(extra)}
            df = S.dframe(cols, name="frame")
            for c, a in df.cols.items():
                a.dtype = _np64(c)  # what pandas makes of the parsed Python ints / floats
                a.frozen = True
            df.frozen = True
            cm = _comments(S, comments)
            return dict(df=df, source="a.swc", comments=cm, names=None, g_extra=list(extra))

        return f

    def frame_is_tree(E, v, o):
        t = v["result"]
        return isinstance(t, Obj) and t.cls is Tree

    def frame_cols(E, v, o):
        t, df = v["result"], o["df"]
        nd = t.fields.get("ndata")
        if not isinstance(nd, PDict) or nd.items is None or list(nd.items)[:7] != NCOLS:
            return False
        out = []
        for c in NCOLS:
            a = nd.items[c]
            if not isinstance(a, SArr):
                return False
            out.append(column_is(a, zint(df.n), df.cols[c], PAD[c], c))  # the frame's column has n entries: no padding, no cut
        return z3.And(*out)

    def frame_dtypes(E, v, o):
        nd = v["result"].fields["ndata"].items
        return all(isinstance(nd[c], SArr) and nd[c].dtype == _np32(c) for c in NCOLS)

    def frame_fresh(E, v, o):
        nd = v["result"].fields["ndata"]
        return nd.uid not in E.entry_uids and all(nd.items[c].uid not in E.entry_uids for c in NCOLS)

    def frame_extra(E, v, o):
        # defect found here and FIXED in /repo: Tree.from_data_frame handed only names.cols() to Tree(...): a frame read with extra_cols=[...] (Tree.from_swc(f,
        # extra_cols=..), Tree.from_eswc) loses the requested columns without any message; to_eswc() of such a tree raises KeyError
        t, df = v["result"], o["df"]
        nd = t.fields["ndata"].items
        out = []
        for c in v["g_extra"]:
            if c not in nd or not isinstance(nd[c], SArr):
                return False
            out.append(column_is(nd[c], zint(df.n), df.cols[c], 0, c))
        return list(nd) == NCOLS + v["g_extra"] and (z3.And(*out) if out else True)

    def frame_stored(E, v, o):
        return stored(E, dict(self=v["result"], comments=v["comments"]), o)

    R.add(
        f"{TREE}:Tree.from_data_frame",
        prop="C01",
        variants={
            "seven-columns,comments": frame_setup(()),
            "seven-columns,no-comments": frame_setup((), comments=False),
            "seven-columns+one-requested-extra-column": frame_setup(("e",)),
            "seven-columns,any-number-of-comments(as-read-from-a-file)": frame_setup((), comments="any"),
        },
        ensures=[
            ("a-Tree-is-returned", frame_is_tree),
            ("n-nodes-is-the-number-of-rows-and-every-SWC-column-holds-the-frame's-values-in-row-order", frame_cols),
            ("int-columns-stored-as-int32-float-columns-as-float32", frame_dtypes),
            ("the-tree-owns-fresh-arrays(64-bit-frame-columns-are-converted-copies)", frame_fresh),
            ("extra-columns-of-the-frame-are-kept", frame_extra),  # failed on the code before the fix (known_findings.jsonl)
            ("source-names-types-stored-comments-copied-into-an-own-list", frame_stored),
        ],
        notes="number of rows and all cell values symbolic; frame and its columns frozen (a write = failed frame obligation)",
    )


_register_w = register


def register(R):  # noqa: F811
    _register_w(R)
    register_build(R)


def regex_facts():
    """regex-language facts of this property (contracts/regex_facts.py): obligations C01/regex/<label>"""
    from contracts import regex_facts as RF

    return RF.facts("C01")
