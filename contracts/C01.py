"""C01 — SWC write -> read round trip: sidecar contracts of the WRITER side
(`to_swc.get_v`, `to_swc`, `SWCLike.to_swc`); the reader side is contracts/C02.py, the re-basing
arithmetic (`reset_index_`) is proved in contracts/C18.py and re-verified here through DEPENDS.

Text is kept STRUCTURED: a produced string is a sequence of atoms, each either a concrete piece of text
or ("fmt", spec, value) = format(value, spec) of a symbolic number (spec "str" = str(value)).  Postconditions
compare atom sequences: specs and concrete text literally, values by a z3 equality.  Nothing is assumed
about float.__format__ itself (DESIGN: out of reach); what is proved is WHICH value is formatted with
WHICH spec at WHICH place of the line.
"""
import z3

from pyvc import models as M
from pyvc.engine import ProgExc, Unsupported
from pyvc.models import FmtPiece, SymStr
from pyvc.spec import Registry
from pyvc.values import Callback, Iter, NArr, Opaque, PList, SArr, Sym, fresh_name, kind_of, to_z3, zint

DEPENDS = ["C18"]  # reset_index_ (ids/pids re-based on the first root, roots stay -1, attributes untouched)

IO = "swcgeom/core/swc_utils/io.py"
SWC = "swcgeom/core/swc.py"


# ---------------------------------------------------------------------------
# structured text
class SStr(tuple):
    """A string made of atoms (concrete str | FmtPiece | ("join", sep, opaque-lines)).  It is a tuple subclass so that
    the interpreter's generic `+` (operator.add on str/tuple operands) concatenates it."""

    def __add__(self, other):
        if isinstance(other, (str, SStr, SymStr, FmtPiece)):
            return SStr(tuple(self) + (other,))
        return NotImplemented

    def __radd__(self, other):
        if isinstance(other, (str, SymStr, FmtPiece)):
            return SStr((other,) + tuple(self))
        return NotImplemented

    def __repr__(self):
        return "SStr" + tuple.__repr__(self)


def atoms(v):
    """normal form: list of atoms, adjacent concrete text merged, empty text dropped"""
    out = []

    def emit(a):
        if isinstance(a, str):
            if not a:
                return
            if out and isinstance(out[-1], str):
                out[-1] += a
            else:
                out.append(a)
        else:
            out.append(a)

    def walk(x):
        if isinstance(x, str):
            emit(x)
        elif isinstance(x, SStr):
            for p in x:
                walk(p)
        elif isinstance(x, SymStr):
            for p in x.parts:
                walk(p)
        elif isinstance(x, FmtPiece):
            if isinstance(x.value, (str, SStr, SymStr, FmtPiece)) and x.spec in ("", "str"):
                walk(x.value)  # str(s) / format(s, "") of a string is the string
            elif kind_of(x.value) is not None:
                emit(("fmt", x.spec, x.value))
            else:
                emit(("opaque-fmt", x.spec, x.value))
        elif isinstance(x, tuple) and x and x[0] in ("fmt", "join"):
            emit(x)
        else:
            emit(("?", x))

    walk(v)
    return out


def atoms_eq(got, exp):
    """z3 Bool (or Python bool): the two atom sequences denote the same text, piece by piece"""
    if len(got) != len(exp):
        return False
    conj = []
    for a, b in zip(got, exp):
        if isinstance(a, str) or isinstance(b, str):
            if a != b:
                return False
            continue
        if a[0] != b[0]:
            return False
        if a[0] == "fmt":
            if a[1] != b[1]:
                return False  # the format spec is part of the text
            ka, kb = kind_of(a[2]), kind_of(b[2])
            if ka != kb:
                return False  # str(3) and str(3.0) differ
            conj.append(to_z3(a[2], ka) == to_z3(b[2], kb))
        elif a[0] == "join":
            if a[1] != b[1] or a[2] is not b[2]:
                return False
        else:
            return False
    return z3.And(*conj) if conj else True


def fmt(spec, value):
    return ("fmt", spec, value)


# ---------------------------------------------------------------------------
# library models: str.join on structured pieces, open(..., "w")
def _join_model(sep):
    def model(eng, args, kwargs):
        (src,) = args
        if isinstance(src, Opaque):  # the (abstract) line sequence returned by a modular to_swc call
            eng.assumptions.add("str-model: sep.join(lines) kept as the structured text join(sep, lines)")
            return SStr((("join", sep, src),))
        items = M.iterate_concrete(eng, src)
        if all(isinstance(x, str) for x in items):
            return sep.join(items)
        for x in items:
            if not isinstance(x, (str, SStr, SymStr, FmtPiece)):
                raise ProgExc(TypeError, "sequence item: expected str instance")
        eng.assumptions.add("str-model: sep.join(pieces) is the pieces in order with sep between neighbours")
        out = []
        for j, x in enumerate(items):
            if j:
                out.append(sep)
            out.append(x)
        return SStr(tuple(out))

    return model


# builtin bound methods compare equal iff they are the same method of the identical receiver; "" and " " are
# interned singletons in CPython, so these keys match `"".join` / `" ".join` evaluated from the carriers' constants.
# Any other separator in the source has no model => `Unsupported` (exit 3), never a silent pass.
for _sep in ("", " ", "\n", "\t", ",", ";"):
    M.EXTRA_MODELS[_sep.join] = _join_model(_sep)


def _open_model(eng, args, kwargs):
    """open(fname, "w", encoding=...): an abstract text sink; the only effects visible to the carriers are
    __enter__/__exit__ (never suppressing) and writelines(lines), all logged in eng.ghost['opened']."""
    if len(args) < 2 or args[1] != "w":
        raise Unsupported("open() is modelled only for text writing (mode 'w')")
    eng.assumptions.add("io-model: open(path, 'w') yields a context manager whose __exit__ does not suppress; writelines is logged")
    rec = dict(args=list(args), kwargs=dict(kwargs), written=[], entered=0, exited=0)
    eng.ghost.setdefault("opened", []).append(rec)

    def enter(e, recv, a, k):
        rec["entered"] += 1
        return recv

    def exit_(e, recv, a, k):
        rec["exited"] += 1
        return False

    def writelines(e, recv, a, k):
        rec["written"].append(a[0])
        return None

    return Opaque(z3.Const(fresh_name("fh"), z3.IntSort()), {"__enter__": enter, "__exit__": exit_, "writelines": writelines})


M.EXTRA_MODELS[open] = _open_model

INT_COLS = ("id", "type", "pid")
FLT_COLS = ("x", "y", "z", "r")


def _dtype(kind):
    import numpy as np

    return np.dtype("int32") if kind == "int" else np.dtype("float32")


def expected_cell(col, cols, idx, off):
    """the text of one cell, written from the property statement: ids/parents shifted by the offset, the root's
    parent marker -1 kept for every offset, types verbatim, every floating column with exactly four decimals"""
    v = cols[col].get(idx) if isinstance(cols[col], SArr) else cols[col]
    if col == "id":
        return fmt("str", Sym(v.z + to_z3(off, "int"), "int"))
    if col == "pid":
        return fmt("str", Sym(z3.If(v.z == -1, z3.IntVal(-1), v.z + to_z3(off, "int")), "int"))
    if col == "type":
        return fmt("str", v)
    return fmt(".4f", v)


def register(R: Registry):
    from swcgeom.core.swc_utils import get_names

    names = get_names()

    # ------------------------------------------------------------------ get_v
    ALL = list(INT_COLS) + list(FLT_COLS) + ["extra"]

    def getv_setup(col):
        def f(S):
            n = S.int("n")
            S.assume(n.z >= 1)
            cols = {c: S.arr("int" if c in INT_COLS else "real", n=n, name=c, dtype=_dtype("int" if c in INT_COLS else "real")) for c in ALL}
            off, idx = S.int("id_offset"), S.int("idx")

            def get_ndata(eng, args, kwargs):
                return cols[args[0]]

            return dict(k=col, idx=idx, n=n, off=off, cols=cols,
                        __closure__=dict(get_ndata=Callback("get_ndata", get_ndata), names=names, id_offset=off))

        return f

    def cell_post(which):
        def f(E, v, o):
            col = v["k"]
            group = "float" if col in FLT_COLS or col == "extra" else col
            if group != which:
                return True
            return atoms_eq(atoms(v["result"]), [expected_cell(col, v["cols"], v["idx"], v["off"])])

        return f

    R.add(
        f"{IO}:to_swc.<locals>.get_v",
        prop="C01",
        variants={f"k={c}": getv_setup(c) for c in ALL},
        requires=["node-in-range :: 0 <= idx and idx < n", "offset-non-negative :: off >= 0"],
        ensures=[
            ("id-is-shifted-by-the-offset", cell_post("id")),
            ("parent-is-shifted-but-the-root-marker-stays-minus-one", cell_post("pid")),
            ("type-is-written-verbatim", cell_post("type")),
            ("floating-columns-carry-exactly-four-decimals", cell_post("float")),
        ],
        notes="column length, node index, offset and all column contents symbolic; one variant per column name "
              "(the seven SWC columns and one extra floating column)",
    )

    # ----------------------------------------------------------------- to_swc
    def swc_setup(comments, extra):
        def f(S):
            n = S.int("n")
            S.assume(n.z >= 0)
            allc = list(INT_COLS) + list(FLT_COLS) + list(extra or [])
            cols = {c: S.arr("int" if c in INT_COLS else "real", n=n, name=c, dtype=_dtype("int" if c in INT_COLS else "real")) for c in allc}

            def get_ndata(eng, args, kwargs):
                if args[0] not in cols:
                    raise ProgExc(KeyError, args[0])
                return cols[args[0]]

            return dict(get_ndata=Callback("get_ndata", get_ndata), extra_cols=PList(list(extra)) if extra is not None else None,
                        id_offset=S.int("id_offset"), comments=PList(list(comments)) if comments is not None else None, names=None,
                        g_n=n, g_cols=cols, given_comments=comments, given_extra=extra)

        return f

    def col_order(v):
        return names.cols() + list(v["given_extra"] or [])

    def ids_are_positions(E, v, o):
        if isinstance(v["get_ndata"], Callback):
            ids = v["g_cols"]["id"]
        else:  # call site: ask the tree
            ids = E.call(v["get_ndata"], [names.id], {})
        i = z3.Int(fresh_name("i"))
        return z3.ForAll([i], z3.Implies(z3.And(i >= 0, i < ids.nz()), ids.get(i).z == i))

    def comment_line_ok(c, line):
        """one comment -> one newline-terminated '#' line carrying the comment minus its leading blanks
        (a blank comment may also be written as a bare '#')"""
        if not isinstance(line, str):
            return False
        ok = line == "# " + c.lstrip() + "\n"
        if c.strip() == "":
            ok = ok or line == "#\n"
        return ok and line.endswith("\n") and line.count("\n") == 1 and line.startswith("#")

    def out_items(v):
        r = v["result"]
        if not isinstance(r, Iter) or not isinstance(r.seq, PList) or r.seq.items is None:
            return None
        return r.seq.items

    def at_call_site(v):
        # used modularly (SWCLike.to_swc): the result is an abstract line sequence about which nothing is assumed
        return isinstance(v.get("result"), Opaque)

    def post_comments(E, v, o):
        if at_call_site(v):
            return True
        items, cs = out_items(v), list(v["given_comments"] or [])
        if items is None or len(items) < len(cs):
            return False
        return all(comment_line_ok(c, ln) for c, ln in zip(cs, items))

    def post_header(E, v, o):
        if at_call_site(v):
            return True
        items, cs = out_items(v), list(v["given_comments"] or [])
        if items is None or len(items) <= len(cs):
            return False
        return items[len(cs)] == "# " + " ".join(col_order(v)) + "\n"

    def post_rows(E, v, o):
        from pyvc.loops import LoopYields

        if at_call_site(v):
            return True
        items, cs = out_items(v), list(v["given_comments"] or [])
        if items is None or len(items) != len(cs) + 2:
            return False  # nothing but the comments, the header and the node rows
        blk = items[-1]
        if not isinstance(blk, LoopYields) or blk.labels != ["one-line-per-node-with-the-cells-in-column-order"]:
            return False
        return zint(blk.count) == to_z3(v["g_n"], "int")

    def row_yield(E, v, new, k):
        if len(new) != 1:
            return False
        exp = []
        for j, c in enumerate(col_order(v)):
            if j:
                exp.append(" ")
            exp.append(expected_cell(c, v["g_cols"], k, v["id_offset"]))
        exp.append("\n")
        return atoms_eq(atoms(new[0]), atoms(SStr(tuple(exp))))

    def lines_result(S, fr):
        ln = S.opaque({}, "lines")
        S.eng.ghost.setdefault("to_swc_lines", []).append(ln)
        return ln

    R.add(
        f"{IO}:to_swc",
        prop="C01",
        variants={
            "no-comments-argument": swc_setup(None, None),
            "empty-comment-list": swc_setup([], None),
            "blank-plain-indented-and-hash-comments": swc_setup(["", " ", "x", "  x ", "# x", "\t"], None),
            "source-header+one-extra-column": swc_setup(["source: a.swc", "", "hello"], ["e"]),
        },
        requires=[("ids-are-positions", ids_are_positions), "offset-non-negative :: id_offset >= 0"],
        returns=lines_result,
        ensures=[
            ("one-newline-terminated-hash-line-per-comment", post_comments),
            ("column-header-line-follows-the-comments", post_header),
            ("then-exactly-one-row-per-node-and-nothing-else", post_rows),
        ],
        loops={1: dict(invariant=[], yields=[("one-line-per-node-with-the-cells-in-column-order", row_yield)])},
        notes="number of nodes, offset and all column contents symbolic (rows: per-iteration `yields` obligation of the node loop); "
              "comments are concrete small lists (variants) because str methods run natively on concrete strings",
    )

    # --------------------------------------------------------- SWCLike.to_swc
    from contracts.common import col, sym_tree

    def like_setup(source, own_source, comments, fname, extra):
        def f(S):
            t = sym_tree(S, "t", frozen=True)
            t.fields["source"] = own_source
            c0, c1 = S.opaque({}, "comment0"), S.opaque({}, "comment1")  # two arbitrary (abstract) comment strings
            t.fields["comments"] = PList([c0, c1])
            t.fields["comments"].frozen = True
            return dict(self=t, fname=fname, extra_cols=PList(list(extra)) if extra is not None else None, source=source,
                        comments=comments, id_offset=S.int("id_offset"), own_comments=[c0, c1])

        return f

    def tree_ids_are_positions(E, v, o):
        ids = col(v["self"], "id")
        i = z3.Int(fresh_name("i"))
        return z3.ForAll([i], z3.Implies(z3.And(i >= 0, i < ids.nz()), ids.get(i).z == i))

    def the_call(E):
        hits = [a for nm, a in E.call_log if nm == "to_swc"]
        return hits[0] if len(hits) == 1 else None

    def like_writer_called(E, v, o):
        from pyvc.values import Bound

        a = the_call(E)
        if a is None:
            return False
        g = a["get_ndata"]
        return isinstance(g, Bound) and g.self_obj is v["self"] and g.func.key.endswith(".get_ndata") and a["names"] is None

    def like_header(E, v, o):
        a = the_call(E)
        if a is None or not isinstance(a["comments"], PList) or a["comments"].items is None:
            return False
        src, own = o["source"], o["self"].fields["source"]
        exp = []
        if src is not False:
            exp += ["source: " + (src if isinstance(src, str) else (own if own else "Unknown")), ""]
        if o["comments"] is True:
            exp += list(v["own_comments"])
        got = a["comments"].items
        return len(got) == len(exp) and all((g == e) if isinstance(e, str) else (g is e) for g, e in zip(got, exp))

    def like_passthrough(E, v, o):
        a = the_call(E)
        if a is None:
            return False
        if a["extra_cols"] is not v["extra_cols"]:
            return False
        return to_z3(a["id_offset"], "int") == to_z3(o["id_offset"], "int")

    def like_text(E, v, o):
        lines = E.ghost.get("to_swc_lines", [])
        opened = E.ghost.get("opened", [])
        if len(lines) != 1:
            return False
        if o["fname"] is None:
            return not opened and atoms_eq(atoms(v["result"]), [("join", "", lines[0])])
        if v["result"] is not None or len(opened) != 1:
            return False
        f = opened[0]
        return (f["args"][:2] == [o["fname"], "w"] and f["kwargs"].get("encoding") == "utf-8" and f["entered"] == 1 and f["exited"] == 1
                and len(f["written"]) == 1 and f["written"][0] is lines[0])

    def like_input_kept(E, v, o):
        cs = v["self"].fields["comments"]
        return cs.items is not None and len(cs.items) == 2 and all(a is b for a, b in zip(cs.items, v["own_comments"]))

    R.add(
        f"{SWC}:SWCLike.to_swc",
        prop="C01",
        variants={
            "text,source-from-tree,comments": like_setup(True, "a.swc", True, None, None),
            "text,unknown-source,comments": like_setup(True, "", True, None, None),
            "text,given-source,no-comments": like_setup("lab", "a.swc", False, None, None),
            "text,no-source,comments,extra-columns": like_setup(False, "a.swc", True, None, ["e"]),
            "text,no-source,no-comments": like_setup(False, "", False, None, None),
            "file,source-from-tree,comments": like_setup(True, "a.swc", True, "out.swc", None),
        },
        requires=[("ids-are-positions", tree_ids_are_positions), "offset-non-negative :: id_offset >= 0"],
        ensures=[
            ("writer-called-once-on-this-tree's-columns", like_writer_called),
            ("comments-passed-are-the-optional-source-header-then-the-tree's-own-comments-and-nothing-else", like_header),
            ("offset-and-extra-columns-passed-through", like_passthrough),
            ("output-is-exactly-the-writer's-lines", like_text),
            ("tree's-comment-list-not-modified", like_input_kept),
        ],
        notes="tree size/content and offset symbolic; the tree's comments are two abstract strings; option combinations as variants",
    )


# ---------------------------------------------------------------------------
# Round-trip arithmetic (lemma over the contracts above and C18's reset_index_): what the writer's cell formulas put
# on the page, read back as integers and re-based on the first root (the reader's default), is the original numbering.
def lemmas():
    i, p, off = z3.Ints("node parent id_offset")
    wf = [off >= 0, i >= 0, z3.Or(p == -1, p >= 0)]
    cell = lambda col, val: to_z3(expected_cell(col, {col: Sym(val, "int")}, None, Sym(off, "int"))[2], "int")
    root_id_written = cell("id", z3.IntVal(0))          # a well-formed tree's root is node 0
    id_written, pid_written = cell("id", i), cell("pid", p)
    id_back = id_written - root_id_written              # reset_index_: ids-rebased-on-first-root
    pid_back = z3.If(pid_written == -1, z3.IntVal(-1), pid_written - root_id_written)  # edges-rebased / every-root-stays-root
    return [
        ("written-then-rebased-id-is-the-node-index", wf, id_back == i),
        ("written-then-rebased-parent-is-the-original-parent-and-roots-stay-roots", wf, pid_back == p),
        ("a-written-non-root-parent-is-never-the-root-marker", wf + [p >= 0], pid_written != -1),
    ]


def regex_facts():
    """regex-language facts of this property (contracts/regex_facts.py): obligations C01/regex/<label>"""
    from contracts import regex_facts as RF

    return RF.facts("C01")
