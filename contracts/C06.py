"""C06 — subtree extraction and pruning: sidecar contracts."""
import z3

from pyvc.spec import Registry
from pyvc.values import SArr, Sym, fresh_name, to_z3, zint

SUB = "swcgeom/core/swc_utils/subtree.py"
REMOVAL = -2


def register(R: Registry):
    def setup(S):
        n = S.int("n")
        S.assume(n.z >= 0)
        sid, spid = S.arr("int", n=n, name="sub_id"), S.arr("int", n=n, name="sub_pid")
        sid.frozen = spid.frozen = True
        # ghost: position of each kept entry's parent entry
        pp = z3.Function("parent_pos", z3.IntSort(), z3.IntSort())
        i, j = z3.Ints("i j")
        kept = lambda t: z3.And(t >= 0, t < n.z, z3.Select(sid.arr, t) != REMOVAL)
        S.assume(z3.ForAll([i, j], z3.Implies(z3.And(kept(i), kept(j), i != j), z3.Select(sid.arr, i) != z3.Select(sid.arr, j))))
        S.assume(z3.ForAll([i], z3.Implies(z3.And(kept(i), z3.Select(spid.arr, i) != -1), z3.And(kept(pp(i)), z3.Select(sid.arr, pp(i)) == z3.Select(spid.arr, i)))))
        return dict(sub=(sid, spid), sid=sid, spid=spid)

    def post(which):
        def f(E, v, o):
            (new_id, new_pid), mapping = v["result"]
            sid, spid = o["sid"], o["spid"]
            kappa, rho = mapping.kappa, mapping.rho
            n, m = sid.nz(), mapping.nz()
            k, i = z3.Ints(fresh_name("k") + " " + fresh_name("i"))
            if which == "mapping":
                return z3.And(
                    m <= n,
                    z3.ForAll([k], z3.Implies(z3.And(k >= 0, k < m), z3.And(kappa(k) >= 0, kappa(k) < n, z3.Select(sid.arr, kappa(k)) != REMOVAL, mapping.get(k).z == z3.Select(sid.arr, kappa(k))))),
                    z3.ForAll([k, i], z3.Implies(z3.And(0 <= k, k < i, i < m), kappa(k) < kappa(i))),
                    z3.ForAll([i], z3.Implies(z3.And(i >= 0, i < n, z3.Select(sid.arr, i) != REMOVAL), z3.And(rho(i) >= 0, rho(i) < m, kappa(rho(i)) == i))),
                )
            if which == "ids":
                return z3.And(new_id.nz() == m, z3.ForAll([k], z3.Implies(z3.And(k >= 0, k < m), new_id.get(k).z == k)))
            if which == "pids":
                p = z3.Select(spid.arr, kappa(k))
                q = new_pid.get(k).z
                return z3.And(new_pid.nz() == m, z3.ForAll([k], z3.Implies(z3.And(k >= 0, k < m), z3.And(
                    z3.Implies(p == -1, q == -1),
                    z3.Implies(p != -1, z3.And(q >= 0, q < m, mapping.get(q).z == p))))))
            if which == "fresh":
                return all(a.uid not in E.entry_uids for a in (new_id, new_pid, mapping))

        return f

    R.add(
        f"{SUB}:to_sub_topology",
        prop="C06",
        setup=setup,
        ensures=[("mapping-is-the-kept-ids-in-order", post("mapping")), ("new-ids-are-positions", post("ids")),
                 ("parents-remapped-roots-kept", post("pids")), ("outputs-are-fresh", post("fresh"))],
    )
