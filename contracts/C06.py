"""C06 — subtree extraction and pruning: sidecar contracts."""
import z3

from pyvc import ext_C06
from pyvc.ext_C06 import SymSet
from pyvc.spec import Registry
from pyvc.values import Iter, SArr, Sym, fresh_name, to_z3, zint

ext_C06.install()  # library models of this property: Python sets of ints, any / all over symbolic bool lists

SUB = "swcgeom/core/swc_utils/subtree.py"
REMOVAL = -2

# Second registrations ("fixed small sizes").  Every carrier that walks the node table is verified a second time, against the SAME
# clauses, on tables of exactly FIXED_SIZES rows whose ids / parents / types / attributes / marks are all symbolic (so every legal
# numbering of that many nodes is covered, parent-first or not).  The row count being a concrete number, a loop over the rows for
# which the sidecar has no invariant -- a rewritten carrier -- simply unrolls, and the postconditions are DECIDED at that size
# (a counter-model is a concrete table) instead of ending in `unsupported: loop without invariant`.
FIXED_SIZES = (5,)
FIXED_NOTE = ("second registration on tables of a fixed number of rows: a loop over the rows without a sidecar invariant unrolls, "
              "the postconditions are decided at that size")


def fixed_name(m):
    return f"{m} rows in any legal numbering"


def local_collection_name(key, kind, default="removals"):
    """name of the carrier's local that collects the removals, read off its current AST (so that the local may be renamed):
    kind 'list' -> the first local initialised with `[]`, kind 'set' -> the first local initialised with `set(...)`"""
    import ast

    from pyvc import extract

    try:
        node, _, _ = extract.find(key)
    except (KeyError, OSError):
        return default
    for st in node.body:
        val, tgt = getattr(st, "value", None), None
        if isinstance(st, ast.AnnAssign) and isinstance(st.target, ast.Name):
            tgt = st.target.id
        elif isinstance(st, ast.Assign) and len(st.targets) == 1 and isinstance(st.targets[0], ast.Name):
            tgt = st.targets[0].id
        if tgt is None or val is None:
            continue
        if kind == "list" and isinstance(val, ast.List) and not val.elts:
            return tgt
        if kind == "set" and isinstance(val, ast.Call) and isinstance(val.func, ast.Name) and val.func.id == "set":
            return tgt
    return default


def marked_array_name(key, default="new_ids"):
    """name of to_subtree's local array of removal marks, read off its current AST (so that the local may be renamed): the first
    component of the tuple handed to propagate_removal"""
    import ast

    from pyvc import extract

    try:
        node, _, _ = extract.find(key)
    except (KeyError, OSError):
        return default
    for x in ast.walk(node):
        if isinstance(x, ast.Call) and getattr(x.func, "id", getattr(x.func, "attr", None)) == "propagate_removal" and x.args:
            a = x.args[0]
            if isinstance(a, ast.Tuple) and a.elts and isinstance(a.elts[0], ast.Name):
                return a.elts[0].id
    return default


PPOS = z3.Function("parent_pos", z3.IntSort(), z3.IntSort())  # ghost: position of a kept entry's parent entry


def as_sarr(a):
    """a 1-D integer array of CONCRETE length (e.g. `np.array([n, c1, c2])` built from a Python list on one path) read as a symbolic array
    of that length, so that the clauses below apply to it unchanged"""
    from pyvc.values import NArr

    if isinstance(a, NArr) and a.ndim == 1 and a.kind in ("int", "bool"):
        arr = z3.K(z3.IntSort(), z3.IntVal(0))
        for j, x in enumerate(a.items):
            arr = z3.Store(arr, j, to_z3(x, "int"))
        out = SArr(arr, len(a.items), "int", name="column")
        out.uid = a.uid
        return out
    return a


def sub_pre(which):
    """preconditions of to_sub_topology: the kept entries carry pairwise distinct ids, and the parent id of a kept entry
    is -1 or the id of a KEPT entry (ghost PPOS) -- otherwise the dict lookup raises KeyError"""
    def f(E, v, o):
        sid, spid = (as_sarr(a) for a in v["sub"])
        n = sid.nz()
        i, j = z3.Int(fresh_name("i")), z3.Int(fresh_name("j"))
        kept = lambda t: z3.And(t >= 0, t < n, z3.Select(sid.arr, t) != REMOVAL)
        if which == "same-length":
            return spid.nz() == n
        if which == "kept-ids-pairwise-distinct":
            return z3.ForAll([i, j], z3.Implies(z3.And(kept(i), kept(j), i != j), z3.Select(sid.arr, i) != z3.Select(sid.arr, j)))
        if isinstance(sid.n, int) and not isinstance(sid.n, bool):
            # a table of exactly sid.n entries: "the parent id of a kept entry is the id of SOME kept entry" as a finite disjunction
            # (no ghost position function is needed, so a caller need not define one)
            return z3.And(*[z3.Implies(z3.And(kept(z3.IntVal(a)), z3.Select(spid.arr, a) != -1),
                                       z3.Or(*[z3.And(kept(z3.IntVal(b)), z3.Select(sid.arr, b) == z3.Select(spid.arr, a)) for b in range(sid.n)]))
                            for a in range(sid.n)])
        return z3.ForAll([i], z3.Implies(z3.And(kept(i), z3.Select(spid.arr, i) != -1), z3.And(kept(PPOS(i)), z3.Select(sid.arr, PPOS(i)) == z3.Select(spid.arr, i))))

    return (which, f)


def sub_result(S, fr):
    """shape of to_sub_topology's result at call sites: fresh arrays of one length m with the ghost maps kappa / rho"""
    m = S.int("m")
    S.assume(m.z >= 0)
    new_id, new_pid, mapping = SArr.fresh("int", m.z, name="new_id"), SArr.fresh("int", m.z, name="new_pid"), SArr.fresh("int", m.z, name="mapping")
    tag = fresh_name("sub")
    mapping.kappa = z3.Function("kappa_" + tag, z3.IntSort(), z3.IntSort())
    mapping.rho = z3.Function("rho_" + tag, z3.IntSort(), z3.IntSort())
    return ((new_id, new_pid), mapping)


def register(R: Registry):
    def setup(S, size=None):
        if size is None:
            n = S.int("n")
            S.assume(n.z >= 0)
        else:
            n = int(size)  # a table of exactly `size` entries
        sid, spid = S.arr("int", n=n, name="sub_id"), S.arr("int", n=n, name="sub_pid")
        sid.frozen = spid.frozen = True
        return dict(sub=(sid, spid))

    def post(which):
        def f(E, v, o):
            (new_id, new_pid), mapping = v["result"]
            sid, spid = (as_sarr(a) for a in o["sub"])
            kappa, rho = mapping.kappa, mapping.rho
            n, m = sid.nz(), mapping.nz()
            k, i = z3.Ints(fresh_name("k") + " " + fresh_name("i"))
            if which == "mapping":
                return z3.And(
                    m <= n,
                    z3.ForAll([k], z3.Implies(z3.And(k >= 0, k < m), z3.And(kappa(k) >= 0, kappa(k) < n, z3.Select(sid.arr, kappa(k)) != REMOVAL, mapping.get(k).z == z3.Select(sid.arr, kappa(k))))),
                    z3.ForAll([k, i], z3.Implies(z3.And(0 <= k, k < i, i < m), kappa(k) < kappa(i))),
                    z3.ForAll([i], z3.Implies(z3.And(i >= 0, i < n, z3.Select(sid.arr, i) != REMOVAL), z3.And(rho(i) >= 0, rho(i) < m, kappa(rho(i)) == i))),
                )
            if which == "ids":
                return z3.And(new_id.nz() == m, z3.ForAll([k], z3.Implies(z3.And(k >= 0, k < m), new_id.get(k).z == k)))
            if which == "pids":
                p = z3.Select(spid.arr, kappa(k))
                q = new_pid.get(k).z
                return z3.And(new_pid.nz() == m, z3.ForAll([k], z3.Implies(z3.And(k >= 0, k < m), z3.And(
                    z3.Implies(p == -1, q == -1),
                    z3.Implies(p != -1, z3.And(q >= 0, q < m, mapping.get(q).z == p))))))
            if which == "fresh":
                return all(a.uid not in E.entry_uids for a in (new_id, new_pid, mapping))

        return f

    ST = dict(requires=[sub_pre("same-length"), sub_pre("kept-ids-pairwise-distinct"), sub_pre("kept-parents-are-kept-entries")],
              returns=sub_result,
              ensures=[("mapping-is-the-kept-ids-in-order", post("mapping")), ("new-ids-are-positions", post("ids")),
                       ("parents-remapped-roots-kept", post("pids")), ("outputs-are-fresh", post("fresh"))])
    R.add(f"{SUB}:to_sub_topology", prop="C06", setup=setup, **ST)
    # the same contract on tables of a fixed small number of entries (ids, parents and removal marks symbolic)
    R.add(f"{SUB}:to_sub_topology", prop="C06", variants={fixed_name(m): (lambda S, m=m: setup(S, size=m)) for m in FIXED_SIZES}, **ST, notes=FIXED_NOTE)


# =========================================================================== propagate_removal (traverse client rule)
def register_propagate(R):
    from contracts.C04 import depth
    from pyvc.traverse_rule import Rule

    I, B = z3.IntSort(), z3.BoolSort()
    # ghost Rm: node is marked, or lies below a marked node -- a fresh symbol per call, defined by define_rm and kept in
    # E.spec_extra["Rm"] (so the clauses of a caller can speak about the closure of ITS call)

    def setup(S, size=None):
        if size is None:
            n = S.int("n")
            S.assume(n.z >= 1)
        else:
            n = int(size)  # a table of exactly `size` rows
        new_ids, pids = S.arr("int", n=n, name="new_ids"), S.arr("int", n=n, name="pids")
        pids.frozen = True  # only the id array may be written (the function documents that it marks in place)
        return dict(topology=(new_ids, pids))

    def define_rm(E, old):
        """ghost definition of the removal closure over the ENTRY marks (least solution on a well-formed table)"""
        ids0, pids0 = old["topology"]
        i = z3.Int(fresh_name("i"))
        rm = z3.Function(fresh_name("Rm"), I, B)
        E.spec_extra["Rm"] = rm
        E.assume(z3.ForAll([i], z3.Implies(z3.And(i >= 0, i < ids0.nz()), rm(i) == z3.Or(z3.Select(ids0.arr, i) == REMOVAL, z3.And(z3.Select(pids0.arr, i) >= 0, rm(z3.Select(pids0.arr, i)))))))

    def J(E, v, ENT, LEFT, ctx):
        Rm = E.spec_extra["Rm"]
        cur, old = v["new_ids"].arr, E.top_old["topology"][0].arr
        x = z3.Int(fresh_name("x"))
        return z3.ForAll([x], z3.Implies(ctx.R(x), z3.If(z3.Select(ENT, x), z3.And((z3.Select(cur, x) == REMOVAL) == Rm(x), z3.Implies(z3.Not(Rm(x)), z3.Select(cur, x) == z3.Select(old, x))),
                                                         z3.Select(cur, x) == z3.Select(old, x))))

    def Qe(E, v, x, val, ctx):
        return to_z3(E.truth(val), "bool") == E.spec_extra["Rm"](x)

    def post(which):
        def f(E, v, o):
            Rm = E.spec_extra["Rm"]
            new_ids2, pids2 = v["result"]
            ids0, pids0 = o["topology"]
            n = ids0.nz()
            x = z3.Int(fresh_name("x"))
            R_ = lambda t: z3.And(t >= 0, t < n)
            if which == "marked-exactly-the-removal-closure":
                return z3.And(new_ids2.nz() == n, z3.ForAll([x], z3.Implies(R_(x), (new_ids2.get(x).z == REMOVAL) == Rm(x))))
            if which == "survivors-keep-their-id":
                return z3.ForAll([x], z3.Implies(z3.And(R_(x), z3.Not(Rm(x))), new_ids2.get(x).z == ids0.get(x).z))
            if which == "parents-returned-as-a-fresh-equal-copy":
                return z3.And(pids2.uid not in E.entry_uids, pids2.nz() == n, z3.ForAll([x], z3.Implies(R_(x), pids2.get(x).z == pids0.get(x).z)))
            if which == "marks-in-place":
                return new_ids2 is o["topology"][0] or new_ids2 is v["topology"][0] or new_ids2.uid == o["topology"][0].uid

        return f

    def wf_pre(which):
        def f(E, v, o):
            ids0, pids0 = v["topology"]
            n, P = ids0.nz(), pids0.arr
            i = z3.Int(fresh_name("i"))
            if which == "same-length":
                return z3.And(pids0.nz() == n, n >= 1)
            if which == "node-0-is-the-root-and-parents-exist":
                return z3.And(z3.Select(P, 0) == -1, z3.ForAll([i], z3.Implies(z3.And(i > 0, i < n), z3.And(z3.Select(P, i) >= 0, z3.Select(P, i) < n))))
            return z3.And(depth(0) == 0, z3.ForAll([i], z3.Implies(z3.And(i > 0, i < n), z3.And(depth(i) == depth(z3.Select(P, i)) + 1, depth(i) > 0))))

        return (which, f)

    def pr_result(S, fr):
        ids0, pids0 = fr.vars["topology"]
        return (ids0, SArr.fresh("int", pids0.nz(), name="pids_copy"))

    PR = dict(requires=[wf_pre("same-length"), wf_pre("node-0-is-the-root-and-parents-exist"), wf_pre("every-node-reaches-the-root")],
              ghost_entry=define_rm, returns=pr_result, modifies=["topology[0]"],
              ensures=[(nm, post(nm)) for nm in ("marked-exactly-the-removal-closure", "survivors-keep-their-id", "parents-returned-as-a-fresh-equal-copy", "marks-in-place")],
              options=dict(traverse_rule=Rule(J, Qe=Qe, modifies=["new_ids"], enter_kind="bool")))
    R.add(f"{SUB}:propagate_removal", prop="C06", setup=setup, **PR,
          notes="the id array is marked IN PLACE (documented); callers must hand in a private copy — that is an obligation of to_subtree")
    # the same contract on tables of a fixed small number of rows (marks and parents symbolic: ANY legal numbering)
    R.add(f"{SUB}:propagate_removal", prop="C06", variants={fixed_name(m): (lambda S, m=m: setup(S, size=m)) for m in FIXED_SIZES}, **PR, notes=FIXED_NOTE)


_reg6 = register


def register(R):  # noqa: F811
    _reg6(R)
    register_propagate(R)


# =========================================================================== to_subtree_impl / to_subtree / get_subtree_impl / get_subtree
IMPL = "swcgeom/core/tree_utils_impl.py"


class GhostList:
    """marker class of a ghost-state object"""

TU = "swcgeom/core/tree_utils.py"
_SUBTREE_KIT = {}  # helpers of register_subtree shared with the later sections
EXTRA6 = "w"


def register_subtree(R):
    from contracts.C04 import depth
    from contracts.common import COLS, assume_wf, col, nof, sym_tree
    from pyvc.traverse_rule import Rule
    from pyvc.values import Obj, PDict, PList, fresh

    I = z3.IntSort()
    sel = z3.Select

    def wf_tree(S, name="t", size=None):
        """a well-formed input tree (ids = positions, node 0 the root, parents exist, depth witness) with an extra column; frozen"""
        t = raw_tree(S, name, size=size)
        n = nof(t)
        i = z3.Int(fresh_name("i"))
        idc, pid = col(t, "id").arr, col(t, "pid").arr
        S.assume(z3.ForAll([i], z3.Implies(z3.And(i >= 0, i < n), sel(idc, i) == i)))
        S.assume(sel(pid, 0) == -1)
        S.assume(z3.ForAll([i], z3.Implies(z3.And(i > 0, i < n), z3.And(sel(pid, i) >= 0, sel(pid, i) < n))))
        S.assume(depth(0) == 0)
        S.assume(z3.ForAll([i], z3.Implies(z3.And(i > 0, i < n), z3.And(depth(i) == depth(sel(pid, i)) + 1, depth(i) > 0))))
        return t

    def all_cols(t):
        return dict(t.fields["ndata"].items)

    def list_view(L):
        """(z3 array, length) of a sequence of ints: a Python list (symbolic or concrete) or a 1-D numpy array"""
        if isinstance(L, Iter):  # a one-shot iterator: what it still yields (nothing once it has been run through)
            if L.consumed:
                return z3.K(I, z3.IntVal(0)), z3.IntVal(0)
            return list_view(L.seq)
        if isinstance(L, SArr):
            return L.arr, L.nz()
        if L.items is None:
            return L.cols[0], zint(L.n)
        a = z3.K(I, z3.IntVal(0))
        for k, x in enumerate(L.items):
            a = z3.Store(a, k, to_z3(x, "int"))
        return a, z3.IntVal(len(L.items))

    # ------------------------------------------------------------------ to_subtree_impl
    def impl_setup(kind, size=None):
        def f(S):
            t = wf_tree(S, size=size)
            n = nof(t)
            if size is None:
                sid, spid = S.arr("int", n=S.int("sn"), name="sub_id"), S.arr("int", name="sub_pid")
            else:  # the marked table has one entry per row of the tree (what to_subtree hands over), each kept or marked
                sid, spid = S.arr("int", n=int(size), name="sub_id"), S.arr("int", n=int(size), name="sub_pid")
            out = None if kind == "none" else (PList([7, 8]) if kind == "list" else S.pdict("int", name="out_mapping"))
            return dict(swc_like=t, sub=(sid, spid), out_mapping=out)

        return f

    def impl_pre_inrange(E, v, o):
        sid = as_sarr(v["sub"][0])
        i = z3.Int(fresh_name("i"))
        return z3.ForAll([i], z3.Implies(z3.And(i >= 0, i < sid.nz(), sid.get(i).z != REMOVAL), z3.And(sid.get(i).z >= 0, sid.get(i).z < nof(v["swc_like"]))))

    def topo_call(E):
        calls = [kw for nm, kw in E.call_log if nm == "to_sub_topology"]
        return calls[0] if len(calls) == 1 else None

    def mapping_reported(om, mapping):
        """the caller's out_mapping (None / list / dict) holds exactly new id -> old id"""
        m = mapping.nz()
        k = z3.Int(fresh_name("k"))
        if om is None:
            return True
        if isinstance(om, PDict):
            if om.items is not None:
                return False
            return z3.ForAll([k], z3.And(sel(om.dom, k) == z3.And(k >= 0, k < m), z3.Implies(z3.And(k >= 0, k < m), sel(om.val, k) == mapping.get(k).z)))
        if not isinstance(om, PList) or om.items is not None:
            return False
        return z3.And(zint(om.n) == m, z3.ForAll([k], z3.Implies(z3.And(k >= 0, k < m), sel(om.cols[0], k) == mapping.get(k).z)))

    def dict_fill_inv(E, v, o):
        """loop of the dict form: keys 0..k-1 filled with the old ids, nothing else in the dict"""
        om, mapping = v["out_mapping"], v["mapping"]
        if not isinstance(om, PDict) or om.items is not None:
            return False
        kk = to_z3(v["_kfill"], "int")
        j = z3.Int(fresh_name("j"))
        return z3.ForAll([j], z3.And(sel(om.dom, j) == z3.And(j >= 0, j < kk), z3.Implies(z3.And(j >= 0, j < kk), sel(om.val, j) == mapping.get(j).z)))

    # the loop variable `new_id` shadows the array of that name (already stored in ndata): at the loop head it is an int
    def is_dict_fill_loop(node):
        """`for <new>, <old> in enumerate(mapping)` -- the loop that fills a caller's dict (wherever it stands among the function's loops)"""
        import ast

        it = getattr(node, "iter", None)
        return (isinstance(it, ast.Call) and isinstance(it.func, ast.Name) and it.func.id == "enumerate" and len(it.args) == 1
                and isinstance(it.args[0], ast.Name) and it.args[0].id == "mapping")

    DICT_LOOP = {"dict-fill": dict(applies=is_dict_fill_loop, index="_kfill", invariant=[("keys-so-far-map-to-the-old-ids", dict_fill_inv)], rebind={"new_id": lambda eng, cur: fresh("int", "new_id")})}

    def impl_post(which):
        def f(E, v, o):
            c = topo_call(E)
            if c is None:
                return False
            (new_id, new_pid), mapping = c["__result__"]
            n_nodes, ndata, source, names = v["result"]
            t = o["swc_like"]
            m = mapping.nz()
            k = z3.Int(fresh_name("k"))
            if which == "node-count-is-the-number-of-kept-entries":
                return to_z3(n_nodes, "int") == m
            if which == "every-attribute-column-is-gathered-through-the-mapping-into-fresh-storage":
                if not isinstance(ndata, PDict) or set(ndata.items) != set(all_cols(t)):
                    return False
                out = []
                for cname, src in all_cols(t).items():
                    if cname in ("id", "pid"):
                        continue
                    a = ndata.items[cname]
                    if a.uid in E.entry_uids:
                        return False
                    out.append(z3.And(a.nz() == m, z3.ForAll([k], z3.Implies(z3.And(k >= 0, k < m), a.get(k).z == src.get(mapping.get(k).z).z))))
                return z3.And(*out)
            if which == "ids-and-parents-are-the-sub-topology":
                return ndata.items["id"] is new_id and ndata.items["pid"] is new_pid
            if which == "source-and-names-kept":
                return source is t.fields["source"] or source == t.fields["source"]
            if which == "mapping-reported":
                return mapping_reported(v["out_mapping"], mapping)
            raise KeyError(which)

        return f

    IMPL_POSTS = ["node-count-is-the-number-of-kept-entries", "every-attribute-column-is-gathered-through-the-mapping-into-fresh-storage",
                  "ids-and-parents-are-the-sub-topology", "source-and-names-kept", "mapping-reported"]

    def impl_result(S, fr):
        t = fr.vars["swc_like"]
        m = S.int("m")
        nd = PDict({c: SArr.fresh(a.kind, m.z, name="sub_" + c) for c, a in all_cols(t).items()})
        return (m, nd, t.fields["source"], t.fields["names"])

    TI = dict(requires=[sub_pre("same-length"), sub_pre("kept-ids-pairwise-distinct"), sub_pre("kept-parents-are-kept-entries"), ("kept-ids-are-nodes-of-the-tree", impl_pre_inrange)],
              ensures=[(nm, impl_post(nm)) for nm in IMPL_POSTS],
              loops=DICT_LOOP)
    R.add(f"{IMPL}:to_subtree_impl", prop="C06",
          variants={"no-mapping-requested": impl_setup("none"), "mapping-into-a-list": impl_setup("list"), "mapping-into-a-dict": impl_setup("dict")},
          **TI, notes="out_mapping: None, a list or a dict (any previous content is discarded)")
    # the same contract on trees of a fixed small number of rows (the marked table has one entry per row, as to_subtree hands it over)
    R.add(f"{IMPL}:to_subtree_impl", prop="C06",
          variants={f"{fixed_name(m)}, {nm}": impl_setup(kind, size=m) for m in FIXED_SIZES for kind, nm in (("none", "no-mapping-requested"), ("dict", "mapping-into-a-dict"))},
          **TI, notes=FIXED_NOTE)

    # ------------------------------------------------------------------ to_subtree
    def raw_tree(S, name="t", size=None):
        """the input tree: frozen symbolic columns (with one extra attribute column) of one symbolic length, or -- `size` given --
        of exactly `size` rows (a CONCRETE length: loops over the rows that have no sidecar invariant then simply unroll)"""
        if size is None:
            return sym_tree(S, name, frozen=True, extra_cols=(EXTRA6,))
        from swcgeom.core.swc_utils import get_names, get_types
        from swcgeom.core.tree import Tree

        cols = {}
        for c, k in list(COLS.items()) + [(EXTRA6, "real")]:
            cols[c] = S.arr(k, n=int(size), name=f"{name}_{c}")
            cols[c].frozen = True
        nd = PDict(cols)
        nd.frozen = True
        t = S.obj(Tree, ndata=nd, names=get_names(), types=get_types(), source="", comments=PList([]))
        t.frozen = True
        return t

    def wf_clause(which, tname="swc_like"):
        """well-formed input tree (a PRECONDITION: proved at every modular call site); tname: parameter name or getter(vars)"""
        def f(E, v, o):
            t = tname(v) if callable(tname) else v[tname]
            n = nof(t)
            i = z3.Int(fresh_name("i"))
            idc, pid = col(t, "id").arr, col(t, "pid").arr
            if which == "ids-are-positions":
                return z3.ForAll([i], z3.Implies(z3.And(i >= 0, i < n), sel(idc, i) == i))
            if which == "node-0-is-the-root-and-parents-exist":
                return z3.And(sel(pid, 0) == -1, z3.ForAll([i], z3.Implies(z3.And(i > 0, i < n), z3.And(sel(pid, i) >= 0, sel(pid, i) < n))))
            if which == "every-node-reaches-the-root":
                return z3.And(depth(0) == 0, z3.ForAll([i], z3.Implies(z3.And(i > 0, i < n), z3.And(depth(i) == depth(sel(pid, i)) + 1, depth(i) > 0))))
            raise KeyError(which)

        return (which, f)

    WF = ["ids-are-positions", "node-0-is-the-root-and-parents-exist", "every-node-reaches-the-root"]

    def ts_setup(kind, out_kind="none", size=None):
        def f(S):
            t = raw_tree(S, size=size)
            if kind == "list":
                rem = S.plist("int", name="removals")
            elif kind == "iter":
                # `removals: Iterable[int]` handed over as a ONE-SHOT iterator (generator expression, iter(...), map / filter object)
                # over an int sequence of any length: whoever runs through it first leaves it empty, a second pass yields nothing
                seq = S.plist("int", name="removals")
                seq.frozen = True
                rem = Iter(seq)
            else:
                rem = SymSet(z3.Const(fresh_name("removals_mem"), z3.ArraySort(I, z3.BoolSort())), "removals")
            rem.frozen = True  # the caller's collection of removals is an input: a store into it is a failed frame obligation
            i = z3.Int(fresh_name("i"))
            # ghost definition: a kept entry's parent entry is the parent node (ids are positions)
            S.assume(z3.ForAll([i], PPOS(i) == sel(col(t, "pid").arr, i)))
            out = None if out_kind == "none" else (PList([7, 8]) if out_kind == "list" else S.pdict("int", name="out_mapping"))  # previous content is discarded
            return dict(swc_like=t, removals=rem, out_mapping=out)

        return f

    def rem_member(rem):
        """x -> `x is requested for removal` (a list / array of ids, or a set of ids)"""
        if isinstance(rem, SymSet):
            return lambda x: rem.has(x)
        A, ln = list_view(rem)
        j = z3.Int(fresh_name("j"))
        return lambda x: z3.Exists([j], z3.And(j >= 0, j < ln, sel(A, j) == x))

    def ts_pre_removals(E, v, o):
        rem, n = v["removals"], nof(v["swc_like"])
        j = z3.Int(fresh_name("j"))
        if isinstance(rem, SymSet):
            return z3.ForAll([j], z3.Implies(rem.has(j), z3.And(j >= 0, j < n)))
        A, ln = list_view(rem)
        return z3.ForAll([j], z3.Implies(z3.And(j >= 0, j < ln), z3.And(sel(A, j) >= 0, sel(A, j) < n)))

    MARKS = marked_array_name(f"{TU}:to_subtree")  # to_subtree's local array of removal marks (whatever it is called)

    def is_marking_loop(node):
        """`for <i> in removals` -- the loop that marks the requested nodes (wherever it stands among the function's loops)"""
        import ast

        it = getattr(node, "iter", None)
        return isinstance(it, ast.Name) and it.id == "removals"

    def ts_inv(which):
        def f(E, v, o, entry):
            t = v["swc_like"]
            n = nof(t)
            rem = v["removals"]
            if isinstance(rem, Iter):  # the loop walks what the iterator still held when the loop was reached
                rem = entry["removals"]
            k = to_z3(v["_kmark"], "int")
            x, j = z3.Int(fresh_name("x")), z3.Int(fresh_name("j"))
            a = v.get(MARKS)
            if not isinstance(a, SArr):
                return False
            if isinstance(rem, SymSet):  # the loop walks a ghost enumeration of the members (each once): pos = position in it
                ks, m, pos, mem0 = E.ghost[("setelems-last", rem.uid)]
                listed = z3.And(sel(mem0, x), pos(x) < k)
            else:
                A, ln = list_view(rem)
                listed = z3.Exists([j], z3.And(j >= 0, j < k, sel(A, j) == x))
            if which == "marks-so-far":
                # (that the mark array is a private copy is NOT stated here: allocation identity is concrete engine state, and as an
                # invariant conjunct it made the path vacuous at the loop head when the copy was dropped -- before the store into the
                # input's id column could fail its frame obligation.  The store / the in-place callee now fail `safety/frame-write`.)
                return z3.And(a.nz() == n, z3.ForAll([x], z3.Implies(z3.And(x >= 0, x < n), a.get(x).z == z3.If(listed, z3.IntVal(REMOVAL), x))))

        return f

    def ts_result(S, fr):
        """shape of to_subtree's result at call sites: a new Tree of m nodes on fresh columns, with the ghost outputs of the
        contract (new-to-old mapping, its inverse rho, the removal closure Rm) attached for the caller's clauses"""
        from swcgeom.core.swc_utils import get_types
        from swcgeom.core.tree import Tree

        t = fr.vars["swc_like"]
        m = S.int("m")
        S.assume(m.z >= 0)
        nd = PDict({c: SArr.fresh(a.kind, m.z, name="sub_" + c) for c, a in all_cols(t).items()})
        res = Obj(Tree, dict(types=get_types(), source=t.fields["source"], comments=PList([]), names=t.fields["names"], ndata=nd))
        tag = fresh_name("ts")
        res.ghost6 = dict(mapping=SArr.fresh("int", m.z, name="mapping"), kappa=z3.Function("kappa_" + tag, I, I), rho=z3.Function("rho_" + tag, I, I), Rm=z3.Function("Rm_" + tag, I, z3.BoolSort()))
        return res

    def sub_ghost(E, res):
        """(mapping, kappa, rho, Rm) of a tree produced by to_subtree: read off the carrier's own calls inside to_subtree's proof,
        off the ghost outputs of the modular result at a call site"""
        g = getattr(res, "ghost6", None)
        if g is not None:
            return g["mapping"], g["kappa"], g["rho"], g["Rm"]
        c = topo_call(E)
        if c is None or "Rm" not in E.spec_extra:
            return None
        (new_id, new_pid), mapping = c["__result__"]
        return mapping, mapping.kappa, mapping.rho, E.spec_extra["Rm"]

    def subtree_clause(E, which, res, t, gh, seed=None):
        """the clauses of `res = the tree that keeps exactly the nodes of t outside Rm` (shared by to_subtree and its clients)"""
        if not isinstance(res, Obj) or gh is None:
            return False
        mapping, kappa, rho, Rm = gh
        n, m = nof(t), mapping.nz()
        k, x, j = z3.Int(fresh_name("k")), z3.Int(fresh_name("x")), z3.Int(fresh_name("j"))
        pid0 = col(t, "pid").arr
        rc = all_cols(res)
        if which == "removal-closure-is-removed-or-below-a-removed-node":
            # Rm is THE closure of the seed set (the requested removals)
            return z3.ForAll([x], z3.Implies(z3.And(x >= 0, x < n), Rm(x) == z3.Or(seed(x), z3.And(sel(pid0, x) >= 0, Rm(sel(pid0, x))))))
        if which == "survivors-are-exactly-the-nodes-outside-the-closure-in-order":
            return z3.And(m <= n, z3.ForAll([k], z3.Implies(z3.And(k >= 0, k < m), z3.And(mapping.get(k).z >= 0, mapping.get(k).z < n, z3.Not(Rm(mapping.get(k).z)), mapping.get(k).z == kappa(k)))),
                          z3.ForAll([k, j], z3.Implies(z3.And(0 <= k, k < j, j < m), mapping.get(k).z < mapping.get(j).z)),
                          z3.ForAll([x], z3.Implies(z3.And(x >= 0, x < n, z3.Not(Rm(x))), z3.And(rho(x) >= 0, rho(x) < m, mapping.get(rho(x)).z == x))))
        if which == "survivors-keep-every-attribute":
            if set(rc) != set(all_cols(t)):
                return False
            out = []
            for cname, src in all_cols(t).items():
                if cname in ("id", "pid"):
                    continue
                a = rc[cname]
                out.append(z3.And(a.nz() == m, z3.ForAll([k], z3.Implies(z3.And(k >= 0, k < m), a.get(k).z == src.get(mapping.get(k).z).z))))
            return z3.And(*out)
        if which == "ids-are-positions-and-parent-relation-kept":
            q = rc["pid"].get(k).z
            p = sel(pid0, mapping.get(k).z)
            return z3.And(rc["id"].nz() == m, rc["pid"].nz() == m,
                          z3.ForAll([k], z3.Implies(z3.And(k >= 0, k < m), z3.And(rc["id"].get(k).z == k, z3.If(p == -1, q == -1, z3.And(q >= 0, q < m, mapping.get(q).z == p))))))
        if which == "result-shares-no-storage-with-the-input":
            return all(a.uid not in E.entry_uids for a in rc.values()) and res.uid not in E.entry_uids and res.fields["ndata"].uid not in E.entry_uids
        raise KeyError(which)

    def ts_post(which):
        def f(E, v, o):
            res, t = v["result"], o["swc_like"]
            if which == "mapping-reported":
                gh = sub_ghost(E, res)
                return False if gh is None else mapping_reported(v["out_mapping"], gh[0])
            return subtree_clause(E, which, res, t, sub_ghost(E, res), seed=rem_member(o["removals"]))

        return f

    ONE_SHOT = "removals in a one-shot iterator"
    TS_POSTS = ["removal-closure-is-removed-or-below-a-removed-node", "survivors-are-exactly-the-nodes-outside-the-closure-in-order", "survivors-keep-every-attribute",
                "ids-are-positions-and-parent-relation-kept", "result-shares-no-storage-with-the-input", "mapping-reported"]
    TS = dict(requires=[wf_clause(w) for w in WF] + [("removals-are-node-ids", ts_pre_removals)],
              returns=ts_result, modifies=["out_mapping"], inlined_loops={f"{IMPL}:to_subtree_impl": DICT_LOOP},
              ensures=[(nm, ts_post(nm)) for nm in TS_POSTS],
              loops={"marking": dict(applies=is_marking_loop, index="_kmark", invariant=[("marks-so-far", ts_inv("marks-so-far"))])})
    R.add(f"{TU}:to_subtree", prop="C06",
          variants={"removals in a list": ts_setup("list"), "removals in a set": ts_setup("set"), ONE_SHOT: ts_setup("iter"),
                    "removals in a list, mapping into a list": ts_setup("list", "list"), "removals in a list, mapping into a dict": ts_setup("list", "dict")},
          **TS,
          notes="the input tree is frozen (any store into it is a failed frame obligation); removals may repeat and come in any order; "
                "used modularly by cut_tree / CutByType / CutShortTipBranch (ghost outputs: mapping, its inverse, the removal closure)")
    # the same contract on trees of a fixed small number of rows (removals still a list / set of ANY length)
    R.add(f"{TU}:to_subtree", prop="C06",
          variants={f"{fixed_name(m)}, {nm}": ts_setup(kind, size=m) for m in FIXED_SIZES
                    for kind, nm in (("list", "removals in a list"), ("set", "removals in a set"), ("iter", ONE_SHOT))},
          **TS, notes=FIXED_NOTE)

    # ------------------------------------------------------------------ get_subtree_impl (traverse client rule)
    def gs_setup(kind, size=None):
        def f(S):
            t = raw_tree(S, size=size)
            r = S.int("start")
            G = Obj(GhostList, dict(at=SArr(z3.K(I, z3.IntVal(-1)), nof(t), "int", name="at")))  # ghost: at[x] = position of node x in `ids`
            out = None if kind == "none" else (PList([7, 8]) if kind == "list" else S.pdict("int", name="out_mapping"))
            return dict(swc_like=t, n=r, out_mapping=out, G6=G)

        return f

    def gs_start_in_range(E, v, o):
        r = to_z3(v["n"], "int")
        return z3.And(r >= 0, r < nof(v["swc_like"]))

    def gs_J(E, v, ENT, LEFT, ctx):
        """`ids` lists exactly the entered nodes, each once (ghost inverse at), the start node first and every other node after its parent"""
        A, ln = list_view(v["ids"])
        at = v["G6"].fields["at"].arr
        a, x = z3.Int(fresh_name("a")), z3.Int(fresh_name("x"))
        inl = lambda t: z3.And(t >= 0, t < ln)
        return z3.And(
            ln >= 0,
            z3.ForAll([a], z3.Implies(inl(a), z3.And(sel(ENT, sel(A, a)), sel(at, sel(A, a)) == a))),
            z3.ForAll([x], z3.Implies(sel(ENT, x), z3.And(inl(sel(at, x)), sel(A, sel(at, x)) == x))),
            z3.Implies(ln > 0, sel(A, 0) == ctx.root),
            z3.ForAll([a], z3.Implies(z3.And(a > 0, a < ln), z3.And(sel(ENT, sel(ctx.P, sel(A, a))), sel(at, sel(ctx.P, sel(A, a))) < a))))

    def gs_ghost_enter(E, v, x, ctx):
        A, ln = list_view(v["ids"])
        G = v["G6"]
        G.fields["at"].arr = z3.Store(G.fields["at"].arr, x, ln - 1)

    def gs_define_ppos(E, v, o):
        """ghost definition: the parent entry of list entry a is the list position of a's parent node"""
        A, ln = list_view(v["ids"])
        t = v["swc_like"]
        P = col(t, "pid").arr
        at = v["G6"].fields["at"].arr
        a = z3.Int(fresh_name("a"))
        E.assume(z3.ForAll([a], PPOS(a) == sel(at, sel(P, sel(A, a)))))
        return True

    def gs_result(S, fr):
        """shape of get_subtree_impl's result at call sites: (m, fresh columns of length m, source, names) with the ghost outputs
        (new-to-old mapping, the descendant predicate Sub) attached to the column dict"""
        t = fr.vars["swc_like"]
        m = S.int("m")
        S.assume(m.z >= 0)
        nd = PDict({c: SArr.fresh(a.kind, m.z, name="sub_" + c) for c, a in all_cols(t).items()})
        nd.ghost6 = dict(mapping=SArr.fresh("int", m.z, name="mapping"), Sub=z3.Function(fresh_name("Sub"), I, z3.BoolSort()))
        return (m, nd, t.fields["source"], t.fields["names"])

    def descendants_of(E, t, start):
        """ghost definition, for a carrier that does NOT go through the traversal (whose rule introduces this predicate itself): Sub =
        the start node and every node whose parent is in Sub, nothing else -- the descendant set, which exists and is unique on a
        well-formed table (the precondition)"""
        key = ("Sub6", t.uid, z3.simplify(to_z3(start, "int")).sexpr())
        if key not in E.ghost:
            Sub = z3.Function(fresh_name("Sub"), I, z3.BoolSort())
            P, n, root = col(t, "pid").arr, nof(t), to_z3(start, "int")
            x = z3.Int(fresh_name("x"))
            Rg = lambda q: z3.And(q >= 0, q < n)
            E.assume(Sub(root))
            E.assume(z3.ForAll([x], z3.Implies(Sub(x), Rg(x))))
            E.assume(z3.ForAll([x], z3.Implies(z3.And(Rg(x), sel(P, x) >= 0, Sub(sel(P, x))), Sub(x))))
            E.assume(z3.ForAll([x], z3.Implies(z3.And(Sub(x), x != root), z3.And(sel(P, x) >= 0, Sub(sel(P, x))))))
            E.assume(z3.Implies(sel(P, root) >= 0, z3.Not(Sub(sel(P, root)))))
            E.assumptions.add("ghost definition: Sub = the start node and its descendants (least set closed under `parent in Sub`; exists uniquely on a well-formed table), "
                              "used where a carrier collects a subtree without the traversal")
            E.ghost[key] = Sub
        return E.ghost[key]

    def gs_ghost(E, ndata, t=None, start=None):
        g = getattr(ndata, "ghost6", None)
        if g is not None:
            return g["mapping"], g["Sub"]
        c = topo_call(E)
        Sub = E.ghost.get("last-traverse-Sub")
        if Sub is None and t is not None:
            Sub = descendants_of(E, t, start)
        if c is None or Sub is None:
            return None
        return c["__result__"][1], Sub

    def gs_clause(E, which, tup, t, start, gh, out_mapping=None):
        """clauses of `tup = constructor arguments of the subtree of t at start` (shared by get_subtree_impl and its wrappers)"""
        if gh is None:
            return False
        mapping, Sub = gh
        n_nodes, ndata, source, names = tup
        n, m, root = nof(t), mapping.nz(), to_z3(start, "int")
        P = col(t, "pid").arr
        k, x, j = z3.Int(fresh_name("k")), z3.Int(fresh_name("x")), z3.Int(fresh_name("j"))
        Rg = lambda q: z3.And(q >= 0, q < n)
        if which == "descendants-are-the-start-node-and-every-node-whose-parent-is-a-descendant":
            return z3.And(Sub(root), z3.ForAll([x], z3.Implies(Sub(x), z3.And(Rg(x), z3.Implies(x != root, z3.And(sel(P, x) >= 0, Sub(sel(P, x))))))),
                          z3.ForAll([x], z3.Implies(z3.And(Rg(x), sel(P, x) >= 0, Sub(sel(P, x))), Sub(x))), z3.Implies(sel(P, root) >= 0, z3.Not(Sub(sel(P, root)))))
        if which == "exactly-the-start-node-and-its-descendants-each-once":
            return z3.And(to_z3(n_nodes, "int") == m,
                          z3.ForAll([k], z3.Implies(z3.And(k >= 0, k < m), Sub(mapping.get(k).z))),
                          z3.ForAll([k, j], z3.Implies(z3.And(k >= 0, k < m, j >= 0, j < m, k != j), mapping.get(k).z != mapping.get(j).z)),
                          z3.ForAll([x], z3.Implies(Sub(x), z3.Exists([k], z3.And(k >= 0, k < m, mapping.get(k).z == x)))))
        if which == "start-node-is-the-new-root-without-parent":
            return z3.And(m > 0, mapping.get(0).z == root, ndata.items["pid"].get(0).z == -1)
        if which == "parents-precede-children-and-the-parent-relation-is-kept":
            q = ndata.items["pid"].get(k).z
            return z3.And(ndata.items["pid"].nz() == m, z3.ForAll([k], z3.Implies(z3.And(k > 0, k < m), z3.And(q >= 0, q < k, mapping.get(q).z == sel(P, mapping.get(k).z)))))
        if which == "survivors-keep-every-attribute-in-fresh-storage":
            if set(ndata.items) != set(all_cols(t)):
                return False
            out = []
            for cname, src in all_cols(t).items():
                a = ndata.items[cname]
                if a.uid in E.entry_uids:
                    return False
                if cname in ("id", "pid"):
                    continue
                out.append(z3.And(a.nz() == m, z3.ForAll([k], z3.Implies(z3.And(k >= 0, k < m), a.get(k).z == src.get(mapping.get(k).z).z))))
            return z3.And(ndata.items["id"].nz() == m, z3.ForAll([k], z3.Implies(z3.And(k >= 0, k < m), ndata.items["id"].get(k).z == k)), *out)
        if which == "mapping-reported":
            if isinstance(out_mapping, PList) and out_mapping.items is not None:
                return False
            return mapping_reported(out_mapping, mapping)
        raise KeyError(which)

    def gs_post(which):
        def f(E, v, o):
            return gs_clause(E, which, v["result"], o["swc_like"], o["n"], gs_ghost(E, v["result"][1], o["swc_like"], o["n"]), v["out_mapping"])

        return f

    GS_POSTS = ["descendants-are-the-start-node-and-every-node-whose-parent-is-a-descendant", "exactly-the-start-node-and-its-descendants-each-once",
                "start-node-is-the-new-root-without-parent", "parents-precede-children-and-the-parent-relation-is-kept",
                "survivors-keep-every-attribute-in-fresh-storage", "mapping-reported"]
    GS = dict(requires=[wf_clause(w) for w in WF] + [("start-node-in-range", gs_start_in_range)],
              returns=gs_result, modifies=["out_mapping"], inlined_loops={f"{IMPL}:to_subtree_impl": DICT_LOOP},
              ensures=[(nm, gs_post(nm)) for nm in GS_POSTS],
              options=dict(traverse_rule=Rule(gs_J, modifies=[("ids", "int"), "G6"], enter_kind="oref", ghost_enter=gs_ghost_enter),
                           asserts_after={"sub_ids": [("parent-entry-choice-function", gs_define_ppos)]}))
    R.add(f"{IMPL}:get_subtree_impl", prop="C06",
          variants={"no-mapping-requested": gs_setup("none"), "mapping-into-a-list": gs_setup("list"), "mapping-into-a-dict": gs_setup("dict")},
          **GS,
          notes="mapping = the pre-order list of the subtree; the input is frozen; used modularly by get_subtree / Tree.Node.subtree "
                "(ghost outputs: mapping, the descendant predicate)")
    # the same contract on trees of a fixed small number of rows (any start node)
    R.add(f"{IMPL}:get_subtree_impl", prop="C06",
          variants={f"{fixed_name(m)}, no-mapping-requested": gs_setup("none", size=m) for m in FIXED_SIZES}, **GS, notes=FIXED_NOTE)

    # ------------------------------------------------------------------ get_subtree / Tree.Node.subtree: thin wrappers over get_subtree_impl
    from contracts.C09 import node_obj

    TREE = "swcgeom/core/tree.py"

    def gw_setup(form, kind, size=None):
        def f(S):
            t = raw_tree(S, size=size)
            out = None if kind == "none" else (S.plist("int", name="out_mapping") if kind == "list" else S.pdict("int", name="out_mapping"))
            if form == "function":
                return dict(swc_like=t, n=S.int("start"), out_mapping=out)
            return dict(self=node_obj(S, t), out_mapping=out)

        return f

    gw_tree = {"function": lambda v: v["swc_like"], "method": lambda v: v["self"].fields["attach"]}
    # the method passes `self.id` (the id column at the handle's index; ids are positions on a well-formed tree)
    gw_start = {"function": lambda v: to_z3(v["n"], "int"), "method": lambda v: to_z3(v["self"].fields["idx"], "int")}

    def gw_pre(form):
        def f(E, v, o):
            r = gw_start[form](v)
            return z3.And(r >= 0, r < nof(gw_tree[form](v)))

        return f

    def gw_post(form, which):
        def f(E, v, o):
            res, t, start = v["result"], gw_tree[form](o), gw_start[form](o)
            calls = [kw for nm, kw in E.call_log if nm == "get_subtree_impl"]
            if len(calls) != 1 or not isinstance(res, Obj):
                return False
            c = calls[0]
            m_impl, nd_impl, src_impl, names_impl = c["__result__"]
            if which == "delegates-to-the-impl-with-this-tree-this-start-node-and-the-callers-mapping-object":
                return z3.And(z3.BoolVal(c["swc_like"] is gw_tree[form](v) and c["out_mapping"] is v["out_mapping"]), to_z3(c["n"], "int") == start)
            rc = all_cols(res)
            if which == "tree-built-from-exactly-the-impls-tuple":
                if set(rc) != set(nd_impl.items) or res.fields["source"] is not src_impl or res.fields["names"] is not names_impl:
                    return False
                k = z3.Int(fresh_name("k"))
                m = to_z3(m_impl, "int")
                return z3.And(*[z3.And(rc[cn].nz() == m, z3.ForAll([k], z3.Implies(z3.And(k >= 0, k < m), rc[cn].get(k).z == nd_impl.items[cn].get(k).z))) for cn in rc])
            tup = (rc["id"].nz(), res.fields["ndata"], res.fields["source"], res.fields["names"])
            if which == "result-shares-no-storage-with-the-input":
                return all(a.uid not in E.entry_uids for a in rc.values()) and res.uid not in E.entry_uids and res.fields["ndata"].uid not in E.entry_uids
            return gs_clause(E, which, tup, t, Sym(start, "int"), gs_ghost(E, nd_impl), v["out_mapping"])

        return f

    GW_POSTS = ["delegates-to-the-impl-with-this-tree-this-start-node-and-the-callers-mapping-object", "tree-built-from-exactly-the-impls-tuple"] + GS_POSTS + ["result-shares-no-storage-with-the-input"]
    for form, key, tn in (("function", f"{TU}:get_subtree", "swc_like"), ("method", f"{TREE}:Tree.Node.subtree", None)):
        getter = (lambda v: v["swc_like"]) if form == "function" else (lambda v: v["self"].fields["attach"])
        GW = dict(requires=[wf_clause(w, getter) for w in WF] + [("start-node-in-range", gw_pre(form))],
                  ensures=[(nm, gw_post(form, nm)) for nm in GW_POSTS])
        R.add(key, prop="C06",
              variants={"no-mapping-requested": gw_setup(form, "none"), "mapping-into-a-list": gw_setup(form, "list"), "mapping-into-a-dict": gw_setup(form, "dict")},
              **GW, notes="thin wrapper: get_subtree_impl through its proved contract, then the Tree constructor (interpreted from source)")
        # the same contract on trees of a fixed small number of rows
        R.add(key, prop="C06", variants={f"{fixed_name(m)}, no-mapping-requested": gw_setup(form, "none", size=m) for m in FIXED_SIZES}, **GW, notes=FIXED_NOTE)

    from pyvc.engine import Unsupported

    _SUBTREE_KIT.update(nof=nof, col=col, sel=sel, list_view=list_view, raw_tree=raw_tree, wf_clause=wf_clause, WF=WF, sub_ghost=sub_ghost,
                        subtree_clause=subtree_clause, rem_member=rem_member, gs_clause=gs_clause, gs_ghost=gs_ghost, GS_POSTS=GS_POSTS, all_cols=all_cols, wf_tree=wf_tree, topo_call=topo_call, Unsupported=Unsupported)


# =========================================================================== cut_tree (enter form / leave form / neither)
def register_cut_tree(R):
    from contracts.C04 import depth
    from pyvc.traverse_rule import Rule
    from pyvc.values import Obj, fresh

    K = _SUBTREE_KIT
    nof, col, sel, list_view = K["nof"], K["col"], K["sel"], K["list_view"]
    I, B = z3.IntSort(), z3.BoolSort()
    REM = local_collection_name(f"{TU}:cut_tree", "list")  # cut_tree's local list of removals (whatever it is called)
    # the user's enter callback is an ARBITRARY function of (node, incoming value) -> (value, removal flag); values are opaque
    # references (0 = None)
    UE_VAL = z3.Function("user_enter_value", I, I, I)
    UE_FLAG = z3.Function("user_enter_removal", I, I, B)

    def handle_index(E, node, t, who):
        ok = isinstance(node, Obj) and node.fields.get("attach") is t
        E.prove(f"cut_tree/call:{who}/pre/callback-receives-a-handle-on-the-input-tree", ok, "precondition")
        return to_z3(node.fields["idx"], "int")

    def setup(mode, size=None):
        def f(S):
            t = K["raw_tree"](S, size=size)
            n = nof(t)
            G = Obj(GhostList, dict(at=SArr(z3.K(I, z3.IntVal(-1)), n, "int", name="at"),                       # position of a node in `removals`
                                    flag=SArr(z3.K(I, z3.BoolVal(False)), n, "bool", name="flag"),               # leave form: flag the callback returned at x
                                    val=SArr(z3.K(I, z3.IntVal(0)), n, "oref", name="val"),                      # leave form: value it returned at x
                                    seen=SArr(z3.K(I, z3.K(I, z3.IntVal(0))), n, "int", name="seen"),            # leave form: the child values it was handed at x
                                    seenlen=SArr(z3.K(I, z3.IntVal(-1)), n, "int", name="seenlen")))

            def user_enter(E, args, kwargs):
                if len(args) != 2 or kwargs:
                    raise K["Unsupported"]("enter callback called with an unexpected signature")
                x = handle_index(E, args[0], t, "enter")
                inc = to_z3(args[1], "oref")
                return (Sym(UE_VAL(x, inc), "oref"), Sym(UE_FLAG(x, inc), "bool"))

            def user_leave(E, args, kwargs):
                if len(args) != 2 or kwargs:
                    raise K["Unsupported"]("leave callback called with an unexpected signature")
                x = handle_index(E, args[0], t, "leave")
                A, ln = list_view(args[1])
                rv, rf = fresh("oref", "leave_value"), fresh("bool", "leave_removal")
                g = G.fields
                g["flag"].arr, g["val"].arr = z3.Store(g["flag"].arr, x, rf.z), z3.Store(g["val"].arr, x, rv.z)
                g["seen"].arr, g["seenlen"].arr = z3.Store(g["seen"].arr, x, A), z3.Store(g["seenlen"].arr, x, ln)
                return (rv, rf)

            return dict(tree=t, enter=S.callback("enter", user_enter) if mode == "enter" else None,
                        leave=S.callback("leave", user_leave) if mode == "leave" else None, G6=G, __ghost__=dict(mode=mode))

        return f

    def define_designated(E, old):
        """enter form, ghost definition by recursion over the (well-founded) parent relation: VALc(x) = value the traversal carries
        at x, RMc(x) = x is designated for removal (the callback says so at x, or an ancestor is designated: then the callback is
        NOT consulted at x and the ancestor's value is carried on)"""
        if E.spec_extra.get("mode") != "enter":
            return
        t = old["tree"]
        P, n = col(t, "pid").arr, nof(t)
        RMc, VALc = z3.Function(fresh_name("RMc"), I, B), z3.Function(fresh_name("VALc"), I, I)
        E.spec_extra["RMc"], E.spec_extra["VALc"] = RMc, VALc
        x = z3.Int(fresh_name("x"))
        px = sel(P, x)
        E.assume(z3.ForAll([x], z3.Implies(z3.And(x >= 0, x < n), z3.If(px < 0,
                 z3.And(RMc(x) == UE_FLAG(x, 0), VALc(x) == UE_VAL(x, 0)),
                 z3.And(RMc(x) == z3.Or(RMc(px), UE_FLAG(x, VALc(px))), VALc(x) == z3.If(RMc(px), VALc(px), UE_VAL(x, VALc(px))))))))
        E.assumptions.add("ghost definition (well-founded recursion over the parent relation): RMc / VALc = removal designation and carried value of cut_tree's enter form")

    def flagged(E, v):
        """x -> `the callback designates x itself`"""
        mode = E.spec_extra["mode"]
        if mode == "enter":
            RMc = E.spec_extra["RMc"]
            return lambda x: RMc(x)
        if mode == "leave":
            flag = v["G6"].fields["flag"].arr
            return lambda x: sel(flag, x)
        return lambda x: z3.BoolVal(False)

    def J(E, v, ENT, LEFT, ctx):
        """`removals` lists exactly the nodes designated so far, each once (ghost inverse `at`)"""
        mode = E.spec_extra["mode"]
        A, ln = list_view(v[REM])
        g = v["G6"].fields
        at = g["at"].arr
        a, x, k = z3.Int(fresh_name("a")), z3.Int(fresh_name("x")), z3.Int(fresh_name("k"))
        done = ENT if mode == "enter" else LEFT
        fl = flagged(E, v)
        member = lambda t_: z3.And(sel(done, t_), fl(t_))
        inl = lambda t_: z3.And(t_ >= 0, t_ < ln)
        out = [ln >= 0,
               z3.ForAll([a], z3.Implies(inl(a), z3.And(ctx.R(sel(A, a)), member(sel(A, a)), sel(at, sel(A, a)) == a))),
               z3.ForAll([x], z3.Implies(z3.And(ctx.R(x), member(x)), z3.And(inl(sel(at, x)), sel(A, sel(at, x)) == x)))]
        if mode == "leave":  # what the user callback was handed at every node left so far: its children's values in order
            out.append(z3.ForAll([x], z3.Implies(z3.And(ctx.R(x), sel(LEFT, x)), sel(g["seenlen"].arr, x) == ctx.nkids(x))))
            out.append(z3.ForAll([x, k], z3.Implies(z3.And(ctx.R(x), sel(LEFT, x), 0 <= k, k < ctx.nkids(x)), sel(sel(g["seen"].arr, x), k) == sel(g["val"].arr, ctx.kid(x, k)))))
        return z3.And(*out)

    def Qe(E, v, x, val, ctx):
        if not (isinstance(val, tuple) and len(val) == 2):
            return False
        return z3.And(to_z3(val[0], "oref") == E.spec_extra["VALc"](x), to_z3(E.truth(val[1]), "bool") == E.spec_extra["RMc"](x))

    def Ql(E, v, x, val, ctx):
        return to_z3(val, "oref") == sel(v["G6"].fields["val"].arr, x)

    def ghost_step(E, v, x, ctx):
        A, ln = list_view(v[REM])
        G = v["G6"]
        G.fields["at"].arr = z3.Store(G.fields["at"].arr, x, ln - 1)

    def result_ghost(E, v, o):
        res = v["result"]
        if E.spec_extra["mode"] == "neither":  # nothing removed: the identity mapping
            k = z3.Int(fresh_name("k"))
            n = nof(o["tree"])
            ident = SArr(z3.Lambda([k], k), n, "int", name="identity")
            return (ident, (lambda q: q), (lambda q: q), (lambda q: z3.BoolVal(False)))
        return getattr(res, "ghost6", None) and K["sub_ghost"](E, res)

    def post(which):
        def f(E, v, o):
            res, t = v["result"], o["tree"]
            gh = result_ghost(E, v, o)
            if not gh:
                return False
            if which == "callback-handed-its-childrens-values-in-order":
                if E.spec_extra["mode"] != "leave":
                    return True
                g = v["G6"].fields
                x, k = z3.Int(fresh_name("x")), z3.Int(fresh_name("k"))
                P, n = col(t, "pid").arr, nof(t)
                ctx = E.ghost["last-traverse-ctx"]  # children of x in table order: kid(x, 0..nkids(x)-1)
                return z3.ForAll([x], z3.Implies(z3.And(x >= 0, x < n), z3.And(sel(g["seenlen"].arr, x) == ctx.nkids(x),
                                 z3.ForAll([k], z3.Implies(z3.And(0 <= k, k < ctx.nkids(x)), sel(sel(g["seen"].arr, x), k) == sel(g["val"].arr, ctx.kid(x, k)))))))
            return K["subtree_clause"](E, which, res, t, gh, seed=flagged(E, v))

        return f

    def induction_hint(E, v):
        """enter form: the closure to_subtree computes adds nothing to the designated set (it is already closed downwards).
        Tree induction for P(x) := Rm(x) == RMc(x); base and step are proved, the schema is the Lean lemma `tree_induction`."""
        if E.spec_extra.get("mode") != "enter":
            return
        res = v.get("result") if "result" in v else None
        calls = [kw for nm, kw in E.call_log if nm == "to_subtree"]
        if len(calls) != 1:
            return
        res = calls[0]["__result__"]
        t = calls[0]["swc_like"]
        mapping, kappa, rho, Rm = K["sub_ghost"](E, res)
        RMc = E.spec_extra["RMc"]
        P, n = col(t, "pid").arr, nof(t)
        A, ln = list_view(calls[0]["removals"])
        x, j = z3.Int(fresh_name("x")), z3.Int(fresh_name("j"))
        Rg = lambda q: z3.And(q >= 0, q < n)
        E.prove("cut_tree/step/listed-iff-designated", z3.ForAll([x], z3.Implies(Rg(x), z3.Exists([j], z3.And(j >= 0, j < ln, sel(A, j) == x)) == RMc(x))), "annotation")
        base = Rm(0) == RMc(0)
        step = z3.ForAll([x], z3.Implies(z3.And(Rg(x), x != 0, Rm(sel(P, x)) == RMc(sel(P, x))), Rm(x) == RMc(x)))
        E.prove("cut_tree/induction-premise/closure-agrees-at-the-root", base, "lemma")
        E.prove("cut_tree/induction-premise/closure-agrees-below-an-agreeing-parent", step, "lemma")
        E.assume(z3.Implies(z3.And(base, step), z3.ForAll([x], z3.Implies(Rg(x), Rm(x) == RMc(x)))))
        E.assumptions.add("assumed-lemma:tree_induction (depth witness) instantiated for P(x) = (closure of the listed removals at x == designation of cut_tree's enter form at x)")

    CT_POSTS = ["removal-closure-is-removed-or-below-a-removed-node", "survivors-are-exactly-the-nodes-outside-the-closure-in-order", "survivors-keep-every-attribute",
                "ids-are-positions-and-parent-relation-kept", "result-shares-no-storage-with-the-input"]
    LABEL = {"removal-closure-is-removed-or-below-a-removed-node": "removed-iff-designated-by-the-callback-or-below-a-removed-node"}
    CT = dict(requires=[K["wf_clause"](w, "tree") for w in K["WF"]],
              ghost_entry=define_designated,
              ensures=[(LABEL.get(nm, nm), post(nm)) for nm in CT_POSTS] + [("leave-callback-handed-its-childrens-values-in-order", post("callback-handed-its-childrens-values-in-order"))],
              options=dict(traverse_rule=Rule(J, Qe=Qe, Ql=Ql, modifies=[(REM, "int"), "G6"], enter_kind=lambda E: (fresh("oref", "pv"), fresh("bool", "pr")), leave_kind="oref",
                                              ghost_enter=ghost_step, ghost_leave=ghost_step),
                           hints={"post/removed-iff-designated-by-the-callback-or-below-a-removed-node": induction_hint}))
    R.add(f"{TU}:cut_tree", prop="C06",
          variants={"enter callback": setup("enter"), "leave callback": setup("leave"), "neither (plain copy)": setup("neither")},
          **CT,
          notes="enter form: the user callback is an uninterpreted function of (node, incoming value); leave form: arbitrary results recorded in ghost "
                "observation arrays; to_subtree is used through its proved contract; the input tree is frozen")
    # the same contract on trees of a fixed small number of rows
    R.add(f"{TU}:cut_tree", prop="C06",
          variants={f"{fixed_name(m)}, {nm}": setup(mode, size=m) for m in FIXED_SIZES for mode, nm in (("enter", "enter callback"), ("leave", "leave callback"))},
          **CT, notes=FIXED_NOTE)

    # ------------------------------------------------------------------ the nested closures on their own (their clauses are POSTCONDITIONS here)
    from contracts.C09 import node_obj

    def cb_setup(form, with_parent):
        def f(S):
            t = K["raw_tree"](S)
            n = node_obj(S, t)
            rem = S.plist("int", name="removals")
            log = []

            def user(E, args, kwargs):
                if form == "enter":
                    x, inc = to_z3(args[0].fields["idx"], "int"), to_z3(args[1], "oref")
                    r = (Sym(UE_VAL(x, inc), "oref"), Sym(UE_FLAG(x, inc), "bool"))
                else:
                    r = (fresh("oref", "leave_value"), fresh("bool", "leave_removal"))
                log.append((list(args), dict(kwargs), r))
                return r

            d = dict(n=n, __ghost__=dict(log=log))
            if form == "enter":
                d["parent"] = (fresh("oref", "pv"), S.bool("pr")) if with_parent else None
                d["__closure__"] = {REM: rem, "enter": S.callback("enter", user)}
            else:
                ch = S.plist("oref", name="children")
                ch.frozen = True
                d["children"] = ch
                d["__closure__"] = {REM: rem, "leave": S.callback("leave", user)}
            d[REM] = rem  # visible to the clauses (old(removals) = the list at entry)
            return d

        return f

    def cb_in_range(E, v, o):
        i = to_z3(v["n"].fields["idx"], "int")
        return z3.And(i >= 0, i < nof(v["n"].fields["attach"]))

    def cb_flag_and_id(E, v, o, form):
        res = v["result"]
        node = o["n"]
        me = sel(col(node.fields["attach"], "id").arr, to_z3(node.fields["idx"], "int"))
        log = E.spec_extra["log"]
        if form == "enter":
            if not (isinstance(res, tuple) and len(res) == 2):
                return None, me, log
            return to_z3(E.truth(res[1]), "bool"), me, log
        return (to_z3(E.truth(log[0][2][1]), "bool") if len(log) == 1 else None), me, log

    def cb_post(form, which):
        def f(E, v, o):
            res = v["result"]
            flag, me, log = cb_flag_and_id(E, v, o, form)
            if flag is None:
                return False
            if which == "listed":  # the node's id is appended to `removals` iff the returned / reported flag is set; nothing else changes
                A1, l1 = list_view(v[REM])
                A0, l0 = list_view(o[REM])
                j = z3.Int(fresh_name("j"))
                return z3.And(v[REM].uid == o[REM].uid, l1 == l0 + z3.If(flag, 1, 0), z3.Implies(flag, sel(A1, l0) == me),
                              z3.ForAll([j], z3.Implies(z3.And(j >= 0, j < l0), sel(A1, j) == sel(A0, j))))
            node = o["n"]
            if form == "enter":
                par = o["parent"]
                below = z3.BoolVal(False) if par is None else to_z3(par[1], "bool")
                if len(log) == 0:  # the callback was not consulted: only right below a removed parent, whose pair is passed on
                    if par is None:
                        return False
                    return z3.And(below, to_z3(res[0], "oref") == to_z3(par[0], "oref"), flag)
                if len(log) != 1:
                    return False
                args, kwargs, r = log[0]
                ok = len(args) == 2 and not kwargs and args[0] is v["n"]
                inc_ok = (args[1] is None) if par is None else (args[1] is not None and to_z3(args[1], "oref") == to_z3(par[0], "oref"))
                return z3.And(z3.Not(below), z3.BoolVal(ok) if isinstance(ok, bool) else ok, z3.BoolVal(inc_ok) if isinstance(inc_ok, bool) else inc_ok,
                              to_z3(res[0], "oref") == r[0].z, flag == r[1].z)
            if len(log) != 1:
                return False
            args, kwargs, r = log[0]
            if not (len(args) == 2 and not kwargs and args[0] is v["n"]) or isinstance(res, tuple):
                return False
            (A1, l1), (A0, l0) = list_view(args[1]), list_view(o["children"])  # the child values in order (the very list or an equal one)
            j = z3.Int(fresh_name("j"))
            return z3.And(l1 == l0, z3.ForAll([j], z3.Implies(z3.And(j >= 0, j < l0), sel(A1, j) == sel(A0, j))), to_z3(res, "oref") == r[0].z)

        return f

    R.add(f"{TU}:cut_tree.<locals>._enter", prop="C06",
          variants={"start node (no parent pair)": cb_setup("enter", False), "below a parent": cb_setup("enter", True)},
          requires=[("handle-in-range", cb_in_range)],
          ensures=[("below-a-removed-parent-its-pair-is-passed-on-unconsulted-else-the-callback-decides-on-the-parents-value", cb_post("enter", "value")),
                   ("node-id-appended-to-removals-iff-the-returned-flag-is-set", cb_post("enter", "listed"))],
          notes="the wrapper cut_tree hands to Tree.traverse in the enter form; `enter` is an uninterpreted function of (node, incoming value)")
    R.add(f"{TU}:cut_tree.<locals>._leave", prop="C06",
          setup=cb_setup("leave", False),
          requires=[("handle-in-range", cb_in_range)],
          ensures=[("callback-consulted-once-with-this-node-and-the-child-values-in-order-and-its-value-returned", cb_post("leave", "value")),
                   ("node-id-appended-to-removals-iff-the-callback-flags-it", cb_post("leave", "listed"))],
          notes="the wrapper cut_tree hands to Tree.traverse in the leave form; `leave` returns arbitrary (value, flag) pairs")


_reg6b = register


def register(R):  # noqa: F811
    _reg6b(R)
    register_subtree(R)
    register_cut_tree(R)


# =========================================================================== CutByFurcationOrder._enter (the rule the order cut designates)
def register_order_cut(R):
    from contracts.C09 import node_obj
    from contracts.common import col, nof, sym_tree
    from pyvc.npmodels import count_true  # noqa: F401

    TT = "swcgeom/transforms/tree.py"

    def setup(has_parent):
        def f(S):
            from swcgeom.transforms.tree import CutByFurcationOrder

            t = sym_tree(S, "t")
            n = node_obj(S, t)
            S.assume(z3.And(to_z3(n.fields["idx"], "int") >= 0, to_z3(n.fields["idx"], "int") < nof(t)))
            return dict(self=S.obj(CutByFurcationOrder, max_furcation_order=S.int("kmax")), n=n, parent_level=S.int("plevel") if has_parent else None)

        return f

    def post(E, v, o):
        res = v["result"]
        if not (isinstance(res, tuple) and len(res) == 2):
            return False
        level, flag = res
        node = o["n"]
        t = node.fields["attach"]
        me = z3.Select(col(t, "id").arr, to_z3(node.fields["idx"], "int"))
        # number of rows naming this node as parent, through the counting function the code's mask produced
        cnts = [f for f, mask in E.ghost.get("cnt-functions", [])]
        kmax = to_z3(o["self"].fields["max_furcation_order"], "int")
        if o["parent_level"] is None:
            want = z3.IntVal(0)
        else:
            if len(cnts) != 1:
                return False
            is_furc = cnts[0](nof(t)) > 1
            want = z3.If(is_furc, to_z3(o["parent_level"], "int") + 1, to_z3(o["parent_level"], "int"))
        return z3.And(to_z3(level, "int") == want, to_z3(E.truth(flag), "bool") == (want >= kmax))

    R.add(f"{TT}:CutByFurcationOrder._enter", prop="C06",
          variants={"start-node": setup(False), "below-a-parent": setup(True)},
          ensures=[("level-counts-furcations-from-the-start-node-and-removal-iff-level-reaches-the-order", post)],
          notes="`is furcation` = more than one row names the node's id as parent (Node.is_furcation, proved in C08)")


_reg6c = register


def register(R):  # noqa: F811
    _reg6c(R)
    register_order_cut(R)


# =========================================================================== CutByType / CutAxonTree / CutDendriteTree
def register_cut_by_type(R):
    from pyvc.traverse_rule import Rule
    from pyvc.values import Obj, fresh

    K = _SUBTREE_KIT
    nof, col, sel = K["nof"], K["col"], K["sel"]
    I, B = z3.IntSort(), z3.BoolSort()
    TT = "swcgeom/transforms/tree.py"
    REM = local_collection_name(f"{TT}:CutByType.__call__", "set")  # the local set of removals (whatever it is called)

    def setup(S, size=None):
        from swcgeom.transforms.tree import CutByType

        t = K["raw_tree"](S, size=size)
        G = Obj(GhostList, dict(keep=SArr(z3.K(I, z3.BoolVal(False)), nof(t), "bool", name="keep")))  # ghost: what `leave` returned at x
        return dict(self=S.obj(CutByType, type=S.int("wanted_type")), x=t, __ghost__=dict(G6=G))

    G6 = lambda E: E.spec_extra["G6"]

    def J(E, v, ENT, LEFT, ctx):
        """`removals` holds the nodes of another type that are not (yet) known to have a kept child; keep[x] (the value `leave`
        returned at x) says: x is of the type or one of its children is kept"""
        rem, t = v[REM], v["x"]
        if not isinstance(rem, SymSet):
            return False
        ty = to_z3(v["self"].fields["type"], "int")
        keep = G6(E).fields["keep"].arr
        typ = col(t, "type").arr
        x, k = z3.Int(fresh_name("x")), z3.Int(fresh_name("k"))
        return z3.And(
            z3.ForAll([x], z3.Implies(rem.has(x), ctx.R(x))),
            z3.ForAll([x], z3.Implies(ctx.R(x), rem.has(x) == z3.If(sel(LEFT, x), z3.Not(sel(keep, x)), sel(typ, x) != ty))),
            z3.ForAll([x], z3.Implies(z3.And(ctx.R(x), sel(LEFT, x)),
                                      sel(keep, x) == z3.Or(sel(typ, x) == ty, z3.Exists([k], z3.And(0 <= k, k < ctx.nkids(x), sel(keep, ctx.kid(x, k))))))))

    def Ql(E, v, x, val, ctx):
        return to_z3(E.truth(val), "bool") == sel(G6(E).fields["keep"].arr, x)

    def ghost_leave(E, v, x, ctx):
        g = G6(E).fields["keep"]
        g.arr = z3.Store(g.arr, x, to_z3(E.truth(ctx.ret), "bool"))

    def result_of(E):
        calls = [kw for nm, kw in E.call_log if nm == "to_subtree"]
        return calls[0] if len(calls) == 1 else None

    def post(which):
        def f(E, v, o):
            res, t = v["result"], o["x"]
            c = result_of(E)
            if c is None or res is not c["__result__"] or c["swc_like"] is not v["x"] or c["out_mapping"] is not None:
                return False
            gh = K["sub_ghost"](E, res)
            mapping, kappa, rho, Rm = gh
            if which == "kept-iff-of-the-type-or-parent-of-a-kept-node":
                ty = to_z3(o["self"].fields["type"], "int")
                typ, P, n = col(t, "type").arr, col(t, "pid").arr, nof(t)
                x, c_ = z3.Int(fresh_name("x")), z3.Int(fresh_name("c"))
                kept = lambda q: z3.Not(Rm(q))
                return z3.ForAll([x], z3.Implies(z3.And(x >= 0, x < n), kept(x) == z3.Or(sel(typ, x) == ty, z3.Exists([c_], z3.And(c_ >= 0, c_ < n, sel(P, c_) == x, kept(c_))))))
            return K["subtree_clause"](E, which, res, t, gh)

        return f

    def induction_hint(E, v):
        """the closure to_subtree computes adds nothing: the final `removals` is closed downwards, because a kept node keeps its parent.
        Tree induction for P(x) := Rm(x) == not keep[x]; base and step are proved, the schema is the Lean lemma `tree_induction`."""
        c = result_of(E)
        if c is None:
            return
        t = c["swc_like"]
        mapping, kappa, rho, Rm = K["sub_ghost"](E, c["__result__"])
        keep = G6(E).fields["keep"].arr
        if E.ghost.get("last-traverse-ctx") is None:
            return  # no traversal on this path (a rewritten carrier): `keep` was never filled in, the steps below have nothing to say
        P, n = col(t, "pid").arr, nof(t)
        x = z3.Int(fresh_name("x"))
        Rg = lambda q: z3.And(q >= 0, q < n)
        E.prove("CutByType.__call__/step/a-kept-node-keeps-its-parent", z3.ForAll([x], z3.Implies(z3.And(Rg(x), x != 0, sel(keep, x)), sel(keep, sel(P, x)))), "annotation")
        base = Rm(0) == z3.Not(sel(keep, 0))
        step = z3.ForAll([x], z3.Implies(z3.And(Rg(x), x != 0, Rm(sel(P, x)) == z3.Not(sel(keep, sel(P, x)))), Rm(x) == z3.Not(sel(keep, x))))
        E.prove("CutByType.__call__/induction-premise/closure-agrees-at-the-root", base, "lemma")
        E.prove("CutByType.__call__/induction-premise/closure-agrees-below-an-agreeing-parent", step, "lemma")
        E.assume(z3.Implies(z3.And(base, step), z3.ForAll([x], z3.Implies(Rg(x), Rm(x) == z3.Not(sel(keep, x))))))
        E.assumptions.add("assumed-lemma:tree_induction (depth witness) instantiated for P(x) = (closure of CutByType's final removals at x == not keep[x])")

    POSTS = ["kept-iff-of-the-type-or-parent-of-a-kept-node", "survivors-are-exactly-the-nodes-outside-the-closure-in-order", "survivors-keep-every-attribute",
             "ids-are-positions-and-parent-relation-kept", "result-shares-no-storage-with-the-input"]
    R.add(f"{TT}:CutByType.__call__", prop="C06", setup=setup,
          requires=[K["wf_clause"](w, "x") for w in K["WF"]],
          ensures=[(nm, post(nm)) for nm in POSTS],
          options=dict(traverse_rule=Rule(J, Ql=Ql, modifies=[REM, G6], leave_kind="bool", ghost_leave=ghost_leave),
                       hints={"post/kept-iff-of-the-type-or-parent-of-a-kept-node": induction_hint}),
          notes="kept = the nodes of the type and all their ancestors (the unique fixpoint of `of the type, or parent of a kept node` on a finite tree); "
                "`removals` is a Python set of ids; to_subtree through its proved contract")

    # ---- the same contract on tables of a fixed small number of rows (ids, parents, types, attributes symbolic; ANY legal numbering)
    R.add(f"{TT}:CutByType.__call__", prop="C06",
          variants={fixed_name(m): (lambda S, m=m: setup(S, size=m)) for m in FIXED_SIZES},
          requires=[K["wf_clause"](w, "x") for w in K["WF"]],
          ensures=[(nm, post(nm)) for nm in POSTS],
          options=dict(traverse_rule=Rule(J, Ql=Ql, modifies=[REM, G6], leave_kind="bool", ghost_leave=ghost_leave),
                       hints={"post/kept-iff-of-the-type-or-parent-of-a-kept-node": induction_hint}),
          notes=FIXED_NOTE)

    # ---- the nested leave callback on its own (its clauses are POSTCONDITIONS here)
    from contracts.C09 import node_obj

    def lv_setup(S):
        t = K["raw_tree"](S)
        rem = SymSet(z3.Const(fresh_name("removals_mem"), z3.ArraySort(I, B)), "removals")
        kc = S.plist("bool", name="keep_children")
        kc.frozen = True
        return {"n": node_obj(S, t), "keep_children": kc, REM: rem, "__closure__": {REM: rem}}

    def lv_in_range(E, v, o):
        i = to_z3(v["n"].fields["idx"], "int")
        return z3.And(i >= 0, i < nof(v["n"].fields["attach"]))

    def lv_post(which):
        def f(E, v, o):
            node = o["n"]
            me = sel(col(node.fields["attach"], "id").arr, to_z3(node.fields["idx"], "int"))
            mem0, mem1 = o[REM].mem, v[REM].mem
            A, ln = K["list_view"](o["keep_children"])
            k, q = z3.Int(fresh_name("k")), z3.Int(fresh_name("q"))
            some_child_kept = z3.Exists([k], z3.And(k >= 0, k < ln, sel(A, k)))
            if which == "set":
                return z3.And(v[REM].uid == o[REM].uid, sel(mem1, me) == z3.And(sel(mem0, me), z3.Not(some_child_kept)),
                              z3.ForAll([q], z3.Implies(q != me, sel(mem1, q) == sel(mem0, q))))
            return to_z3(E.truth(v["result"]), "bool") == z3.Not(sel(mem1, me))

        return f

    R.add(f"{TT}:CutByType.__call__.<locals>.leave", prop="C06", setup=lv_setup,
          requires=[("handle-in-range", lv_in_range)],
          ensures=[("node-leaves-the-removal-set-iff-some-child-is-kept-and-nothing-else-changes", lv_post("set")),
                   ("returns-whether-the-node-is-kept", lv_post("ret"))],
          notes="the callback CutByType hands to Tree.traverse; `removals` is a Python set of ids")

    # ---- which type: CutAxonTree / CutDendriteTree constructors
    def init_setup(cls_name, given):
        def f(S):
            import swcgeom.transforms.tree as m
            from swcgeom.core.swc_utils import SWCTypes

            ty = SWCTypes(*[S.int(f"ty_{f_}") for f_ in SWCTypes._fields]) if given else None
            return dict(self=S.obj(getattr(m, cls_name)), types=ty)

        return f

    def init_post(field):
        def f(E, v, o):
            from swcgeom.core.swc_utils import get_types

            want = getattr(o["types"] if o["types"] is not None else get_types(), field)
            got = v["self"].fields.get("type")
            return got is not None and to_z3(got, "int") == to_z3(want, "int")

        return f

    for cls_name, field in (("CutAxonTree", "axon"), ("CutDendriteTree", "basal_dendrite")):
        R.add(f"{TT}:{cls_name}.__init__", prop="C06",
              variants={"default SWC types": init_setup(cls_name, False), "types given": init_setup(cls_name, True)},
              ensures=[(f"cuts-by-the-{field.replace('_', '-')}-type-of-the-type-table-in-force", init_post(field))],
              notes="the tree operation itself is CutByType.__call__ (inherited)")


_reg6d = register


def register(R):  # noqa: F811
    _reg6d(R)
    register_cut_by_type(R)


# =========================================================================== CutByFurcationOrder.__call__ (= cut_tree with the level rule)
def register_order_call(R):
    from pyvc.traverse_rule import Rule
    from pyvc.values import Obj, fresh

    K = _SUBTREE_KIT
    nof, col, sel, list_view = K["nof"], K["col"], K["sel"], K["list_view"]
    I, B = z3.IntSort(), z3.BoolSort()
    TT = "swcgeom/transforms/tree.py"
    REM = local_collection_name(f"{TU}:cut_tree", "list")  # the local list of the inlined cut_tree

    def setup(S, size=None):
        from swcgeom.transforms.tree import CutByFurcationOrder

        t = K["raw_tree"](S, size=size)
        G = Obj(GhostList, dict(at=SArr(z3.K(I, z3.IntVal(-1)), nof(t), "int", name="at")))  # position of a node in cut_tree's `removals`
        return dict(self=S.obj(CutByFurcationOrder, max_furcation_order=S.int("kmax")), x=t, __ghost__=dict(G6=G))

    G6 = lambda E: E.spec_extra["G6"]

    def ghosts(E, ctx):
        """ghost definitions by recursion over the (well-founded) parent relation, made once per path when the traversal starts:
        LVL(x)  = number of furcation nodes on the way from the root's children down to x (the level the property speaks of),
        CAR(x)  = the level the traversal CARRIES at x: cut_tree stops consulting the callback below a removed node and passes the
                  removed ancestor's level on.   `x is a furcation` = more than one child (nkids of the traversal's child enumeration)."""
        if "order-ghosts" not in E.spec_extra:
            t = E.top_old["x"]
            P, n = col(t, "pid").arr, nof(t)
            kmax = to_z3(E.top_old["self"].fields["max_furcation_order"], "int")
            LVL, CAR = z3.Function(fresh_name("LVL"), I, I), z3.Function(fresh_name("CAR"), I, I)
            x = z3.Int(fresh_name("x"))
            px = sel(P, x)
            furc = z3.If(ctx.nkids(x) > 1, 1, 0)
            E.assume(z3.ForAll([x], z3.Implies(z3.And(x >= 0, x < n), z3.If(px < 0, z3.And(LVL(x) == 0, CAR(x) == 0),
                     z3.And(LVL(x) == LVL(px) + furc, CAR(x) == z3.If(CAR(px) >= kmax, CAR(px), CAR(px) + furc))))))
            E.assumptions.add("ghost definition (well-founded recursion over the parent relation): LVL / CAR = furcation level and carried level of CutByFurcationOrder")
            E.spec_extra["order-ghosts"] = (LVL, CAR, kmax)
        return E.spec_extra["order-ghosts"]

    def J(E, v, ENT, LEFT, ctx):
        """cut_tree's `removals` lists exactly the entered nodes whose carried level reaches the order, each once (ghost inverse `at`)"""
        LVL, CAR, kmax = ghosts(E, ctx)
        A, ln = list_view(v[REM])
        at = G6(E).fields["at"].arr
        a, x = z3.Int(fresh_name("a")), z3.Int(fresh_name("x"))
        member = lambda q: z3.And(sel(ENT, q), CAR(q) >= kmax)
        inl = lambda q: z3.And(q >= 0, q < ln)
        return z3.And(ln >= 0,
                      z3.ForAll([a], z3.Implies(inl(a), z3.And(ctx.R(sel(A, a)), member(sel(A, a)), sel(at, sel(A, a)) == a))),
                      z3.ForAll([x], z3.Implies(z3.And(ctx.R(x), member(x)), z3.And(inl(sel(at, x)), sel(A, sel(at, x)) == x))))

    def Qe(E, v, x, val, ctx):
        LVL, CAR, kmax = ghosts(E, ctx)
        if not (isinstance(val, tuple) and len(val) == 2):
            return False
        return z3.And(to_z3(val[0], "int") == CAR(x), to_z3(E.truth(val[1]), "bool") == (CAR(x) >= kmax))

    def ghost_enter(E, v, x, ctx):
        A, ln = list_view(v[REM])
        g = G6(E).fields["at"]
        g.arr = z3.Store(g.arr, x, ln - 1)

    def count_hint(E, v):
        """enter step: the row count Node.is_furcation takes is > 1 exactly when the node has two children in the traversal's
        enumeration (witnesses: the first two counted rows / the first two children)"""
        ctx, x = E.ghost.get("last-traverse-ctx"), E.ghost.get("traverse-step-node")
        pre = "CutByFurcationOrder.__call__/step/"
        for f, pos, mask in E.ghost.get("cnt-rs6-all", []):
            if ("cnt-linked", f.name()) in E.ghost:
                continue
            E.ghost[("cnt-linked", f.name())] = True
            n = mask.nz()
            p0, p1 = pos(0), pos(1)
            k0, k1 = ctx.kid(x, 0), ctx.kid(x, 1)
            m_ = lambda q: to_z3(mask.get(q), "bool")
            E.prove(pre + "two-counted-rows-are-two-children", z3.Implies(f(n) > 1, z3.And(0 <= p0, p0 < p1, p1 < n, m_(p0), m_(p1), sel(ctx.P, p0) == x, sel(ctx.P, p1) == x)), "annotation")
            E.prove(pre + "two-counted-rows-mean-two-children-in-the-enumeration", z3.Implies(f(n) > 1, ctx.nkids(x) > 1), "annotation")
            E.prove(pre + "two-children-are-two-counted-rows", z3.Implies(ctx.nkids(x) > 1, z3.And(0 <= k0, k0 < k1, k1 < n, m_(k0), m_(k1), f(k0 + 1) >= 1, f(k1) >= 1, f(k1 + 1) >= 2)), "annotation")
            E.prove(pre + "two-children-mean-a-count-above-one", z3.Implies(ctx.nkids(x) > 1, f(n) > 1), "annotation")

    def furc_hint(E, v):
        ctx = E.ghost.get("last-traverse-ctx")
        c = result_of(E)
        if ctx is None or c is None:
            return
        t = c["swc_like"]
        P, n = col(t, "pid").arr, nof(t)
        x, a, b = z3.Int(fresh_name("x")), z3.Int(fresh_name("a")), z3.Int(fresh_name("b"))
        Rg = lambda q: z3.And(q >= 0, q < n)
        k0, k1 = ctx.kid(x, 0), ctx.kid(x, 1)
        pre = "CutByFurcationOrder.__call__/step/"
        E.prove(pre + "the-first-two-children-are-two-distinct-rows", z3.ForAll([x], z3.Implies(z3.And(Rg(x), ctx.nkids(x) > 1), z3.And(Rg(k0), Rg(k1), k0 != k1, sel(P, k0) == x, sel(P, k1) == x))), "annotation")
        E.prove(pre + "two-distinct-rows-with-one-parent-take-two-places-among-its-children",
                z3.ForAll([a, b], z3.Implies(z3.And(Rg(a), Rg(b), a != b, sel(P, a) == sel(P, b), sel(P, a) >= 0), ctx.nkids(sel(P, a)) > 1)), "annotation")

    def result_of(E):
        calls = [kw for nm, kw in E.call_log if nm == "to_subtree"]
        return calls[0] if len(calls) == 1 else None

    def post(which):
        def f(E, v, o):
            res, t = v["result"], o["x"]
            c = result_of(E)
            if c is None or res is not c["__result__"] or c["swc_like"] is not v["x"] or c["out_mapping"] is not None or "order-ghosts" not in E.spec_extra:
                return False
            gh = K["sub_ghost"](E, res)
            mapping, kappa, rho, Rm = gh
            LVL, CAR, kmax = E.spec_extra["order-ghosts"]
            ctx = E.ghost["last-traverse-ctx"]
            P, n = col(t, "pid").arr, nof(t)
            x, a, b = z3.Int(fresh_name("x")), z3.Int(fresh_name("a")), z3.Int(fresh_name("b"))
            Rg = lambda q: z3.And(q >= 0, q < n)
            if which == "a-furcation-is-a-node-that-two-distinct-rows-name-as-parent":
                return z3.ForAll([x], z3.Implies(Rg(x), (ctx.nkids(x) > 1) == z3.Exists([a, b], z3.And(Rg(a), Rg(b), a != b, sel(P, a) == x, sel(P, b) == x))))
            if which == "removed-iff-the-furcation-level-reaches-the-order":
                return z3.ForAll([x], z3.Implies(Rg(x), Rm(x) == (LVL(x) >= kmax)))
            return K["subtree_clause"](E, which, res, t, gh)

        return f

    def induction_hint(E, v):
        c = result_of(E)
        if c is None or "order-ghosts" not in E.spec_extra:
            return
        t = c["swc_like"]
        mapping, kappa, rho, Rm = K["sub_ghost"](E, c["__result__"])
        LVL, CAR, kmax = E.spec_extra["order-ghosts"]
        P, n = col(t, "pid").arr, nof(t)
        A, ln = list_view(c["removals"])
        x, j = z3.Int(fresh_name("x")), z3.Int(fresh_name("j"))
        Rg = lambda q: z3.And(q >= 0, q < n)
        pre = "CutByFurcationOrder.__call__/step/"
        E.prove(pre + "listed-iff-carried-level-reaches-the-order", z3.ForAll([x], z3.Implies(Rg(x), z3.Exists([j], z3.And(j >= 0, j < ln, sel(A, j) == x)) == (CAR(x) >= kmax))), "annotation")
        # induction 1: the closure to_subtree computes adds nothing (the carried level never drops below the order again)
        P1 = lambda q: Rm(q) == (CAR(q) >= kmax)
        # induction 2: the carried level is the furcation level while below the order, and both are at or above it together
        P2 = lambda q: z3.And(z3.Implies(CAR(q) < kmax, CAR(q) == LVL(q)), z3.Implies(CAR(q) >= kmax, LVL(q) >= kmax))
        for nm, Pq in (("closure-is-carried-level-at-or-above-the-order", P1), ("carried-level-agrees-with-the-furcation-level", P2)):
            base = Pq(z3.IntVal(0))
            step = z3.ForAll([x], z3.Implies(z3.And(Rg(x), x != 0, Pq(sel(P, x))), Pq(x)))
            E.prove(pre.replace("/step/", "/induction-premise/") + nm + "/at-the-root", base, "lemma")
            E.prove(pre.replace("/step/", "/induction-premise/") + nm + "/below-an-agreeing-parent", step, "lemma")
            E.assume(z3.Implies(z3.And(base, step), z3.ForAll([x], z3.Implies(Rg(x), Pq(x)))))
        E.assumptions.add("assumed-lemma:tree_induction (depth witness) instantiated twice in CutByFurcationOrder.__call__: closure == carried level >= order; carried level vs furcation level")

    POSTS = ["a-furcation-is-a-node-that-two-distinct-rows-name-as-parent", "removed-iff-the-furcation-level-reaches-the-order",
             "survivors-are-exactly-the-nodes-outside-the-closure-in-order", "survivors-keep-every-attribute",
             "ids-are-positions-and-parent-relation-kept", "result-shares-no-storage-with-the-input"]
    OC = dict(requires=[K["wf_clause"](w, "x") for w in K["WF"]],
              ensures=[(nm, post(nm)) for nm in POSTS],
              options=dict(traverse_rule=Rule(J, Qe=Qe, modifies=[(REM, "int"), G6], enter_kind=lambda E: (fresh("int", "plevel"), fresh("bool", "premoved")), ghost_enter=ghost_enter),
                           count_model="rank-select",
                           hints={"enter/invariant-preserved": count_hint, "post/a-furcation-is-a-node-that-two-distinct-rows-name-as-parent": furc_hint,
                                  "post/removed-iff-the-furcation-level-reaches-the-order": induction_hint}))
    R.add(f"{TT}:CutByFurcationOrder.__call__", prop="C06", setup=setup, **OC,
          notes="cut_tree and the callback _enter are interpreted from source (inlined) under the traverse rule; to_subtree through its proved contract; "
                "level(root) = 0, level(x) = level(parent) + [x has more than one child]; removed iff level >= max_furcation_order")
    # the same contract on trees of a fixed small number of rows
    R.add(f"{TT}:CutByFurcationOrder.__call__", prop="C06", variants={fixed_name(m): (lambda S, m=m: setup(S, size=m)) for m in FIXED_SIZES}, **OC, notes=FIXED_NOTE)


_reg6e = register


def register(R):  # noqa: F811
    _reg6e(R)
    register_order_call(R)


# =========================================================================== CutShortTipBranch._leave (fixed numbers of children, symbolic lengths)
def register_short_tip(R):
    from contracts.C09 import node_obj
    from pyvc import ext_C08 as X8
    from pyvc.values import NArr, Obj, PList, fresh

    K = _SUBTREE_KIT
    nof, col, sel, list_view = K["nof"], K["col"], K["sel"], K["list_view"]
    I, B = z3.IntSort(), z3.BoolSort()
    TT = "swcgeom/transforms/tree.py"

    def first_child(t, a, b):
        """b is the first row that names a as parent (what `a.children()[0]` is on a table whose ids are positions)"""
        P, n = col(t, "pid").arr, nof(t)
        j = z3.Int(fresh_name("j"))
        return z3.And(b >= 0, b < n, sel(P, b) == a, z3.ForAll([j], z3.Implies(z3.And(j >= 0, j < b), sel(P, j) != a)))

    def is_tip(t, a):
        P, n = col(t, "pid").arr, nof(t)
        j = z3.Int(fresh_name("j"))
        return z3.ForAll([j], z3.Implies(z3.And(j >= 0, j < n), sel(P, j) != a))

    def dist(E, t, a, b):
        """Euclidean distance of rows a, b (the ghost root pyvc introduces for the same polynomial)"""
        d = [col(t, c).get(a).z - col(t, c).get(b).z for c in "xyz"]
        return to_z3(E.sqrt(Sym(d[0] * d[0] + d[1] * d[1] + d[2] * d[2], "real"), nonneg_known=True), "real")

    def setup(k):
        def f(S):
            from swcgeom.transforms.tree import CutShortTipBranch

            t = K["raw_tree"](S)
            log = []
            cb = S.callback("callback", lambda E, a, kw: log.append(list(a)))
            cbs = PList([cb])
            cbs.frozen = True  # _leave must not touch the callback list or its own object (CutShortTipBranch.__call__ relies on it)
            me = S.obj(CutShortTipBranch, thre=S.real("thre"), callbacks=cbs)
            me.frozen = True
            items = []
            for j in range(k):  # every child result is None (no tip chain below that child) or (length to the tip, handle of the child)
                if S.eng.branch(S.bool(f"child{j}_has_no_tip_chain")):
                    items.append(None)
                else:
                    items.append((S.real(f"dis{j}"), node_obj(S, t, idx=S.int(f"c{j}"))))
            ch = PList(items)
            ch.frozen = True
            return dict(self=me, n=node_obj(S, t), children=ch, __ghost__=dict(log=log))

        return f

    def pre(which):
        def f(E, v, o):
            t = v["n"].fields["attach"]
            me, n = to_z3(v["n"].fields["idx"], "int"), nof(t)
            P = col(t, "pid").arr
            if which == "handle-in-range":
                return z3.And(me >= 0, me < n)
            out = []
            for c in v["children"].items:  # the traversal hands over one result per child, each naming that child
                if c is not None:
                    cz = to_z3(c[1].fields["idx"], "int")
                    out.append(z3.And(cz >= 0, cz < n, sel(P, cz) == me))
            return z3.And(*out) if out else True

        return f

    def short(E, v, j):
        """the child result j designates a tip branch no longer than the threshold"""
        c = v["children"].items[j]
        t = v["n"].fields["attach"]
        return to_z3(c[0], "real") + dist(E, t, to_z3(v["n"].fields["idx"], "int"), to_z3(c[1].fields["idx"], "int")) <= to_z3(v["self"].fields["thre"], "real")

    def post(which):
        def f(E, v, o):
            from swcgeom.core.tree import Tree

            res, kids, log = v["result"], o["children"].items, E.spec_extra["log"]
            t = v["n"].fields["attach"]  # the live tree object (frozen: its columns are the entry columns)
            me = to_z3(o["n"].fields["idx"], "int")
            if which == "value":
                if len(kids) == 0:  # a tip: length 0, the node itself
                    return isinstance(res, tuple) and len(res) == 2 and res[1] is v["n"] and z3.BoolVal(True) and to_z3(res[0], "real") == 0
                if len(kids) == 1 and kids[0] is not None:  # elongation: the child's length plus the segment to the child
                    if not (isinstance(res, tuple) and len(res) == 2 and res[1] is v["n"]):
                        return False
                    return to_z3(res[0], "real") == to_z3(kids[0][0], "real") + dist(E, t, me, to_z3(kids[0][1].fields["idx"], "int"))
                return res is None  # a furcation (or a node above one): no tip chain continues through it
            # which == "callbacks": one call per short tip branch, in the order of the children, with the branch node -> child -> ... -> tip
            if len(kids) == 0 or (len(kids) == 1 and kids[0] is not None):
                return len(log) == 0
            cand = [j for j, c in enumerate(kids) if c is not None]
            conds = {j: short(E, o, j) for j in cand}
            out = [z3.Sum([z3.If(conds[j], 1, 0) for j in cand] + [z3.IntVal(0)]) == len(log)]
            for j in cand:
                rank = z3.Sum([z3.If(conds[i], 1, 0) for i in cand if i < j] + [z3.IntVal(0)])
                alts = []
                for q, args in enumerate(log):
                    br = args[0] if len(args) == 1 else None
                    if not (isinstance(br, Obj) and br.cls is Tree.Branch and br.fields.get("attach") is t and isinstance(br.fields.get("idx"), SArr)):
                        return False
                    idx = br.fields["idx"]
                    L, i = idx.nz(), z3.Int(fresh_name("i"))
                    alts.append(z3.And(rank == q, L >= 2, idx.get(0).z == me, idx.get(1).z == to_z3(kids[j][1].fields["idx"], "int"),
                                       z3.ForAll([i], z3.Implies(z3.And(i >= 2, i < L), first_child(t, idx.get(i - 1).z, idx.get(i).z))), is_tip(t, idx.get(L - 1).z)))
                out.append(z3.Implies(conds[j], z3.Or(*alts) if alts else z3.BoolVal(False)))
            return z3.And(*out)

        return f

    # ---- the walk `while child is not None` (loop 1): path = [n, c, first child of c, ...], child = the next node or None at a tip
    def opt_node(eng, cur):
        t = cur.fields["attach"]
        eng.assumptions.add("list-model: handles built by a comprehension over a symbolic array are stored by their indices (pyvc.ext_C08.ObjList)")
        if eng.branch(fresh("bool", "walk_done")):
            return None
        return Obj(cur.cls, dict(attach=t, idx=fresh("int", "walk_at"), names=cur.fields["names"]))

    def walk_inv(E, v, o, entry):
        t = v["n"].fields["attach"]
        me, n = to_z3(v["n"].fields["idx"], "int"), nof(t)
        start = to_z3(entry["child"].fields["idx"], "int")
        A, L = list_view(v["path"])
        i = z3.Int(fresh_name("i"))
        child = v["child"]
        out = [L >= 1, sel(A, 0) == me, z3.Implies(L >= 2, sel(A, 1) == start),
               z3.ForAll([i], z3.Implies(z3.And(i >= 1, i < L), z3.And(sel(A, i) >= 0, sel(A, i) < n))),
               z3.ForAll([i], z3.Implies(z3.And(i >= 2, i < L), first_child(t, sel(A, i - 1), sel(A, i))))]
        if child is None:
            out += [L >= 2, is_tip(t, sel(A, L - 1))]
        else:
            cz = to_z3(child.fields["idx"], "int")
            out += [child.fields["attach"] is t, cz >= 0, cz < n, z3.If(L == 1, cz == start, first_child(t, sel(A, L - 1), cz))]
        return z3.And(*[x if not isinstance(x, bool) else z3.BoolVal(x) for x in out])

    def walk_measure(E, v, o, entry):
        return True

    LOOPS = {1: dict(invariant=[("path-runs-from-the-node-through-the-child-along-first-children", walk_inv)], types={"path": "int"}, rebind={"child": opt_node})}
    _SUBTREE_KIT.update(WALK_LOOP=LOOPS[1])
    R.add(f"{TT}:CutShortTipBranch._leave", prop="C06",
          variants={f"{k} child result{'s' if k != 1 else ''}": setup(k) for k in (0, 1, 2, 3)},
          requires=[K["wf_clause"](w, lambda v: v["n"].fields["attach"]) for w in K["WF"]] + [("handle-in-range", pre("handle-in-range")), ("child-results-name-children-of-the-node", pre("children"))],
          ensures=[("tip-gives-zero-and-itself-single-chain-child-extends-the-length-otherwise-nothing", post("value")),
                   ("callbacks-get-exactly-the-tip-branches-no-longer-than-the-threshold-in-child-order", post("callbacks"))],
          loops=LOOPS,
          options=dict(models=X8.MODELS),
          notes="the number of child results is fixed per variant (0..3), each None or (length, child handle) with symbolic real length; coordinates, "
                "threshold and the depth of the walk are symbolic; termination of the walk is not proved")


_reg6f = register


def register(R):  # noqa: F811
    _reg6f(R)
    register_short_tip(R)


# =========================================================================== Tree.get_neurites / Tree.get_dendrites
def register_neurites(R):
    from pyvc.values import Obj, fresh

    K = _SUBTREE_KIT
    nof, col, sel = K["nof"], K["col"], K["sel"]
    TREE = "swcgeom/core/tree.py"

    def setup(S, size=None):
        return dict(self=K["raw_tree"](S, size=size), type_check=S.bool("type_check"))

    def soma_wrong(E, v, o):
        t = v["self"]
        return z3.And(to_z3(v["type_check"], "bool"), col(t, "type").get(0).z != t.fields["types"].soma)

    def probe(E, v, o):
        """ghost exit code: look at an ARBITRARY position of the returned generator (conditions and element expression of the real
        generator expression evaluated on the item at that position)"""
        g = v["result"]
        if not isinstance(g, ext_C06.LazyGen):
            return
        j = fresh("int", "position")
        E.assume(z3.And(j.z >= 0, j.z < g.nz()))
        E.assumptions.add("list-model: handles built by a comprehension over a symbolic array are stored by their indices (pyvc.ext_C08.ObjList)")
        item, guard, tree = g.element(E, j)
        v["__probe__"] = dict(j=j, item=item, guard=guard, tree=tree)

    def post(which, dendrites):
        def f(E, v, o):
            g, t = v["result"], o["self"]
            pr = v.get("__probe__")
            if not isinstance(g, ext_C06.LazyGen) or pr is None:
                return False
            P, n, typ = col(t, "pid").arr, nof(t), col(t, "type").arr
            m = g.nz()
            k, k2, r = z3.Int(fresh_name("k")), z3.Int(fresh_name("k2")), z3.Int(fresh_name("r"))
            at = lambda q: to_z3(g.item(Sym(q, "int")).fields["idx"], "int")  # the row of the source item at position q
            if which == "source-items-are-the-children-of-the-soma-each-once-in-row-order":
                flt = getattr(E, "last_filter", None)
                if flt is None:
                    return False
                return z3.And(z3.ForAll([k], z3.Implies(z3.And(k >= 0, k < m), z3.And(at(k) >= 0, at(k) < n, sel(P, at(k)) == 0))),
                              z3.ForAll([k, k2], z3.Implies(z3.And(0 <= k, k < k2, k2 < m), at(k) < at(k2))),
                              z3.ForAll([r], z3.Implies(z3.And(r >= 0, r < n, sel(P, r) == 0), z3.And(flt.rho(r) >= 0, flt.rho(r) < m, at(flt.rho(r)) == r))))
            item, guard, tree = pr["item"], pr["guard"], pr["tree"]
            if not (isinstance(item, Obj) and item.fields.get("attach") is v["self"]):
                return False
            child = to_z3(item.fields["idx"], "int")
            if which == "a-child-contributes-a-tree-iff-it-is-wanted":
                ty = t.fields["types"]
                want = z3.Or(sel(typ, child) == ty.apical_dendrite, sel(typ, child) == ty.basal_dendrite) if dendrites else z3.BoolVal(True)
                return to_z3(guard, "bool") == want
            # the tree contributed for the child at this position is the subtree rooted at that child
            calls = [kw for nm, kw in E.call_log if nm == "get_subtree_impl"]
            if len(calls) != 1 or not isinstance(tree, Obj) or calls[0]["swc_like"] is not v["self"] or calls[0]["out_mapping"] is not None:
                return False
            nd_impl = calls[0]["__result__"][1]
            rc = K["all_cols"](tree)
            tup = (rc["id"].nz(), tree.fields["ndata"], tree.fields["source"], tree.fields["names"])
            if which == "result-shares-no-storage-with-the-input":
                return all(a.uid not in E.entry_uids for a in rc.values()) and tree.uid not in E.entry_uids
            return K["gs_clause"](E, which, tup, t, Sym(child, "int"), K["gs_ghost"](E, nd_impl), None)

        return f

    for name, dendrites in (("get_neurites", False), ("get_dendrites", True)):
        labels = ["source-items-are-the-children-of-the-soma-each-once-in-row-order", "a-child-contributes-a-tree-iff-it-is-wanted"] + \
                 [w for w in K["GS_POSTS"] if w != "mapping-reported"] + ["result-shares-no-storage-with-the-input"]
        NE = dict(requires=[K["wf_clause"](w, "self") for w in K["WF"]],
                  raises={"ValueError": ("only-when-the-type-check-is-on-and-node-0-is-not-a-soma", soma_wrong)},
                  ghost_exit=probe,
                  ensures=[("a-normal-return-means-the-soma-check-passed-or-was-not-asked-for", lambda E, v, o: z3.Not(soma_wrong(E, o, o)))] + [(("every-dendrite-typed-child-and-no-other-contributes-a-tree" if dendrites else "every-child-contributes-a-tree") if w == "a-child-contributes-a-tree-iff-it-is-wanted" else w, post(w, dendrites)) for w in labels],
                  options=dict(models=ext_C06.MODELS))
        R.add(f"{TREE}:Tree.{name}", prop="C06", setup=setup, **NE,
              notes="the result is a generator: it is described by an arbitrary position of its source (the children of node 0 in row order): "
                    "whether that child contributes, and that its tree is the subtree rooted at it (get_subtree_impl through its proved contract)")
        # the same contract on trees of a fixed small number of rows
        R.add(f"{TREE}:Tree.{name}", prop="C06", variants={fixed_name(m): (lambda S, m=m: setup(S, size=m)) for m in FIXED_SIZES}, **NE, notes=FIXED_NOTE)


_reg6g = register


def register(R):  # noqa: F811
    _reg6g(R)
    register_neurites(R)


# =========================================================================== CutShortTipBranch.__call__ (whole traversal, any number of children)
def register_short_tip_call(R):
    from pyvc.traverse_rule import Rule
    from pyvc.values import Obj, PList, fresh

    K = _SUBTREE_KIT
    nof, col, sel, list_view = K["nof"], K["col"], K["sel"], K["list_view"]
    I, B, RS = z3.IntSort(), z3.BoolSort(), z3.RealSort()
    TT = "swcgeom/transforms/tree.py"
    LEAVE = f"{TT}:CutShortTipBranch._leave"

    def setup(with_callback, size=None):
        def f(S):
            from swcgeom.transforms.tree import CutShortTipBranch

            t = K["raw_tree"](S, size=size)
            cbs = PList([S.callback("user_callback", lambda E, a, kw: None)] if with_callback else [])
            G = Obj(GhostList, dict(at=SArr(z3.K(I, z3.IntVal(-1)), nof(t), "int", name="at")))  # ghost: position of a node in `removals`
            return dict(self=S.obj(CutShortTipBranch, thre=S.real("thre"), callbacks=cbs), x=t, __ghost__=dict(G6=G))

        return f

    G6 = lambda E: E.spec_extra["G6"]

    def sq_dist(t, a, b):
        d = [col(t, c).get(a).z - col(t, c).get(b).z for c in "xyz"]
        return d[0] * d[0] + d[1] * d[1] + d[2] * d[2]

    def ghosts(E, ctx):
        """ghost definitions, made once per path when the traversal starts (recursion over the finite tree, children first):
        DIST(a, b) = Euclidean distance of rows a, b;   TC(x) = the nodes below x form a single chain down to a tip (x is a tip, or x
        has exactly one child and that child is TC);   LEN(x) = length of that chain from x to its tip"""
        if "tip-ghosts" not in E.spec_extra:
            t = E.top_old["x"]
            n = nof(t)
            DIST, TC, LEN = z3.Function(fresh_name("DIST"), I, I, RS), z3.Function(fresh_name("TC"), I, B), z3.Function(fresh_name("LEN"), I, RS)
            a, b, x = z3.Int(fresh_name("a")), z3.Int(fresh_name("b")), z3.Int(fresh_name("x"))
            E.assume(z3.ForAll([a, b], z3.And(DIST(a, b) >= 0, DIST(a, b) * DIST(a, b) == sq_dist(t, a, b)), patterns=[DIST(a, b)]))
            k0 = ctx.kid(x, 0)
            E.assume(z3.ForAll([x], z3.Implies(z3.And(x >= 0, x < n), z3.And(
                TC(x) == z3.Or(ctx.nkids(x) == 0, z3.And(ctx.nkids(x) == 1, TC(k0))),
                LEN(x) == z3.If(ctx.nkids(x) == 0, z3.RealVal(0), LEN(k0) + DIST(x, k0))))))
            E.assumptions.add("ghost definitions (recursion over the finite tree, children first): DIST (Euclidean distance of two rows), TC (single chain down to a tip), LEN (length of that chain) of CutShortTipBranch")
            E.spec_extra["tip-ghosts"] = (DIST, TC, LEN, to_z3(E.top_old["self"].fields["thre"], "real"))
        return E.spec_extra["tip-ghosts"]

    def seed_pred(E, ctx, t):
        """c starts a tip branch no longer than the threshold at a furcation (a node with two or more children)"""
        DIST, TC, LEN, thre = ghosts(E, ctx)
        P, n = col(t, "pid").arr, nof(t)
        return lambda c: z3.And(c >= 0, c < n, sel(P, c) >= 0, ctx.nkids(sel(P, c)) >= 2, TC(c), LEN(c) + DIST(sel(P, c), c) <= thre)

    def J(E, v, ENT, LEFT, ctx):
        """`removals` lists exactly the first nodes of the short tip branches hanging at the furcations left so far, each once
        (ghost inverse `at`)"""
        t = v["x"]
        seed = seed_pred(E, ctx, t)
        P = col(t, "pid").arr
        A, ln = list_view(recorder_list(v))
        at = G6(E).fields["at"].arr
        a, c = z3.Int(fresh_name("a")), z3.Int(fresh_name("c"))
        mem = lambda q: z3.And(seed(q), sel(LEFT, sel(P, q)))
        return z3.And(ln >= 0, z3.ForAll([a], z3.Implies(z3.And(a >= 0, a < ln), z3.And(mem(sel(A, a)), sel(at, sel(A, a)) == a))),
                      z3.ForAll([c], z3.Implies(mem(c), z3.And(sel(at, c) >= 0, sel(at, c) < ln, sel(A, sel(at, c)) == c))))

    def Ql(E, v, x, val, ctx):
        DIST, TC, LEN, thre = ghosts(E, ctx)
        if val is None:
            return z3.Not(TC(x))
        if not (isinstance(val, tuple) and len(val) == 2 and isinstance(val[1], Obj) and val[1].fields.get("attach") is v["x"]):
            return False
        return z3.And(TC(x), to_z3(val[0], "real") == LEN(x), to_z3(val[1].fields["idx"], "int") == x)

    def leave_args(E, v, x, ctx):
        """the child results handed to _leave at x: entry k describes the k-th child (None iff no single chain runs below it)"""
        from swcgeom.core.tree import Tree

        DIST, TC, LEN, thre = ghosts(E, ctx)
        t = v["x"]

        def seed_root(eng, lst, kz):
            # the square root the code takes for (x, k-th child) IS the ghost distance (same polynomial, both roots non-negative)
            c = z3.Select(lst.node, kz)
            key = ("sqrt", z3.simplify(sq_dist(t, x, c), som=True).sexpr())
            eng.ghost.setdefault(key, Sym(DIST(x, c), "real"))

        args = ext_C06.OptPairList(ctx.nkids(x), t, Tree.Node, on_element=seed_root)
        k = z3.Int(fresh_name("k"))
        c = ctx.kid(x, k)
        E.assume(z3.ForAll([k], z3.Implies(z3.And(0 <= k, k < ctx.nkids(x)), z3.And(z3.Select(args.none, k) == z3.Not(TC(c)), z3.Select(args.node, k) == c,
                                                                                   z3.Implies(TC(c), z3.Select(args.dis, k) == LEN(c))))))
        A, ln = list_view(recorder_list(v))
        # ghost definition (recursion over the naturals): CNT(j) = how many of the first j children of x start a short tip branch
        CNT = z3.Function(fresh_name("CNT"), I, I)
        j = z3.Int(fresh_name("j"))
        memx = lambda q: z3.And(TC(q), LEN(q) + DIST(x, q) <= thre)
        E.assume(z3.And(CNT(0) == 0, z3.ForAll([j], z3.Implies(j >= 0, CNT(j + 1) == CNT(j) + z3.If(memx(ctx.kid(x, j)), 1, 0)), patterns=[CNT(j + 1)])))
        E.ghost["ctb-step"] = dict(x=x, A0=A, r0=ln, args=args, ctx=ctx, CNT=CNT, memx=memx)
        E.assumptions.add("ghost definition (recursion over the naturals), one per leave step of CutShortTipBranch: CNT(j) = number of short tip-chain children among the first j children")
        E.assumptions.add("ghost identification: the square root the code takes for (node, k-th child) is DIST(node, child) (same sum of squares, both roots non-negative)")
        E.assumptions.add("list-model: the child results handed to CutShortTipBranch._leave are a read-only list of Optional[(float, Node handle)] entries (pyvc.ext_C06.OptPairList)")
        E.assumptions.add("list-model: handles built by a comprehension over a symbolic array are stored by their indices (pyvc.ext_C08.ObjList)")
        return args

    def ghost_leave(E, v, x, ctx):
        """every child of x that starts a short tip branch now sits in `removals` at position r0 + (number of such children before it)"""
        st = E.ghost["ctb-step"]
        g = G6(E).fields["at"]
        c = z3.Int(fresh_name("c"))
        st["at_old"] = g.arr
        g.arr = z3.Lambda([c], z3.If(z3.And(ctx.R(c), sel(ctx.P, c) == x, st["memx"](c)), st["r0"] + st["CNT"](ctx.rank(c)), sel(g.arr, c)))

    def leave_result(E):
        from swcgeom.core.tree import Tree

        if E.branch(fresh("bool", "root_result_is_none")):
            return None
        t = E.top_old["x"]
        live = E.cur_frame.lookup("x") if E.cur_frame is not None else None
        return (fresh("real", "root_len"), Obj(Tree.Node, dict(attach=live, idx=fresh("int", "root_at"), names=t.fields["names"])))

    def recorder_list(fr_or_vars):
        """the list the recording callback appends to: the free variable X of `lambda br: X.append(...)`, last entry of self.callbacks
        (found through the closure, so that the carrier's local may have any name)"""
        import ast as _ast

        me = fr_or_vars.lookup("self") if hasattr(fr_or_vars, "lookup") else fr_or_vars["self"]
        lam = me.fields["callbacks"].items[-1]
        body = getattr(lam.node, "body", None)
        name = "removals"
        if isinstance(body, _ast.Call) and isinstance(body.func, _ast.Attribute) and isinstance(body.func.value, _ast.Name):
            name = body.func.value.id
        return lam.frame.lookup(name)

    def for_inv(which):
        """_leave's loop over the child results at x: `removals` has grown by exactly the short tip-chain children among the first k,
        the j-th child (if it is one) at position r0 + CNT(j)"""
        def f(E, v, o, entry):
            st = E.ghost.get("ctb-step")
            if st is None:
                return False
            x, A0, r0, ctx, CNT, memx = st["x"], st["A0"], st["r0"], st["ctx"], st["CNT"], st["memx"]
            t = v["n"].fields["attach"]
            P = col(t, "pid").arr
            A, ln = list_view(recorder_list(v))
            k = to_z3(v["_k0"], "int")
            a, j = z3.Int(fresh_name("a")), z3.Int(fresh_name("j"))
            if which == "earlier-entries-kept-and-one-new-entry-per-short-tip-chain-child-so-far":
                return z3.And(ln == r0 + CNT(k), CNT(k) >= 0, z3.ForAll([a], z3.Implies(z3.And(a >= 0, a < r0), sel(A, a) == sel(A0, a))))
            if which == "counts-never-decrease":
                return z3.ForAll([j], z3.Implies(z3.And(0 <= j, j <= k), z3.And(CNT(j) >= 0, CNT(j) <= CNT(k))))
            if which == "short-tip-chain-children-seen-so-far-sit-at-their-count":
                return z3.ForAll([j], z3.Implies(z3.And(0 <= j, j < k, memx(ctx.kid(x, j))), z3.And(CNT(j) < CNT(k), sel(A, r0 + CNT(j)) == ctx.kid(x, j))))
            if which == "new-entries-are-short-tip-chain-children-seen-so-far":
                q = sel(A, a)
                return z3.ForAll([a], z3.Implies(z3.And(a >= r0, a < ln), z3.And(ctx.R(q), sel(P, q) == x, ctx.rank(q) >= 0, ctx.rank(q) < k, memx(q), a == r0 + CNT(ctx.rank(q)))))
            raise KeyError(which)

        return f

    def for_hint(E, v):
        """iteration k appended (at most) the k-th child: name the appended value before the invariant is re-proved"""
        st = E.ghost.get("ctb-step")
        if st is None or "_k0" not in v or "n" not in v:
            return
        x, ctx = st["x"], st["ctx"]
        k = to_z3(v["_k0"], "int") - 1  # the iteration just completed
        A, ln = list_view(recorder_list(v))
        if "br" in v and v.get("child") is None and "path" in v:  # this iteration recorded a branch
            c = ctx.kid(x, k)
            E.prove("CutShortTipBranch.__call__/step/the-recorded-node-is-the-child-of-this-iteration", z3.And(sel(A, ln - 1) == c, ctx.rank(c) == k, sel(ctx.P, c) == x, ctx.R(c)), "annotation")

    def leave_hint(E, v):
        """leave step at x: how the ghost inverse `at` and the list changed, piece by piece"""
        st = E.ghost.get("ctb-step")
        if st is None or "at_old" not in st:
            return
        x, A0, r0, ctx, CNT, memx = st["x"], st["A0"], st["r0"], st["ctx"], st["CNT"], st["memx"]
        A, ln = list_view(recorder_list(v))
        at1, at0 = G6(E).fields["at"].arr, st["at_old"]
        P = ctx.P
        a, c = z3.Int(fresh_name("a")), z3.Int(fresh_name("c"))
        pre = "CutShortTipBranch.__call__/step/"
        E.prove(pre + "positions-of-nodes-under-other-parents-unchanged", z3.ForAll([c], z3.Implies(z3.And(ctx.R(c), sel(P, c) != x), sel(at1, c) == sel(at0, c))), "annotation")
        E.prove(pre + "earlier-entries-kept-and-they-hang-under-other-parents", z3.And(ln >= r0, z3.ForAll([a], z3.Implies(z3.And(a >= 0, a < r0), z3.And(sel(A, a) == sel(A0, a), sel(P, sel(A, a)) != x)))), "annotation")
        E.prove(pre + "new-entries-are-the-short-tip-chain-children-of-this-furcation-at-their-positions",
                z3.ForAll([a], z3.Implies(z3.And(a >= r0, a < ln), z3.And(ctx.nkids(x) >= 2, ctx.R(sel(A, a)), sel(P, sel(A, a)) == x, memx(sel(A, a)), sel(at1, sel(A, a)) == a))), "annotation")
        E.prove(pre + "every-short-tip-chain-child-of-this-furcation-is-listed-at-its-position",
                z3.Implies(ctx.nkids(x) >= 2, z3.ForAll([c], z3.Implies(z3.And(ctx.R(c), sel(P, c) == x, memx(c)), z3.And(sel(at1, c) >= r0, sel(at1, c) < ln, sel(A, sel(at1, c)) == c)))), "annotation")

    FOR_INVS = ["earlier-entries-kept-and-one-new-entry-per-short-tip-chain-child-so-far", "counts-never-decrease",
                "short-tip-chain-children-seen-so-far-sit-at-their-count", "new-entries-are-short-tip-chain-children-seen-so-far"]
    FOR_LOOP = dict(invariant=[(w, for_inv(w)) for w in FOR_INVS], modifies=[lambda eng, fr: recorder_list(fr)])

    def result_of(E):
        calls = [kw for nm, kw in E.call_log if nm == "to_subtree"]
        return calls[0] if len(calls) == 1 else None

    def post(which):
        def f(E, v, o):
            res, t = v["result"], o["x"]
            c = result_of(E)
            ctx = E.ghost.get("last-traverse-ctx")
            if which == "callbacks-restored":
                cb1, cb0 = v["self"].fields["callbacks"], o["self"].fields["callbacks"]
                return cb1.uid == cb0.uid and cb1.items is not None and len(cb1.items) == len(cb0.items) and all(p is q for p, q in zip(cb1.items, cb0.items))
            if c is None or ctx is None or res is not c["__result__"] or c["swc_like"] is not v["x"] or c["out_mapping"] is not None:
                return False
            gh = K["sub_ghost"](E, res)
            P, n = col(t, "pid").arr, nof(t)
            x, a, b = z3.Int(fresh_name("x")), z3.Int(fresh_name("a")), z3.Int(fresh_name("b"))
            Rg = lambda q: z3.And(q >= 0, q < n)
            if which == "a-furcation-is-a-node-that-two-distinct-rows-name-as-parent":
                return z3.ForAll([x], z3.Implies(Rg(x), (ctx.nkids(x) >= 2) == z3.Exists([a, b], z3.And(Rg(a), Rg(b), a != b, sel(P, a) == x, sel(P, b) == x))))
            if which == "removal-closure-is-removed-or-below-a-removed-node":
                return K["subtree_clause"](E, which, res, t, gh, seed=seed_pred(E, ctx, t))
            return K["subtree_clause"](E, which, res, t, gh)

        return f

    def furc_hint(E, v):
        ctx, c = E.ghost.get("last-traverse-ctx"), result_of(E)
        if ctx is None or c is None:
            return
        t = c["swc_like"]
        P, n = col(t, "pid").arr, nof(t)
        x, a, b = z3.Int(fresh_name("x")), z3.Int(fresh_name("a")), z3.Int(fresh_name("b"))
        Rg = lambda q: z3.And(q >= 0, q < n)
        k0, k1 = ctx.kid(x, 0), ctx.kid(x, 1)
        pre = "CutShortTipBranch.__call__/step/"
        E.prove(pre + "the-first-two-children-are-two-distinct-rows", z3.ForAll([x], z3.Implies(z3.And(Rg(x), ctx.nkids(x) > 1), z3.And(Rg(k0), Rg(k1), k0 != k1, sel(P, k0) == x, sel(P, k1) == x))), "annotation")
        E.prove(pre + "two-distinct-rows-with-one-parent-take-two-places-among-its-children",
                z3.ForAll([a, b], z3.Implies(z3.And(Rg(a), Rg(b), a != b, sel(P, a) == sel(P, b), sel(P, a) >= 0), ctx.nkids(sel(P, a)) > 1)), "annotation")

    def listed_hint(E, v):
        ctx, c = E.ghost.get("last-traverse-ctx"), result_of(E)
        if ctx is None or c is None:
            return
        t = c["swc_like"]
        seed = seed_pred(E, ctx, t)
        A, ln = list_view(c["removals"])
        x, j = z3.Int(fresh_name("x")), z3.Int(fresh_name("j"))
        E.prove("CutShortTipBranch.__call__/step/listed-iff-first-node-of-a-short-tip-branch-at-a-furcation",
                z3.ForAll([x], z3.Implies(z3.And(x >= 0, x < nof(t)), z3.Exists([j], z3.And(j >= 0, j < ln, sel(A, j) == x)) == seed(x))), "annotation")

    POSTS = ["a-furcation-is-a-node-that-two-distinct-rows-name-as-parent", "removal-closure-is-removed-or-below-a-removed-node",
             "survivors-are-exactly-the-nodes-outside-the-closure-in-order", "survivors-keep-every-attribute",
             "ids-are-positions-and-parent-relation-kept", "result-shares-no-storage-with-the-input", "callbacks-restored"]
    LABEL = {"removal-closure-is-removed-or-below-a-removed-node": "removed-iff-first-node-of-a-tip-branch-within-the-threshold-at-a-furcation-or-below-a-removed-node",
             "callbacks-restored": "the-callback-list-is-as-it-was"}
    SC = dict(requires=[K["wf_clause"](w, "x") for w in K["WF"]],
              ensures=[(LABEL.get(nm, nm), post(nm)) for nm in POSTS],
              inlined_loops={LEAVE: {0: FOR_LOOP, 1: K["WALK_LOOP"]}},
              options=dict(traverse_rule=Rule(J, Ql=Ql, modifies=[lambda E: (recorder_list(E.cur_frame), "int"), G6], leave_args_at=leave_args, leave_result=leave_result, ghost_leave=ghost_leave),
                           models=ext_C06.MODELS,
                           hints={"post/a-furcation-is-a-node-that-two-distinct-rows-name-as-parent": furc_hint, "loop0/preserved/earlier-entries-kept-and-one-new-entry-per-short-tip-chain-child-so-far": for_hint, "leave/invariant-preserved": leave_hint,
                                  }))
    R.add(f"{TT}:CutShortTipBranch.__call__", prop="C06",
          variants={"no user callback": setup(False), "with a user callback": setup(True)},
          **SC,
          notes="_leave is interpreted from source (inlined) under the traverse rule for ANY number of children; to_subtree through its proved contract; "
                "tip branch = a child of a furcation below which a single chain runs to a tip; its length is measured from the furcation")
    # the same contract on trees of a fixed small number of rows
    R.add(f"{TT}:CutShortTipBranch.__call__", prop="C06", variants={f"{fixed_name(m)}, no user callback": setup(False, size=m) for m in FIXED_SIZES}, **SC, notes=FIXED_NOTE)


_reg6h = register


def register(R):  # noqa: F811
    _reg6h(R)
    register_short_tip_call(R)
