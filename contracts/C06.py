"""C06 — subtree extraction and pruning: sidecar contracts."""
import z3

from pyvc.spec import Registry
from pyvc.values import SArr, Sym, fresh_name, to_z3, zint

SUB = "swcgeom/core/swc_utils/subtree.py"
REMOVAL = -2


def register(R: Registry):
    def setup(S):
        n = S.int("n")
        S.assume(n.z >= 0)
        sid, spid = S.arr("int", n=n, name="sub_id"), S.arr("int", n=n, name="sub_pid")
        sid.frozen = spid.frozen = True
        # ghost: position of each kept entry's parent entry
        pp = z3.Function("parent_pos", z3.IntSort(), z3.IntSort())
        i, j = z3.Ints("i j")
        kept = lambda t: z3.And(t >= 0, t < n.z, z3.Select(sid.arr, t) != REMOVAL)
        S.assume(z3.ForAll([i, j], z3.Implies(z3.And(kept(i), kept(j), i != j), z3.Select(sid.arr, i) != z3.Select(sid.arr, j))))
        S.assume(z3.ForAll([i], z3.Implies(z3.And(kept(i), z3.Select(spid.arr, i) != -1), z3.And(kept(pp(i)), z3.Select(sid.arr, pp(i)) == z3.Select(spid.arr, i)))))
        return dict(sub=(sid, spid), sid=sid, spid=spid)

    def post(which):
        def f(E, v, o):
            (new_id, new_pid), mapping = v["result"]
            sid, spid = o["sid"], o["spid"]
            kappa, rho = mapping.kappa, mapping.rho
            n, m = sid.nz(), mapping.nz()
            k, i = z3.Ints(fresh_name("k") + " " + fresh_name("i"))
            if which == "mapping":
                return z3.And(
                    m <= n,
                    z3.ForAll([k], z3.Implies(z3.And(k >= 0, k < m), z3.And(kappa(k) >= 0, kappa(k) < n, z3.Select(sid.arr, kappa(k)) != REMOVAL, mapping.get(k).z == z3.Select(sid.arr, kappa(k))))),
                    z3.ForAll([k, i], z3.Implies(z3.And(0 <= k, k < i, i < m), kappa(k) < kappa(i))),
                    z3.ForAll([i], z3.Implies(z3.And(i >= 0, i < n, z3.Select(sid.arr, i) != REMOVAL), z3.And(rho(i) >= 0, rho(i) < m, kappa(rho(i)) == i))),
                )
            if which == "ids":
                return z3.And(new_id.nz() == m, z3.ForAll([k], z3.Implies(z3.And(k >= 0, k < m), new_id.get(k).z == k)))
            if which == "pids":
                p = z3.Select(spid.arr, kappa(k))
                q = new_pid.get(k).z
                return z3.And(new_pid.nz() == m, z3.ForAll([k], z3.Implies(z3.And(k >= 0, k < m), z3.And(
                    z3.Implies(p == -1, q == -1),
                    z3.Implies(p != -1, z3.And(q >= 0, q < m, mapping.get(q).z == p))))))
            if which == "fresh":
                return all(a.uid not in E.entry_uids for a in (new_id, new_pid, mapping))

        return f

    R.add(
        f"{SUB}:to_sub_topology",
        prop="C06",
        setup=setup,
        ensures=[("mapping-is-the-kept-ids-in-order", post("mapping")), ("new-ids-are-positions", post("ids")),
                 ("parents-remapped-roots-kept", post("pids")), ("outputs-are-fresh", post("fresh"))],
    )


# =========================================================================== propagate_removal (traverse client rule)
def register_propagate(R):
    from contracts.C04 import depth
    from pyvc.traverse_rule import Rule

    I, B = z3.IntSort(), z3.BoolSort()
    Rm = z3.Function("Rm", I, B)   # ghost: node is marked, or lies below a marked node (least solution on a well-formed table)

    def setup(S):
        n = S.int("n")
        S.assume(n.z >= 1)
        new_ids, pids = S.arr("int", n=n, name="new_ids"), S.arr("int", n=n, name="pids")
        pids.frozen = True  # only the id array may be written (the function documents that it marks in place)
        i = z3.Int("i_pr")
        P, A = pids.arr, new_ids.arr
        R_ = lambda t: z3.And(t >= 0, t < n.z)
        # well-formed parent table (the marks live in the id array, so ids themselves are not positions here)
        S.assume(z3.Select(P, 0) == -1)
        S.assume(z3.ForAll([i], z3.Implies(z3.And(i > 0, i < n.z), R_(z3.Select(P, i)))))
        S.assume(depth(0) == 0)
        S.assume(z3.ForAll([i], z3.Implies(z3.And(i > 0, i < n.z), z3.And(depth(i) == depth(z3.Select(P, i)) + 1, depth(i) > 0))))
        # ghost definition of the removal closure over the ENTRY marks
        S.assume(z3.ForAll([i], z3.Implies(R_(i), Rm(i) == z3.Or(z3.Select(A, i) == REMOVAL, z3.And(z3.Select(P, i) >= 0, Rm(z3.Select(P, i)))))))
        return dict(topology=(new_ids, pids))

    def J(E, v, ENT, LEFT, ctx):
        cur, old = v["new_ids"].arr, E.top_old["topology"][0].arr
        x = z3.Int(fresh_name("x"))
        return z3.ForAll([x], z3.Implies(ctx.R(x), z3.If(z3.Select(ENT, x), z3.And((z3.Select(cur, x) == REMOVAL) == Rm(x), z3.Implies(z3.Not(Rm(x)), z3.Select(cur, x) == z3.Select(old, x))),
                                                         z3.Select(cur, x) == z3.Select(old, x))))

    def Qe(E, v, x, val, ctx):
        return to_z3(E.truth(val), "bool") == Rm(x)

    def post(which):
        def f(E, v, o):
            new_ids2, pids2 = v["result"]
            ids0, pids0 = o["topology"]
            n = ids0.nz()
            x = z3.Int(fresh_name("x"))
            R_ = lambda t: z3.And(t >= 0, t < n)
            if which == "marked-exactly-the-removal-closure":
                return z3.And(new_ids2.nz() == n, z3.ForAll([x], z3.Implies(R_(x), (new_ids2.get(x).z == REMOVAL) == Rm(x))))
            if which == "survivors-keep-their-id":
                return z3.ForAll([x], z3.Implies(z3.And(R_(x), z3.Not(Rm(x))), new_ids2.get(x).z == ids0.get(x).z))
            if which == "parents-returned-as-a-fresh-equal-copy":
                return z3.And(pids2.uid not in E.entry_uids, pids2.nz() == n, z3.ForAll([x], z3.Implies(R_(x), pids2.get(x).z == pids0.get(x).z)))
            if which == "marks-in-place":
                return new_ids2 is v["topology"][0]

        return f

    R.add(f"{SUB}:propagate_removal", prop="C06", setup=setup,
          ensures=[(nm, post(nm)) for nm in ("marked-exactly-the-removal-closure", "survivors-keep-their-id", "parents-returned-as-a-fresh-equal-copy", "marks-in-place")],
          options=dict(traverse_rule=Rule(J, Qe=Qe, modifies=["new_ids"], enter_kind="bool")),
          notes="the id array is marked IN PLACE (documented); callers must hand in a private copy — that is an obligation of to_subtree")


_reg6 = register


def register(R):  # noqa: F811
    _reg6(R)
    register_propagate(R)
