"""C17 — point cloud -> spanning tree (swcgeom/transforms/mst.py): sidecar contracts (no edit of /repo).

Carriers: PointsToCuntzMST.__call__ (the Prim-style loop over a masked cost matrix and the construction of the returned tree),
PointsToCuntzMST.__init__, PointsToMST.__init__, Tree.from_data_frame.  Library models of this property live in pyvc/ext_C17.py.

What is proved for __call__ (n symbolic, K = self.furcations, bf = self.bf, exclude_soma, sort all symbolic):
  * distance clause (annotation point after `dis = ...`): every entry of `dis` is the Euclidean distance of the two rows of the (soma +) cloud, for whatever
    expression the carrier computes (norm of differences, sqrt of summed squared differences, Gram matrix ...), over the reals; float clause: that expression
    has no cancellation of rounded operands (static forward-error rule, see pyvc/ext_C17.FP); then the matrix is renamed to the abstract ghost function edist,
    whose three properties used later (>= 0, symmetric, zero diagonal) are proved from its definition;
  * step contract of the loop (obligations `loop-start/...`, `loop-step/...`, kind postcondition): the per-iteration form of the property, see STEP below;
  * spanning clause: after the loop every row is connected; the parent table is a tree rooted at row 0 (ghost depth
    witness, the WFtree form of contracts/common.py); the columns handed to the DataFrame carry id = 0..n-1, the
    input points in order (soma first when given), type soma / glia;
  * cap clause: the children of every non-exempt node inject into 1..K (ghost child rank) and furcations[i] counts
    them (bijection children(i) <-> 1..furcations[i]);
  * greedy clause, per iteration (annotation right after `(i, j) = ...`): the chosen edge joins a connected,
    unsaturated i to an unconnected j and minimises dis[i, j] + bf * acc[i] over exactly that set; and as a
    postcondition over the whole run (ghost attachment order pos, a permutation with parents first): every row v was,
    at its position of the order, the end of a cheapest edge from the rows attached earlier and unsaturated at that
    time (K-th child not yet attached) to the rows not attached earlier.  The product bf * acc[a] of two symbolic reals
    is the abstract umul(bf, acc[a]) (see pyvc/ext_C17.rmul): proved for every binary function in its place;
  * path-length clause: acc[v] = acc[pid[v]] + dis[pid[v], v], acc[0] = 0;
  * safety: ma.argmin always has an unmasked entry to return; all indexings in bounds; shapes match;
  * frame: `self` and the input point cloud are not written.
Ghost state (ghost code only, never assumed): g_perm / g_pos attachment order and its inverse, g_crank / g_kid rank
of a node among its siblings and its inverse, g_depth, g_nk number of children.  Updated at the annotation point after `(i, j) = ...`.
The carrier's own child counter is not named: the coupling invariant `some-program-array-counts-the-children` says that some integer array local equals g_nk.
The tail of the function is REAL: the DataFrame built from the loop's arrays (pd.DataFrame.from_dict is a library model), Tree.from_data_frame
through the contract verified on the real function below (used modularly, private overlay), sort_tree / _sort_tree / DictSWC.copy inlined,
sort_nodes_impl through the contract proved under C05 (DEPENDS), whose ghost symbols are defined for the loop's table at the call.  The
`returned-tree/...` postconditions speak about the RETURNED tree: a one-to-one map sg between its rows and the input rows (C05's index
array when sort is on, the identity otherwise), positions / radius / types through sg, the single root = input row 0, parent ids = the
greedy attachments read through sg, the branching cap on the returned parent column, ids 0..n-1 and parents first when sorted.
Defect found here and FIXED in /repo (known_findings.jsonl): with column names other than the default ones and sort=True, _sort_tree stores the new numbering under "id" / "pid" instead
of the given names; the three clauses marked below were not provable for that variant before the fix.
MST optimality: the postcondition `mst-premise/...` (bf = 0, no limit: every point was attached by a lightest edge across the cut of the points attached before it)
is the premise of the cut-property lemma lean/Prim.lean (prim_tree_is_minimum / prim_tree_total_is_least, Lean 4 + Mathlib, checked by vcheck); the instantiation
(V := rows, w := edist, par := pid, pos := g_pos) is by inspection.  In float32 "minimum" holds up to rounding only: bounded stand-in (Kruskal).
"""
import z3

from pyvc import ext_C17 as X
from pyvc.spec import Contract, Registry
from pyvc.values import NArr, Obj, PDict, PList, SArr, Sym, fresh_name, to_z3, zint

X.install()

DEPENDS = ["C05"]  # the tail of __call__ renumbers the tree through sort_tree -> _sort_tree -> sort_nodes_impl (contract proved under C05)

MST = "swcgeom/transforms/mst.py"
I = z3.IntSort()


class _Overlay:
    """the registry seen while verifying __call__: the global one plus assumed contracts that cut off the tail of the
    function (kept local so that no other carrier's call sites are affected)"""

    def __init__(self, base, local):
        self.base, self.local = base, local

    def get(self, key, default=None):
        c = self.local.get(key)
        return c if c is not None else self.base.get(key, default)


# ----------------------------------------------------------------------------- state views
def _iv(x):
    return to_z3(x, "int")


class _Held:
    def __init__(self, arr):
        self.arr = arr


def source_names():
    """Names of the locals at which the annotation points of this contract are anchored, READ FROM THE CURRENT SOURCE by the part they play (so that renaming
    one of them does not detach the contract): the pair assigned from np.unravel_index (the chosen edge), the matrix read at that pair inside the loop (the
    distances), the dict handed to DataFrame.from_dict, the local assigned from Tree.from_data_frame.  Anything not found keeps its baseline name."""
    import ast as _ast

    out = dict(i="i", j="j", dis="dis", dic="dic", t="t")
    try:
        from pyvc import extract

        node = extract.find(f"{MST}:{FN}")[0]
    except Exception:  # reported when the carrier is verified, not at import time
        return out

    def called(x, attr):
        return isinstance(x, _ast.Call) and ((isinstance(x.func, _ast.Attribute) and x.func.attr == attr) or (isinstance(x.func, _ast.Name) and x.func.id == attr))

    loops = [x for x in node.body if isinstance(x, _ast.For)]
    for st in _ast.walk(node):
        if not isinstance(st, _ast.Assign) or len(st.targets) != 1:
            continue
        tg = st.targets[0]
        if called(st.value, "unravel_index") and isinstance(tg, _ast.Tuple) and len(tg.elts) == 2 and all(isinstance(e, _ast.Name) for e in tg.elts):
            out["i"], out["j"] = tg.elts[0].id, tg.elts[1].id
        if called(st.value, "from_data_frame") and isinstance(tg, _ast.Name):
            out["t"] = tg.id
        if called(st.value, "from_dict") and st.value.args and isinstance(st.value.args[0], _ast.Name):
            out["dic"] = st.value.args[0].id
    if loops:
        pair = (out["i"], out["j"])
        read = {x.value.id for x in _ast.walk(loops[0]) if isinstance(x, _ast.Subscript) and isinstance(x.ctx, _ast.Load) and isinstance(x.value, _ast.Name)
                and isinstance(x.slice, _ast.Tuple) and tuple(getattr(e, "id", None) for e in x.slice.elts) == pair}
        before = {t.id for st in node.body[: node.body.index(loops[0])] if isinstance(st, _ast.Assign) for t in st.targets if isinstance(t, _ast.Name)}
        if len(read & before) == 1:
            out["dis"] = (read & before).pop()
    return out


SRC = dict(i="i", j="j", dis="dis", dic="dic", t="t")  # filled by register()
ROLES = ("pid", "acc", "conn", "mask", "dis")
_ROLE_CACHE = {}


def find_roles(v):
    """Which local of the carrier plays which part in the loop, found by WHAT IT IS and not by what it is called (a renamed local stays attached where
    the source re-anchoring of pyvc/align.py has no baseline text to align with, or the rename came with other edits):
      mask  the boolean (n, n) matrix;          dis   the real (n, n) matrix that exists when the loop is reached (a matrix built per iteration is not a candidate);
      conn  the boolean 1-D array;              acc   the real 1-D array;
      pid   the integer 1-D array that does not start as all zeros (the child counter does: see the coupling invariant), i.e. whose cells are -1 before the loop.
    A part with no candidate or several keeps its baseline name (the contract then reports that the carrier changed shape, as before)."""
    mine = {nm: x for nm, x in v.items() if not nm.startswith(("g_", "_"))}
    out = {}

    def only(role, cands):
        cands = [nm for nm in cands]
        out[role] = cands[0] if len(cands) == 1 else (role if role in v or not cands else None)

    m2 = {nm: x for nm, x in mine.items() if isinstance(x, X.M2)}
    only("mask", [nm for nm, x in m2.items() if x.kind == "bool"])
    only("dis", [nm for nm, x in m2.items() if x.kind == "real"])
    if isinstance(v.get(SRC["dis"]), X.M2) and v[SRC["dis"]].kind == "real":
        out["dis"] = SRC["dis"]  # the matrix the loop reads at the chosen pair (read from the source)
    v1 = {nm: x for nm, x in mine.items() if isinstance(x, X.V1) and not isinstance(x, X.M2)}
    only("conn", [nm for nm, x in v1.items() if x.kind == "bool"])
    only("acc", [nm for nm, x in v1.items() if x.kind == "real"])
    probe = z3.Int("role_probe")
    only("pid", [nm for nm, x in v1.items() if x.kind == "int" and z3.is_true(z3.simplify(z3.Implies(probe > 0, X.sel1(x.arr, probe) == -1)))])
    # candidates for the child counter (coupling invariant): the integer arrays with one cell per row that are all zero when the loop is reached - as the ghost count is.
    # (Any other integer array in the frame - an index array of the pre-processing, say - is not a candidate: the invariant could not tell it from the counter.)
    n = v[out["dis"]].nz() if out.get("dis") in v and isinstance(v[out["dis"]], X.M2) else None
    out["counters"] = [nm for nm, x in v1.items() if x.kind == "int" and n is not None and z3.is_true(z3.simplify(x.nz() == n))
                       and z3.is_true(z3.simplify(X.sel1(x.arr, probe) == 0))]
    return out


def roles(v):
    """role -> local name; decided when the loop is reached (the arrays hold their initial contents there) and kept for the rest of the run of this carrier text"""
    r = _ROLE_CACHE.get("roles")
    if r is not None and all(r[x] in v for x in ROLES):
        return r
    f = find_roles(v)
    if all(f.get(x) is not None and f[x] in v for x in ROLES):
        _ROLE_CACHE["roles"] = f
        return f
    return {x: (f.get(x) or x) for x in ROLES}


class St:
    """z3 view of the loop state held in the carrier's variables (program + ghost)."""

    def __init__(self, v):
        me = v["self"]
        rl = roles(v)
        v = dict(v, **{x: v[rl[x]] for x in ROLES if rl[x] in v})
        self.K = _iv(me.fields["furcations"])
        self.ex = to_z3(me.fields["exclude_soma"], "bool")
        self.bf = to_z3(me.fields["bf"], "real")
        self.n = v["dis"].nz() if isinstance(v.get("dis"), X.M2) else _iv(v["n"])  # the number of rows of the distance matrix (= points.shape[0], proved at `an-n-by-n-matrix`)
        self.k = _iv(v["_k0"]) if "_k0" in v else None
        # furc: the GHOST child count g_nk (maintained by the ghost step), not the program's own counter: which local array of the
        # carrier counts the children (and under which name) is left to the coupling invariant `some-program-array-counts-the-children`
        self.pid, self.acc, self.furc, self.conn, self.mask, self.dis = (v[x] for x in ("pid", "acc", "g_nk", "conn", "mask", "dis"))
        self.pos, self.perm, self.crank, self.kid, self.depth = (v[x] for x in ("g_pos", "g_perm", "g_crank", "g_kid", "g_depth"))
        self.counters = [x for nm, x in v.items() if not nm.startswith("g_") and isinstance(x, X.V1) and x.kind == "int"]
        if rl.get("counters"):
            self.counters = [v[nm] for nm in rl["counters"] if nm in v]

    FIELDS = ("pid", "acc", "furc", "conn", "mask", "dis", "pos", "perm", "crank", "kid", "depth")

    def freeze(self):
        """a view of the CURRENT contents (the z3 terms held now), unaffected by later stores"""
        import copy

        c = copy.copy(self)
        for x in self.FIELDS:
            setattr(c, x, _Held(getattr(self, x).arr))
        return c

    def inr(self, a):
        return z3.And(0 <= a, a < self.n)

    def Pid(self, a):
        return X.sel1(self.pid.arr, a)

    def Acc(self, a):
        return X.sel1(self.acc.arr, a)

    def Furc(self, a):
        return X.sel1(self.furc.arr, a)

    def Conn(self, a):
        return X.sel1(self.conn.arr, a)

    def Mask(self, a, b):
        return X.sel2(self.mask.arr, a, b)

    def Dis(self, a, b):
        return X.sel2(self.dis.arr, a, b)

    def Pos(self, a):
        return X.sel1(self.pos.arr, a)

    def Perm(self, a):
        return X.sel1(self.perm.arr, a)

    def Crank(self, a):
        return X.sel1(self.crank.arr, a)

    def Kid(self, a, r):
        return X.sel2(self.kid.arr, a, r)

    def Depth(self, a):
        return X.sel1(self.depth.arr, a)

    def sat(self, a):
        """node a may take no further child: K != -1, furcations[a] >= K, and a is not the exempt soma"""
        return z3.And(self.K != -1, self.Furc(a) >= self.K, z3.Or(z3.Not(self.ex), a != 0))

    def cost(self, a, b):
        """edge length plus balancing factor times the path length of the connected end point: dis[a, b] + bf * acc[a]
        (the product of the two symbolic reals is the abstract umul(bf, acc[a]) of pyvc/ext_C17.py, see rmul)"""
        return self.Dis(a, b) + X.rmul(None, self.bf, self.Acc(a))

    def sat_at(self, a, t):
        """node a was saturated when position t of the attachment order was filled: its K-th child came earlier"""
        return z3.And(self.K != -1, z3.Or(z3.Not(self.ex), a != 0), self.Furc(a) >= self.K, self.Pos(self.Kid(a, self.K)) < t)

    def greedy_history(self, upto_connected):
        """every attached node v was, when it was attached (position pos[v] of the order), the end point of a cheapest
        edge from the nodes attached earlier and not saturated at that time to the nodes not attached earlier"""
        v, a, b = z3.Ints("gh_v gh_a gh_b")  # fixed bound names: two constructions over the same state are the same term
        p = self.Pid(v)
        guard = [self.inr(v), v != 0, self.inr(a), self.inr(b), self.Pos(a) < self.Pos(v), self.Pos(b) >= self.Pos(v), z3.Not(self.sat_at(a, self.Pos(v)))]
        if upto_connected:
            guard.insert(2, self.Conn(v))
        # trigger: the two edge lengths that the conclusion compares (keeps the instantiation of this three-variable
        # hypothesis away from the other obligations)
        return z3.ForAll([v, a, b], z3.Implies(z3.And(*guard), self.cost(p, v) <= self.cost(a, b)), patterns=[z3.MultiPattern(self.Dis(p, v), self.Dis(a, b))])

    def cand(self, a, b):
        """(a, b) is a candidate edge: a connected and unsaturated, b not yet connected"""
        return z3.And(self.Conn(a), z3.Not(self.Conn(b)), z3.Not(self.sat(a)))


def _q(*names):
    return [z3.Int(fresh_name(x)) for x in names]


def inv(which):
    def f(E, v, o):
        r = _inv(which, E, v, o)
        E.ghost[("c17-inv", which)] = r
        return r

    return f


def _inv(which, E, v, o):
    s = St(v)
    n, k = s.n, s.k
    a, b, r = _q("a", "b", "r")
    if which == "order-is-a-bijection":
        return z3.And(
            s.Pos(0) == 0,
            z3.ForAll([a], z3.Implies(s.inr(a), z3.And(s.inr(s.Pos(a)), s.Perm(s.Pos(a)) == a))),
            z3.ForAll([b], z3.Implies(s.inr(b), z3.And(s.inr(s.Perm(b)), s.Pos(s.Perm(b)) == b))),
        )
    if which == "connected-are-the-first-k+1-of-the-order":
        return z3.ForAll([a], z3.Implies(s.inr(a), s.Conn(a) == (s.Pos(a) <= k)))
    if which == "parent-table":
        p = s.Pid(a)
        return z3.And(
            s.Pid(0) == -1,
            z3.ForAll([a], z3.Implies(z3.And(s.inr(a), a != 0), z3.If(s.Conn(a), z3.And(s.inr(p), s.Conn(p), s.Pos(p) < s.Pos(a)), p == -1))),
        )
    if which == "depth-witness":
        return z3.And(
            s.Depth(0) == 0,
            z3.ForAll([a], z3.Implies(z3.And(s.inr(a), a != 0, s.Conn(a)), z3.And(s.Depth(a) == s.Depth(s.Pid(a)) + 1, s.Depth(a) > 0))),
        )
    if which == "path-length":
        p = s.Pid(a)
        return z3.And(
            s.Acc(0) == 0,
            z3.ForAll([a], z3.Implies(z3.And(s.inr(a), a != 0), z3.If(s.Conn(a), s.Acc(a) == s.Acc(p) + s.Dis(p, a), s.Acc(a) == 0))),
        )
    if which == "furcations-count-the-children":
        p, c = s.Pid(a), s.Kid(a, r)
        return z3.And(
            z3.ForAll([a], z3.Implies(s.inr(a), z3.And(s.Furc(a) >= 0, z3.Implies(z3.Not(s.Conn(a)), s.Furc(a) == 0)))),
            z3.ForAll([a], z3.Implies(z3.And(s.inr(a), a != 0, s.Conn(a)), z3.And(1 <= s.Crank(a), s.Crank(a) <= s.Furc(p), s.Kid(p, s.Crank(a)) == a))),
            z3.ForAll([a, r], z3.Implies(z3.And(s.inr(a), 1 <= r, r <= s.Furc(a)), z3.And(s.inr(c), c != 0, s.Conn(c), s.Pid(c) == a, s.Crank(c) == r))),
        )
    if which == "some-program-array-counts-the-children":
        # coupling of the program's bookkeeping with the ghost count: SOME integer array local of the carrier (whatever its
        # name) holds, for every row, the number of children attached so far
        return z3.Or(*[z3.ForAll([a], z3.Implies(s.inr(a), X.sel1(c.arr, a) == s.Furc(a))) for c in s.counters])
    if which == "cap":
        return z3.Implies(s.K != -1, z3.ForAll([a], z3.Implies(z3.And(s.inr(a), z3.Or(z3.Not(s.ex), a != 0)), s.Furc(a) <= s.K)))
    if which == "latest-node-has-no-children":
        return s.Furc(s.Perm(k)) == 0
    if which == "mask-characterisation":
        return z3.ForAll([a, b], z3.Implies(z3.And(s.inr(a), s.inr(b)), z3.Not(s.Mask(a, b)) == s.cand(a, b)))
    if which == "every-attachment-so-far-was-greedy":
        return s.greedy_history(True)
    raise KeyError(which)


INVS = ["order-is-a-bijection", "connected-are-the-first-k+1-of-the-order", "parent-table", "depth-witness", "path-length",
        "furcations-count-the-children", "cap", "latest-node-has-no-children", "mask-characterisation", "every-attachment-so-far-was-greedy",
        "some-program-array-counts-the-children"]  # the coupling comes last: a carrier whose bookkeeping differs must first face the clauses above


# ---------------------------------------------------------- step contract of the loop
# The loop body, run from an ARBITRARY state that satisfies the loop invariant, is verified against a step contract whose clauses are
# the per-iteration form of the property (mechanism anchors of C17: "Prim-style greedy loop over a masked cost matrix", "mask
# bookkeeping for connected points and saturated parents").  These are clauses of the property, not proof structure: they are emitted
# as obligations of kind `postcondition` (`.../loop-step/<clause>`, and `.../loop-start/<clause>` for the state in which the loop is
# entered) right before the loop invariant of the same content, which then finds them among its hypotheses.
STEP = {
    "connected-are-the-first-k+1-of-the-order": "exactly-the-points-attached-so-far-are-marked-connected",
    "parent-table": "every-connected-point-but-the-root-has-a-parent-that-was-connected-before-it-and-no-other-point-has-a-parent",
    "path-length": "path-length-of-every-connected-point-is-its-parents-plus-the-edge-length",
    "furcations-count-the-children": "the-children-of-every-point-are-numbered-1-to-its-child-count",
    "cap": "no-non-exempt-point-has-more-than-K-children",
    "mask-characterisation": "open-cells-of-the-mask-are-exactly-the-edges-from-a-connected-unsaturated-point-to-an-unconnected-point",
}
STEP_NOTE = "step contract of the loop (arbitrary iteration, arbitrary state satisfying the loop invariant): a clause of the property per iteration"
FN = "PointsToCuntzMST.__call__"


def step_hint(label, phase):
    def h(E, v):
        goal = E.ghost.get(("c17-inv", label))
        if goal is None:
            goal = _inv(label, E, v, None)
        E.prove(f"{FN}/{'loop-start' if phase == 'entry' else 'loop-step'}/{STEP[label]}", goal, "postcondition", STEP_NOTE)

    return h


def step_hints():
    return {f"loop0/{phase}/{label}": step_hint(label, phase) for label in STEP for phase in ("entry", "preserved")}


# ---------------------------------------------------------- annotation point: right after `(i, j) = ...`
def _pending(E, v):
    """the name-based trigger `asserts_after["i"]` also fires at `mask[i, :] = True`: only the first firing of an
    iteration (the assignment of the pair itself) is the annotation point"""
    return SRC["i"] in v and E.ghost.get("c17-annotated") is not v[SRC["i"]]


def after_pick(which):
    def f(E, v, o):
        if not _pending(E, v):
            return True
        s = St(v)
        i, j = _iv(v[SRC["i"]]), _iv(v[SRC["j"]])
        a, b = _q("a", "b")
        if which == "chosen-edge-joins-connected-unsaturated-to-unconnected":
            goal = z3.And(s.inr(i), s.inr(j), s.cand(i, j))
            E.prove(f"{FN}/loop-step/{which}", goal, "postcondition", STEP_NOTE)
            return goal
        if which == "chosen-edge-minimises-length-plus-bf-times-path-length-over-exactly-the-candidates":
            goal = z3.ForAll([a, b], z3.Implies(z3.And(s.inr(a), s.inr(b), s.cand(a, b)), s.cost(i, j) <= s.cost(a, b)))
            E.prove(f"{FN}/loop-step/{which}", goal, "postcondition", STEP_NOTE)
            return goal
        if which == "ghost-step":
            # ghost code (touches ghost arrays only): j takes position k+1 of the attachment order (swap), becomes the
            # (furcations[i]+1)-th child of i, one level below i
            k = s.k
            E.ghost["c17-pre"] = (s.freeze(), i, j)
            t, w = s.Pos(j), s.Perm(k + 1)
            s.perm.arr = z3.Store(z3.Store(s.perm.arr, t, w), k + 1, j)
            s.pos.arr = z3.Store(z3.Store(s.pos.arr, w, t), j, k + 1)
            rk = s.Furc(i) + 1
            s.furc.arr = z3.Store(s.furc.arr, i, rk)
            s.crank.arr = z3.Store(s.crank.arr, j, rk)
            old = s.kid.arr
            s.kid.arr = z3.Store(old, i, rk, j)
            s.depth.arr = z3.Store(s.depth.arr, j, s.Depth(i) + 1)
            E.ghost["c17-annotated"] = v[SRC["i"]]
            return True
        raise KeyError(which)

    return f


# ---------------------------------------------------------- annotation point: right after `dis = ...`
def after_dis(which):
    """The matrix the loop works on IS the matrix of Euclidean distances of the (soma +) points - proved for the expression the carrier
    computes, over the reals - and it is computed without cancellation of rounded quantities (float clause, static).  After that the
    matrix is renamed to the abstract ghost function edist (definition: the same expression), of which only edist >= 0, symmetry and
    the zero diagonal - each proved from the definition - are kept: the loop's proof stays in linear arithmetic."""
    def f(E, v, o):
        from pyvc.engine import Unsupported

        if E.ghost.get("c17-dis-annotated"):
            return True
        dis, P = v[SRC["dis"]], v["points"]
        if not (isinstance(dis, X.M2) and dis.kind == "real" and isinstance(P, X.Points)):
            return False
        n = P.nz()
        a, b = z3.Ints("ed_a ed_b")
        inr = z3.And(0 <= a, a < n, 0 <= b, b < n)
        if which == ROOT:
            # "rooted at the soma (or first point)": row 0 of the cloud the loop works on - the root of the tree - has the coordinates of the soma ARGUMENT, as real
            # numbers and whatever the dtypes of soma and cloud (a conversion that changes the value - a fractional soma pushed into an integer dtype - breaks it).
            # Emitted under the name and kind of the clause over the RETURNED tree (`returned-tree/...`, proved at the exit from the map sg); here the context
            # is straight-line code, so a wrong root is answered with a counter-model.
            goal = z3.simplify(z3.And(n >= 1, *[z3.Select(P.cols[c], z3.IntVal(0)) == _in_point(o, c, z3.IntVal(0)) for c in range(3)]))
            E.prove(f"{FN}/returned-tree/{ROOT}", goal, "postcondition",
                    "row 0 of the cloud the loop works on = the soma argument (the first input point when no soma is given), coordinate by coordinate, as real numbers")
            return goal
        if which == "the-cloud-is-the-soma-followed-by-every-input-point-in-input-order":
            # first clause of the property ("contains every input point exactly once, plus the given soma"), stated where the cloud the loop works on is
            # complete: whatever the carrier did to the input before (dropping, deduplicating, re-ordering, stacking rows), the rows handed to the loop are
            # the soma followed by input row 0, 1, 2 ... - nothing dropped, nothing added.  Emitted under the NAME AND KIND of the postcondition whose
            # cloud part it is (obligations of equal name are merged): here the context is the straight-line code before the loop, so a carrier that
            # drops a point is answered with a counter-model; the postcondition itself (over the columns handed to the DataFrame) follows from it.
            goal = z3.simplify(cloud_is_input(P, o))
            E.prove(f"{FN}/post/rows-are-the-input-points-once-each-in-order", goal, "postcondition",
                    "the cloud the loop works on = (soma,) + input points, row by row (stated before the loop: no loop state among the hypotheses)")
            return goal
        if which == "an-n-by-n-matrix":
            return z3.And(dis.nz() == n, dis.mz() == n)
        if which == "every-entry-is-the-euclidean-distance-of-the-two-points":
            goal = z3.ForAll([a, b], z3.Implies(inr, X.sel2(dis.arr, a, b) == X.RSQRT(X.sumsq(P, a, b))))
            E.prove(f"{FN}/distance-matrix/{which}", goal, "postcondition", "real-number semantics of the expression the carrier computes")
            return goal
        if which == "computed-without-cancellation-of-rounded-operands":
            fp = getattr(dis, "fp", None)
            if fp is None:
                raise Unsupported("rounding-error bookkeeping lost on the way to the distance matrix (an operation without an FP rule)")
            note = ("float clause (static forward-error rule, NOT a floating-point semantics): every + / - on the way from the input coordinates to the matrix combines exact inputs, or "
                    f"operands of coherent sign; then each entry has a relative error of at most gamma_k, k <= {fp.ops}")
            for what, formula in fp.sites:
                E.prove(f"{FN}/float/distance-matrix-is-{which}", formula, "postcondition", note + f"; site: {what}")
            if not fp.sites:
                E.prove(f"{FN}/float/distance-matrix-is-{which}", z3.BoolVal(True), "postcondition", note)
            E.assumptions.add("float clause of C17 (distance matrix only): relative error <= gamma_k for an expression whose additions / subtractions never combine rounded operands of "
                              "incoherent sign (standard forward-error analysis; the rule is applied to the model's expression, it is not a floating-point semantics)")
            return True
        if which == "renamed-to-the-abstract-distance-function":
            ED = z3.Function(fresh_name("edist"), I, I, z3.RealSort())
            x = z3.Real("ed_x")
            defn = z3.ForAll([a, b], ED(a, b) == X.RSQRT(X.sumsq(P, a, b)), patterns=[ED(a, b)])
            rs = [z3.ForAll([x], X.RSQRT(x) >= 0, patterns=[X.RSQRT(x)]), X.RSQRT(z3.RealVal(0)) == 0]
            E.assumptions.add("ghost definition: edist(a, b) := rsqrt((x_a - x_b)^2 + (y_a - y_b)^2 + (z_a - z_b)^2) for the rows of the (soma +) point cloud; after the distance matrix has been "
                              "proved equal to it, the loop's proof uses only edist >= 0, edist(a, b) = edist(b, a), edist(a, a) = 0, each proved from the definition and rsqrt >= 0, rsqrt(0) = 0")
            for nm, g in (("non-negative", z3.ForAll([a, b], ED(a, b) >= 0, patterns=[ED(a, b)])),
                          ("symmetric", z3.ForAll([a, b], ED(a, b) == ED(b, a), patterns=[ED(a, b)])),
                          ("zero-on-the-diagonal", z3.ForAll([a], ED(a, a) == 0, patterns=[ED(a, a)]))):
                prove_from(E, f"{FN}/distance-matrix/euclidean-distance-is-{nm}", [defn] + rs, g)
            # weakening of the context (always sound): the quantified axioms of row selections made while the cloud was prepared (P[mask], np.unique, np.delete ...)
            # have served - what the clauses above say about the cloud is established; the loop only needs the number of rows
            gone = {h.get_id() for h in E.ghost.get("c17-selection-axioms") or []}
            if gone:
                E.pc[:] = [h for h in E.pc if not (isinstance(h, z3.ExprRef) and h.get_id() in gone)]
            dis.arr = X.lam2(lambda p, q: ED(p, q))  # equal to the proved contents on all rows / columns in range, by the definition of edist
            E.ghost["c17-dis-annotated"] = True
            return True
        raise KeyError(which)

    return f


def cloud_is_input(P, o):
    """the (n, 3) cloud P is the input of the call row by row: the given soma (if any) followed by every input point, in input order"""
    pts, soma = o["points"], o["soma"]
    n0, n = pts.nz(), P.nz()
    a = z3.Int("cl_a")
    conj = [n == (n0 + 1 if soma is not None else n0)]
    for c in range(3):
        if soma is None:
            conj.append(z3.ForAll([a], z3.Implies(z3.And(0 <= a, a < n), z3.Select(P.cols[c], a) == z3.Select(pts.cols[c], a))))
        else:
            conj.append(z3.Select(P.cols[c], z3.IntVal(0)) == to_z3(soma.items[c], "real"))
            conj.append(z3.ForAll([a], z3.Implies(z3.And(0 < a, a < n), z3.Select(P.cols[c], a) == z3.Select(pts.cols[c], a - 1))))
    return z3.And(*conj)


ROOT = "the-root-is-at-the-soma-as-given-or-at-the-first-input-point"
AFTER_DIS = [ROOT, "the-cloud-is-the-soma-followed-by-every-input-point-in-input-order", "an-n-by-n-matrix", "every-entry-is-the-euclidean-distance-of-the-two-points", "computed-without-cancellation-of-rounded-operands",
             "renamed-to-the-abstract-distance-function"]


def argmin_hint(E, v):
    """proof step for `argmin-some-unmasked-entry`: the most recently attached node has no children yet, the next
    position of the attachment order holds an unconnected node"""
    if "g_perm" not in v or "_k0" not in v:
        return
    s = St(v)
    E.prove("PointsToCuntzMST.__call__/step/latest-node-to-next-in-order-is-unmasked",
            z3.And(s.inr(s.Perm(s.k)), s.inr(s.Perm(s.k + 1)), z3.Not(s.Mask(s.Perm(s.k), s.Perm(s.k + 1)))), "annotation")


def prove_from(E, label, hyps, goal):
    """a proof step discharged from an explicit SUBSET of the facts already established on this path"""
    from pyvc.engine import Oblig

    note = "annotation" + (f" [variant {E.variant}]" if getattr(E, "variant", "") else "")
    E.obligs.append(Oblig(f"{E.prop}/{label}", list(hyps), goal, "annotation", note))
    E.pc.append(goal)


def greedy_hint(E, v):
    """proof steps for the preservation of `every-attachment-so-far-was-greedy` (s0 = state when (i, j) was chosen,
    s1 = state at the end of the iteration)"""
    if "c17-pre" not in E.ghost:
        return
    s0, i, j = E.ghost["c17-pre"]
    s1 = St(v).freeze()
    k = s0.k
    x, a, b, t = _q("x", "a", "b", "t")
    P = "PointsToCuntzMST.__call__/step/greedy-"
    E.prove(P + "connected-nodes-keep-their-entries", z3.ForAll([x], z3.Implies(z3.And(s0.inr(x), s0.Conn(x)), z3.And(
        x != j, s1.Conn(x), s1.Pos(x) == s0.Pos(x), s0.Pos(x) <= k, s1.Acc(x) == s0.Acc(x), s1.Pid(x) == s0.Pid(x)))), "annotation")
    f_conn = z3.And(s0.inr(j), s1.Pos(j) == k + 1, z3.ForAll([x], z3.Implies(s0.inr(x), s1.Conn(x) == z3.Or(s0.Conn(x), x == j))))
    E.prove(P + "connected-now-are-those-before-plus-j", f_conn, "annotation")
    E.prove(P + "unconnected-nodes-stay-behind", z3.And(s1.Pos(j) == k + 1, z3.ForAll([x], z3.Implies(z3.And(s0.inr(x), z3.Not(s0.Conn(x))), z3.And(s1.Pos(x) >= k + 1, s0.Pos(x) >= k + 1)))), "annotation")
    E.prove(P + "saturation-history-unchanged", z3.ForAll([a, t], z3.Implies(z3.And(s0.inr(a), t <= k), s1.sat_at(a, t) == s0.sat_at(a, t))), "annotation")
    E.prove(P + "candidates-at-this-step", z3.ForAll([a, b], z3.Implies(z3.And(s0.inr(a), s0.inr(b), s1.Pos(a) < k + 1, s1.Pos(b) >= k + 1, z3.Not(s1.sat_at(a, k + 1))), s0.cand(a, b))), "annotation")
    p = s1.Pid(x)
    f_new = z3.ForAll([a, b], z3.Implies(z3.And(s0.inr(a), s0.inr(b), s1.Pos(a) < k + 1, s1.Pos(b) >= k + 1, z3.Not(s1.sat_at(a, k + 1))),
                                                       s1.cost(s1.Pid(j), j) <= s1.cost(a, b)))
    E.prove(P + "new-node", f_new, "annotation")
    prem1 = z3.And(s0.inr(x), x != 0, s0.Conn(x), s0.inr(a), s0.inr(b), s1.Pos(a) < s1.Pos(x), s1.Pos(b) >= s1.Pos(x), z3.Not(s1.sat_at(a, s1.Pos(x))))
    for nm, concl in (("a-was-connected-and-came-earlier", z3.And(s0.Conn(a), s0.Pos(a) < s0.Pos(x))), ("b-came-later", s0.Pos(b) >= s0.Pos(x)),
                      ("a-was-unsaturated", z3.Not(s0.sat_at(a, s0.Pos(x))))):
        E.prove(P + "old-nodes-had-the-same-candidates/" + nm, z3.ForAll([x, a, b], z3.Implies(prem1, concl)), "annotation")
    E.prove(P + "old-nodes-old-costs", z3.ForAll([x, a, b], z3.Implies(prem1, s0.cost(s0.Pid(x), x) <= s0.cost(a, b))), "annotation")
    f_old = z3.ForAll([x, a, b], z3.Implies(prem1, s1.cost(p, x) <= s1.cost(a, b)))
    E.prove(P + "old-nodes", f_old, "annotation")
    # the invariant itself, from the three facts above only (a subset of the path condition: sound, and it keeps the
    # solver away from the rest of the context); the invariant obligation that follows finds it among its hypotheses
    prove_from(E, P + "old-and-new-nodes-together", [s0.n == s1.n, f_conn, f_new, f_old], St(v).greedy_history(True))


# ----------------------------------------------------------------------------- postconditions
def post(which):
    def f(E, v, o):
        s = St(v)
        n = s.n
        a, b = _q("a", "b")
        me = v["self"]
        names, types = v["names"], me.fields["types"]  # `names`: the local after the (deprecated) keyword was resolved
        dic = v[SRC["dic"]].items
        if which == "every-point-is-connected":
            return z3.ForAll([a], z3.Implies(s.inr(a), s.Conn(a)))
        if which == "parent-table-is-a-tree-rooted-at-0":
            # WFtree of contracts/common.py: pid[0] = -1, parents in range, ghost depth witness => every row reaches row 0
            p = s.Pid(a)
            return z3.And(s.Pid(0) == -1, s.Depth(0) == 0,
                          z3.ForAll([a], z3.Implies(z3.And(0 < a, a < n), z3.And(0 <= p, p < n, p != a, s.Depth(a) == s.Depth(p) + 1, s.Depth(a) > 0))))
        if which == "rows-are-the-input-points-once-each-in-order":
            pts, soma = o["points"], o["soma"]
            idc, xs = dic[names.id], [dic[names.x], dic[names.y], dic[names.z]]
            n0 = pts.nz()
            given = o["names"]
            conj = [n == (n0 + 1 if soma is not None else n0), dic[names.pid] is s.pid, tuple(names) == tuple(given if given is not None else me.fields["names"]),
                    set(dic) == set(names), len(E.warn_log) == (0 if given is None else 1)]
            conj += [zint(c.n) == n for c in [idc] + xs]
            conj.append(z3.ForAll([a], z3.Implies(s.inr(a), X.sel1(idc.arr, a) == a)))
            for c in range(3):
                if soma is None:
                    conj.append(z3.ForAll([a], z3.Implies(s.inr(a), X.sel1(xs[c].arr, a) == z3.Select(pts.cols[c], a))))
                else:
                    conj.append(X.sel1(xs[c].arr, z3.IntVal(0)) == to_z3(soma.items[c], "real"))
                    conj.append(z3.ForAll([a], z3.Implies(z3.And(0 < a, a < n), X.sel1(xs[c].arr, a) == z3.Select(pts.cols[c], a - 1))))
            ty = dic[names.type]
            conj.append(X.sel1(ty.arr, z3.IntVal(0)) == types.soma)
            conj.append(z3.ForAll([a], z3.Implies(z3.And(0 < a, a < n), X.sel1(ty.arr, a) == types.glia_processes)))
            conj.append(dic[names.r] == 1)
            return z3.And(*[c if not isinstance(c, bool) else z3.BoolVal(c) for c in conj])
        if which == "no-non-exempt-node-has-more-than-K-children":
            # "at most K children" without counting: the ghost child rank is injective among siblings and, below a
            # non-exempt parent, lies in 1..K
            pa, pb = s.Pid(a), s.Pid(b)
            return z3.And(
                z3.ForAll([a, b], z3.Implies(z3.And(0 < a, a < n, 0 < b, b < n, a != b, pa == pb), s.Crank(a) != s.Crank(b))),
                z3.Implies(s.K != -1, z3.ForAll([a], z3.Implies(z3.And(0 < a, a < n, z3.Or(z3.Not(s.ex), pa != 0)), z3.And(1 <= s.Crank(a), s.Crank(a) <= s.K)))),
            )
        if which == "path-length-to-the-root":
            p = s.Pid(a)
            return z3.And(s.Acc(0) == 0, z3.ForAll([a], z3.Implies(z3.And(0 < a, a < n), s.Acc(a) == s.Acc(p) + s.Dis(p, a))))
        if which == "attachment-order-is-a-bijection-with-parents-first":
            # the ghost order pos that the greedy clause below refers to: a permutation of the rows starting with row 0 in
            # which every row comes after its parent
            return z3.And(inv("order-is-a-bijection")(E, v, o), z3.ForAll([a], z3.Implies(z3.And(0 < a, a < n), s.Pos(s.Pid(a)) < s.Pos(a))))
        if which == "each-point-was-attached-by-a-cheapest-admissible-edge":
            return s.greedy_history(False)
        if which == "without-balancing-factor-and-limit-every-point-was-attached-by-a-lightest-edge-across-the-cut-of-the-points-attached-before-it":
            # PREMISE of the cut-property lemma lean/Prim.lean (prim_tree_is_minimum, prim_tree_total_is_least): with (inj) / (parents-first) from
            # `attachment-order-is-a-bijection-with-parents-first` and w := the Euclidean distance (non-negative, symmetric: proved at the distance
            # matrix), the lemma gives: total length of the parent table = minimum over all connected graphs on the points = length of a minimum
            # spanning tree.  umul is the abstraction of the real product bf * acc[a]; its one property needed here, 0 * y = 0, is an explicit hypothesis.
            y = z3.Real("mst_y")
            v_, a_, b_ = z3.Ints("mst_v mst_a mst_b")
            zero_mul = z3.ForAll([y], X.UMUL(z3.RealVal(0), y) == 0, patterns=[X.UMUL(z3.RealVal(0), y)])
            prem = z3.ForAll([v_, a_, b_], z3.Implies(z3.And(s.inr(v_), v_ != 0, s.inr(a_), s.inr(b_), s.Pos(a_) < s.Pos(v_), s.Pos(b_) >= s.Pos(v_)),
                                                       s.Dis(s.Pid(v_), v_) <= s.Dis(a_, b_)), patterns=[z3.MultiPattern(s.Dis(s.Pid(v_), v_), s.Dis(a_, b_))])
            E.assumptions.add("assumed-lemma: prim cut-property (lean/Prim.lean: prim_tree_is_minimum, prim_tree_connected, prim_tree_weight_eq, prim_tree_total_is_least) - from the proved "
                              "postconditions `attachment-order-is-a-bijection-with-parents-first` and `mst-premise/...` (w := Euclidean distance, V := the rows) it follows that the total "
                              "length of the returned parent table is that of a minimum spanning tree; the conclusion itself (a sum over the rows) is not restated in SMT")
            return z3.Implies(z3.And(s.bf == 0, s.K == -1, zero_mul), prem)
        if which == "furcations-count-the-children-and-respect-the-limit":
            return z3.And(inv("furcations-count-the-children")(E, v, o), inv("cap")(E, v, o))
        if which == "transform-object-unchanged":
            om = o["self"]
            return z3.And(*[z3.BoolVal(True)] + [to_z3(me.fields[x]) == to_z3(om.fields[x]) for x in ("bf", "furcations", "exclude_soma", "sort")]
                          + [z3.BoolVal(me.fields[x] is om.fields[x] or (isinstance(me.fields[x], tuple) and tuple(me.fields[x]) == tuple(om.fields[x]))) for x in ("names", "types")] + [z3.BoolVal(set(me.fields) == set(om.fields))])
        raise KeyError(which)

    return f


# ----------------------------------------------------------------------------- the RETURNED tree
def _sort_call(E):
    """the single call of sort_nodes_impl on this path (None when sort is off)"""
    calls = [kw for nm, kw in E.call_log if nm == "sort_nodes_impl"]
    return calls


def _in_point(o, c, a):
    """coordinate c of row a of the input: the cloud, preceded by the soma when one is given"""
    pts, soma = o["points"], o["soma"]
    if soma is None:
        return z3.Select(pts.cols[c], a)
    return z3.If(a == 0, to_z3(soma.items[c], "real"), z3.Select(pts.cols[c], a - 1))


class Ret:
    """the returned tree t and the one-to-one map between its rows and the input rows: sg(k) = input row shown in row k
    (C05's index array when sort is on, the identity otherwise), iv = its inverse (C05's ghost `newof`)"""

    def __init__(self, E, v, o):
        from contracts import C05

        self.ok = False
        me = v["self"]
        self.nm = v["names"]
        t = v["result"]
        calls = _sort_call(E)
        if len(calls) > 1 or not isinstance(t, Obj) or not isinstance(t.fields.get("ndata"), PDict) or t.fields["ndata"].items is None:
            return
        self.t, self.nd = t, t.fields["ndata"].items
        self.sorted = len(calls) == 1
        self.flag = to_z3(me.fields["sort"], "bool") == z3.BoolVal(self.sorted)
        if self.sorted:
            sigma = calls[0]["__result__"][1]
            self.sg, self.iv = (lambda k: z3.Select(sigma.arr, k)), (lambda p: C05.newof(p))
        else:
            self.sg = self.iv = lambda k: k
        if not all(getattr(self.nm, f) in self.nd and type(self.nd[getattr(self.nm, f)]) is SArr and self.nd[getattr(self.nm, f)].kind == k for f, k in TKIND.items()):
            return
        self.ok = True

    def col(self, f, k):
        return z3.Select(self.nd[getattr(self.nm, f)].arr, k)


def ret_post(which):
    def f(E, v, o):
        s = St(v)
        n = s.n
        r = Ret(E, v, o)
        if not r.ok:
            return False
        me = v["self"]
        k, l, p = _q("k", "l", "p")
        rng = lambda x: z3.And(0 <= x, x < n)
        if which == "a-Tree-with-exactly-the-seven-named-columns-of-n-rows-sharing-nothing-with-the-inputs":
            # before the fix in /repo (names other than the default ones, sort on): _sort_tree ADDS columns "id" / "pid" (`ndata.update(id=..., pid=...)`)
            # instead of overwriting the columns that carry the ids under the given names
            if not tree_shaped(r.t, r.nm):
                return False
            fresh_ = r.t.uid not in E.entry_uids and r.t.fields["ndata"].uid not in E.entry_uids and all(a.uid not in E.entry_uids for a in r.nd.values())
            return z3.And(z3.BoolVal(fresh_), r.flag, *[a.nz() == n for a in r.nd.values()])
        if which == "rows-correspond-one-to-one-to-the-input-points-plus-soma":
            return z3.And(r.flag,
                          z3.ForAll([k], z3.Implies(rng(k), z3.And(rng(r.sg(k)), r.iv(r.sg(k)) == k))),
                          z3.ForAll([p], z3.Implies(rng(p), z3.And(rng(r.iv(p)), r.sg(r.iv(p)) == p))))
        if which == "every-row-carries-the-position-of-its-input-point-radius-1-type-soma-or-glia":
            types = me.fields["types"]
            conj = [z3.ForAll([k], z3.Implies(rng(k), r.col("xyz"[c], k) == _in_point(o, c, r.sg(k)))) for c in range(3)]
            conj.append(z3.ForAll([k], z3.Implies(rng(k), z3.And(r.col("r", k) == 1, r.col("type", k) == z3.If(r.sg(k) == 0, types.soma, types.glia_processes)))))
            return z3.And(*conj)
        if which == "single-root-is-the-soma-or-first-point":
            return z3.And(z3.ForAll([k], z3.Implies(rng(k), (r.col("pid", k) == -1) == (r.sg(k) == 0))), z3.Implies(z3.BoolVal(r.sorted), r.sg(z3.IntVal(0)) == 0))
        if which == ROOT:
            # the row without a parent sits exactly where the soma argument is (where the first input point is when no soma is given): the coordinates of the
            # ARGUMENT as real numbers, for every dtype of cloud and soma
            return z3.ForAll([k], z3.Implies(z3.And(rng(k), r.col("pid", k) == -1), z3.And(*[r.col("xyz"[c], k) == _in_point(o, c, z3.IntVal(0)) for c in range(3)])))
        if which == "parent-relation-is-the-greedy-attachments":
            # the parent id stored in row k is the id of the row that shows the input point to which the loop attached k's point
            return z3.ForAll([k], z3.Implies(z3.And(rng(k), r.sg(k) != 0), r.col("pid", k) == r.col("id", r.iv(s.Pid(r.sg(k))))))
        if which == "ids-are-the-row-numbers":
            # before the fix in /repo (names other than the default ones, sort on): the id column under the given name is only permuted, not renumbered
            return z3.ForAll([k], z3.Implies(rng(k), r.col("id", k) == k))
        if which == "sorted-result-has-root-0-and-parents-before-children":
            # before the fix in /repo (names other than the default ones, sort on): same cause, the parent column under the given name is not renumbered
            if not r.sorted:
                return True
            return z3.And(r.col("pid", z3.IntVal(0)) == -1, z3.ForAll([k], z3.Implies(z3.And(0 < k, k < n), z3.And(0 <= r.col("pid", k), r.col("pid", k) < k))))
        if which == "no-non-exempt-node-has-more-than-K-children":
            # ghost child rank of a row = rank of its input point among its siblings: injective among the rows with the same parent id,
            # and within 1..K below every parent other than the exempt root
            rk = lambda x: s.Crank(r.sg(x))
            root_id = r.col("id", r.iv(z3.IntVal(0)))
            nonroot = lambda x: z3.And(rng(x), r.col("pid", x) != -1)
            return z3.And(
                z3.ForAll([k, l], z3.Implies(z3.And(nonroot(k), nonroot(l), k != l, r.col("pid", k) == r.col("pid", l)), rk(k) != rk(l))),
                z3.Implies(s.K != -1, z3.ForAll([k], z3.Implies(z3.And(nonroot(k), z3.Or(z3.Not(s.ex), r.col("pid", k) != root_id)), z3.And(1 <= rk(k), rk(k) <= s.K)))))
        raise KeyError(which)

    return f


# the three clauses that the (fixed) defect touched come last (a failed clause is assumed afterwards, it would mask the later ones)
RET_POSTS = ["rows-correspond-one-to-one-to-the-input-points-plus-soma", "every-row-carries-the-position-of-its-input-point-radius-1-type-soma-or-glia",
             "single-root-is-the-soma-or-first-point", ROOT, "parent-relation-is-the-greedy-attachments", "no-non-exempt-node-has-more-than-K-children",
             "a-Tree-with-exactly-the-seven-named-columns-of-n-rows-sharing-nothing-with-the-inputs", "ids-are-the-row-numbers",
             "sorted-result-has-root-0-and-parents-before-children"]


def after_tree(which):
    """annotation point right after `t = Tree.from_data_frame(...)`: the loop is over.  Restates what the loop established (so that the
    obligations of the tail find it) and DEFINES C05's ghost symbols for the table handed to sort_tree: root row 0, parent row = the
    attachment, row of an id = the id itself (ids are 0..n-1), depth = the ghost depth of the loop."""
    def f(E, v, o):
        from contracts import C05

        if E.ghost.get("c17-tree-annotated"):
            return True  # the second assignment to t (`t = sort_tree(t)`)
        s = St(v)
        a = _q("a")[0]
        if which == "every-point-is-connected":
            return post(which)(E, v, o)
        if which == "parent-table-is-a-tree-rooted-at-0":
            return post(which)(E, v, o)
        if which == "ghost-definitions-for-sorting":
            E.assume(C05.P0 == 0)
            E.assume(z3.ForAll([a], z3.And(C05.pp(a) == s.Pid(a), C05.posof(a) == a, C05.depth5(a) == s.Depth(a))))
            E.assumptions.add("ghost definitions (C05's vocabulary at the sort_tree call of PointsToCuntzMST.__call__): rootrow5 := 0, pp := the attachment table pid, "
                              "posof := identity, depth5 := ghost depth of the loop")
            E.ghost["c17-tree-annotated"] = True
            return True
        raise KeyError(which)

    return f


POSTS = ["every-point-is-connected", "parent-table-is-a-tree-rooted-at-0", "rows-are-the-input-points-once-each-in-order",
         "no-non-exempt-node-has-more-than-K-children", "furcations-count-the-children-and-respect-the-limit", "path-length-to-the-root",
         "attachment-order-is-a-bijection-with-parents-first", "each-point-was-attached-by-a-cheapest-admissible-edge",
         "mst-premise/without-balancing-factor-and-limit-every-point-was-attached-by-a-lightest-edge-across-the-cut-of-the-points-attached-before-it",
         "transform-object-unchanged"]


def call_setup(soma_given, names_given=False, dtype="float64"):
    """dtype: the numpy dtype of the cloud (an integer dtype: integer coordinates - voxel positions, `np.argwhere` style); the soma is a vector of three ARBITRARY
    reals in every variant (a float64 array / a list of python floats: the centre of mass of a voxel mask has a fractional part)"""
    def f(S):
        from swcgeom.core.swc_utils import SWCNames, get_names, get_types
        from swcgeom.transforms.mst import PointsToCuntzMST

        me = S.obj(PointsToCuntzMST, bf=S.real("bf"), furcations=S.int("K"), exclude_soma=S.bool("exclude_soma"), sort=S.bool("sort"),
                   names=get_names(), types=get_types())
        me.frozen = True
        n0 = S.int("n_points")
        S.assume(n0.z >= (0 if soma_given else 1))
        pts = X.typed_cloud(S, n0.z, dtype)
        soma = NArr((3,), [S.real("soma_" + c) for c in "xyz"], "real") if soma_given else None
        if soma is not None:
            soma.frozen = True
        n = n0.z + 1 if soma_given else n0.z
        # ghost state (initial values): attachment order = identity, nobody has a child rank, depth 0
        ident = z3.Lambda([z3.Int("gi")], z3.Int("gi"))
        ghosts = dict(
            g_pos=X.V1(ident, n, "int", name="g_pos"), g_perm=X.V1(ident, n, "int", name="g_perm"),
            g_crank=X.V1(z3.K(I, z3.IntVal(0)), n, "int", name="g_crank"), g_kid=X.M2.const("int", n, n, 0, name="g_kid"),
            g_depth=X.V1(z3.K(I, z3.IntVal(0)), n, "int", name="g_depth"), g_nk=X.V1(z3.K(I, z3.IntVal(0)), n, "int", name="g_nk"),
        )
        names = SWCNames(id="ID", type="T", x="X", y="Y", z="Z", r="R", pid="PID") if names_given else None
        return dict(self=me, points=pts, soma=soma, names=names, **ghosts)

    return f


def pre(which):
    def f(E, v, o):
        me = v["self"]
        K, bf = _iv(me.fields["furcations"]), to_z3(me.fields["bf"], "real")
        if which == "bf-in-unit-interval":
            return z3.And(0 <= bf, bf <= 1)
        if which == "branching-limit-is-minus-one-or-positive":
            return z3.Or(K == -1, K >= 1)
        if which == "integer-coordinates-are-exactly-representable-in-float64":
            # a cloud of an integer dtype meets float64 numbers (the soma, the distances): its coordinates are taken to be integers of magnitude <= 2**53,
            # which float64 represents exactly (int32 / uint16 ... clouds satisfy this by their dtype); vacuous for float clouds
            P = v["points"]
            if not isinstance(P, X.Points) or P.dtype.kind not in "iu":
                return z3.BoolVal(True)
            a = z3.Int("pre_a")
            lim = 2 ** 53
            return z3.And(*[z3.ForAll([a], z3.Implies(z3.And(0 <= a, a < P.nz()), z3.And(z3.Select(c, a) >= -lim, z3.Select(c, a) <= lim)), patterns=[z3.Select(c, a)]) for c in P.cols])
        raise KeyError(which)

    return f


def register(R: Registry):
    # Tree.from_data_frame is used MODULARLY here, through the clauses verified on the real function (see _register_fdf); the overlay
    # only adds the result shape, so that no other carrier's call sites change.  sort_tree / _sort_tree / DictSWC.copy are inlined (real
    # code), sort_nodes_impl enters through the contract proved under C05.
    local = {FDF: Contract(FDF, returns=fdf_result, **fdf_contract())}
    SRC.update(source_names())
    after_t = ["every-point-is-connected", "parent-table-is-a-tree-rooted-at-0", "ghost-definitions-for-sorting"]
    after_i = ["chosen-edge-joins-connected-unsaturated-to-unconnected",
               "chosen-edge-minimises-length-plus-bf-times-path-length-over-exactly-the-candidates", "ghost-step"]
    R.add(
        f"{MST}:PointsToCuntzMST.__call__",
        prop="C17",
        variants={"soma=None": call_setup(False), "soma given": call_setup(True), "soma=None, names= given (deprecated keyword)": call_setup(False, True),
                  # the dtype of the cloud is part of the input space: where the code converts (np.array / np.asarray / astype / the promotion of np.concatenate) the
                  # cast model decides what becomes of the values; the clauses are the same for every dtype (coordinates of the ARGUMENTS as real numbers)
                  "soma given, float32 cloud": call_setup(True, dtype="float32"), "soma given, int64 cloud": call_setup(True, dtype="int64"),
                  "soma given, int32 cloud": call_setup(True, dtype="int32"), "soma=None, int64 cloud": call_setup(False, dtype="int64")},
        requires=[("bf-in-unit-interval", pre("bf-in-unit-interval")), ("branching-limit-is-minus-one-or-positive", pre("branching-limit-is-minus-one-or-positive")),
                  ("integer-coordinates-are-exactly-representable-in-float64", pre("integer-coordinates-are-exactly-representable-in-float64"))],
        ensures=[(p, post(p.split("/")[-1])) for p in POSTS] + [("returned-tree/" + p, ret_post(p)) for p in RET_POSTS],
        loops={0: dict(invariant=[(x, inv(x)) for x in INVS], modifies=["g_pos", "g_perm", "g_crank", "g_kid", "g_depth", "g_nk"])},
        options=dict(
            registry=_Overlay(R, local),
            asserts_after={SRC["dis"]: [(x, after_dis(x)) for x in AFTER_DIS], SRC["i"]: [(x, after_pick(x)) for x in after_i], SRC["t"]: [(x, after_tree(x)) for x in after_t]},
            hints={"safety/argmin-some-unmasked-entry": argmin_hint, "loop-step/chosen-edge-joins-connected-unsaturated-to-unconnected": argmin_hint, "loop0/preserved/every-attachment-so-far-was-greedy": greedy_hint, **step_hints()},
        ),
        notes="n symbolic; dis abstract (edist >= 0, symmetric, zero diagonal); bf, K, exclude_soma, sort symbolic; names=None, and one concrete non-default SWCNames for the deprecated keyword. "
              "Tail real: Tree.from_data_frame by its verified contract, sort_tree inlined over C05's contract of sort_nodes_impl; K = 0 and K < -1 excluded by precondition.",
    )


# ----------------------------------------------------------------------------- Tree.from_data_frame
TREE = "swcgeom/core/tree.py"
FDF = f"{TREE}:Tree.from_data_frame"
TKIND = dict(id="int", type="int", x="real", y="real", z="real", r="real", pid="int")  # SWCNames field -> kind of the Tree column


def custom_names():
    from swcgeom.core.swc_utils import SWCNames

    return SWCNames(id="ID", type="T", x="X", y="Y", z="Z", r="R", pid="PID")


def _resolved(names):
    from swcgeom.core.swc_utils import get_names

    return get_names(names)


def tree_shaped(t, nm, extra=()):
    """t is a Tree object with exactly the five fields the constructors set, whose ndata holds exactly the seven columns
    named by nm (in that order) followed by the columns `extra`, integer columns for id / type / pid, no two sharing storage"""
    from swcgeom.core.swc_utils import get_types
    from swcgeom.core.tree import Tree

    if not (isinstance(t, Obj) and t.cls is Tree and set(t.fields) == {"types", "source", "comments", "names", "ndata"}):
        return False
    nd = t.fields["ndata"]
    if not (isinstance(nd, PDict) and nd.items is not None and list(nd.items) == list(nm.cols()) + list(extra) and tuple(t.fields["types"]) == tuple(get_types())):
        return False
    return (all(type(nd.items[getattr(nm, f)]) is SArr and nd.items[getattr(nm, f)].kind == k for f, k in TKIND.items())
            and all(type(nd.items[c]) is SArr for c in extra) and len({a.uid for a in nd.items.values()}) == len(nd.items))


def frame_extras(df, nm):
    """the columns of the frame that are not among the seven named ones, in the frame's order"""
    return [c for c in df.cols if c not in nm.cols()]


def fdf_setup(custom, int_r):
    def f(S):
        nm = custom_names() if custom else _resolved(None)
        kinds = {getattr(nm, f): k for f, k in TKIND.items()}
        if int_r:
            kinds[nm.r] = "int"  # e.g. a constant radius column built from the Python int 1
        kinds["extra"] = "real"  # a column the names do not mention: taken over as it is, after the seven named ones
        df = S.dframe(kinds)
        df.frozen = True
        for a in df.cols.values():
            a.frozen = True
        return dict(df=df, source="cell.swc", comments=None, names=(nm if custom else None))

    return f


def fdf_pre(E, v, o):
    """shape of the arguments the contract is verified for (decided concretely at every call site)"""
    from pyvc.npmodels import DFrame

    df, nm = v["df"], _resolved(v["names"])
    if not isinstance(df, DFrame) or v["comments"] is not None or not isinstance(v["source"], str):
        return False
    return all(getattr(nm, f) in df.cols and type(df.cols[getattr(nm, f)]) is SArr and df.cols[getattr(nm, f)].kind in (("int",) if k == "int" else ("int", "real")) for f, k in TKIND.items())


def fdf_post(which):
    def f(E, v, o):
        t, df, nm = v["result"], o["df"], _resolved(o["names"])
        if fdf_pre(E, o, o) is not True or not tree_shaped(t, nm, frame_extras(df, nm)):
            return False
        if which == "a-Tree-with-the-seven-named-columns-then-the-other-columns-of-the-frame":
            return True
        nd = t.fields["ndata"].items
        n = zint(df.n)
        if which == "every-column-holds-the-frame-column-of-that-name":
            conj = []
            for c, k in [(getattr(nm, fld), k) for fld, k in TKIND.items()] + [(c, df.cols[c].kind) for c in frame_extras(df, nm)]:
                a, src = nd[c], df.cols[c]
                i = z3.Int(fresh_name("i"))
                conj += [a.nz() == n, z3.ForAll([i], z3.Implies(z3.And(0 <= i, i < n), to_z3(a.get(i), k) == to_z3(src.get(i), k)))]
            return z3.And(*conj)
        if which == "names-source-kept-no-comments":
            cm = t.fields["comments"]
            return tuple(t.fields["names"]) == tuple(nm) and t.fields["source"] == o["source"] and isinstance(cm, PList) and cm.items == []
        if which == "tree-object-and-column-dict-are-new":
            return t.uid not in E.entry_uids and t.fields["ndata"].uid not in E.entry_uids and t.fields["comments"].uid not in E.entry_uids
        raise KeyError(which)

    return f


FDF_POSTS = ["a-Tree-with-the-seven-named-columns-then-the-other-columns-of-the-frame", "every-column-holds-the-frame-column-of-that-name",
             "names-source-kept-no-comments", "tree-object-and-column-dict-are-new"]


def fdf_result(S, fr):
    """shape of the result at call sites (every structural fact baked in here is a clause of `tree_shaped`, proved on the real code)"""
    from swcgeom.core.swc_utils import get_types
    from swcgeom.core.tree import Tree

    df, nm = fr.vars["df"], _resolved(fr.vars["names"])
    cols = {getattr(nm, f): SArr.fresh(k, zint(df.n), name="t_" + f) for f, k in TKIND.items()}
    for c in frame_extras(df, nm):
        cols[c] = SArr.fresh(df.cols[c].kind, zint(df.n), name="t_" + str(c))
    return Obj(Tree, dict(types=get_types(), source=fr.vars["source"], comments=PList([]), names=nm, ndata=PDict(cols)))


def fdf_contract(**kw):
    return dict(prop="C17", requires=[("a-frame-with-the-seven-named-numeric-columns-no-comments", fdf_pre)], ensures=[(p, fdf_post(p)) for p in FDF_POSTS], **kw)


def _register_fdf(R):
    # verified on the real function; registered WITHOUT `returns`, so other carriers keep inlining the function.  __call__ uses the
    # same clauses modularly through its private overlay (below).
    R.add(FDF, variants={"default names": fdf_setup(False, False), "given names": fdf_setup(True, False), "given names, integer radius column": fdf_setup(True, True),
                         "default names, integer radius column": fdf_setup(False, True)},
          notes="frame of symbolic length with the seven named columns and one more (kept, after the named ones); source a string, comments=None; dtype casts (int32 / float32) are the "
                "identity under `numpy ints do not overflow, floats are reals`", **fdf_contract())


# ----------------------------------------------------------------------------- constructors
def _cfg_is(me, field, default):
    v = me.fields.get(field)
    return v is default or (isinstance(v, tuple) and tuple(v) == tuple(default))


def init_post(which):
    def f(E, v, o):
        from swcgeom.core.swc_utils.base import swc_names, swc_types

        me = v["self"]
        if which == "exactly-the-six-configuration-fields":
            return set(me.fields) == {"bf", "furcations", "exclude_soma", "sort", "names", "types"}
        if which == "default-names-and-types":
            return _cfg_is(me, "names", swc_names) and _cfg_is(me, "types", swc_types)
        if which == "deprecation-warning-iff-k_furcations-given":
            return len(E.warn_log) == (0 if o.get("k_furcations") is None else 1)
        raise KeyError(which)

    return f


def _register_inits(R):
    def cuntz_setup(S):
        from swcgeom.transforms.mst import PointsToCuntzMST

        return dict(self=S.obj(PointsToCuntzMST), bf=S.real("bf"), furcations=S.int("K"), exclude_soma=S.bool("exclude_soma"), sort=S.bool("sort"),
                    names=None, types=None)

    R.add(
        f"{MST}:PointsToCuntzMST.__init__",
        prop="C17",
        setup=cuntz_setup,
        ensures=[
            "bf-clipped-into-unit-interval :: 0 <= self.bf and self.bf <= 1 and self.bf == ite(bf < 0, 0, ite(bf > 1, 1, bf))",
            "limit-and-flags-kept :: self.furcations == furcations and self.exclude_soma == exclude_soma and self.sort == sort",
            ("default-names-and-types", init_post("default-names-and-types")),
            ("exactly-the-six-configuration-fields", init_post("exactly-the-six-configuration-fields")),
        ],
        notes="establishes the precondition 0 <= bf <= 1 of __call__; names/types = None only",
    )

    def mst_setup(k_given):
        def f(S):
            from swcgeom.transforms.mst import PointsToMST

            return dict(self=S.obj(PointsToMST), furcations=S.int("K"), k_furcations=S.int("K_old") if k_given else None,
                        exclude_soma=S.bool("exclude_soma"), names=None, types=None)

        return f

    R.add(
        f"{MST}:PointsToMST.__init__",
        prop="C17",
        variants={"k_furcations=None": mst_setup(False), "k_furcations given": mst_setup(True)},
        ensures=[
            "no-balancing-factor :: self.bf == 0",
            "branching-limit-kept :: self.furcations == (furcations if k_furcations is None else k_furcations)",
            "soma-exemption-kept :: self.exclude_soma == exclude_soma",
            "sorting-on-by-default :: self.sort == True",
            ("default-names-and-types", init_post("default-names-and-types")),
            ("exactly-the-six-configuration-fields", init_post("exactly-the-six-configuration-fields")),
            ("deprecation-warning-iff-k_furcations-given", init_post("deprecation-warning-iff-k_furcations-given")),
        ],
        notes="plain MST = Cuntz MST with bf = 0; no extra keyword arguments; names/types = None only",
    )


_register_call = register


def register(R):  # noqa: F811
    _register_call(R)
    _register_inits(R)
    _register_fdf(R)
