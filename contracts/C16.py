"""C16 — resampling and smoothing keep the shape: sidecar contracts (no edit of /repo).

Library behaviour (np.diff/cumsum/insert/concatenate/linspace/interp/ceil/arange, scipy.signal.convolve)
enters through the ASSUMED models of pyvc/ext_C16.py, each listed under trusted_base.
"""
import z3

import pyvc.ext_C16  # noqa: F401  (registers the models)
from pyvc.npmodels import S2Arr
from pyvc.spec import Registry
from pyvc.values import NArr, Obj, PDict, PList, SArr, Sym, fresh_name, to_z3, zint

BR = "swcgeom/transforms/branch.py"
SIZES = (2, 3, 4)


# ---------------------------------------------------------------------------
# specification vocabulary for a polyline given by N knots (x, y, z, r)
def knots(E, xyzr):
    """(P, c, L): P[j] = (x, y, z, r) of knot j as z3 reals; c[j] = arc length of knot j (c[0] = 0,
    c[j+1] = c[j] + |P[j+1] - P[j]|, the norm being the engine's ghost root y >= 0, y*y = sum of squares)."""
    N = xyzr.shape[0]
    it = xyzr.items
    P = [[to_z3(it[4 * j + c], "real") for c in range(4)] for j in range(N)]
    c = [z3.RealVal(0)]
    for j in range(N - 1):
        sq = sum(((P[j + 1][a] - P[j][a]) * (P[j + 1][a] - P[j][a]) for a in range(3)), z3.RealVal(0))
        s = to_z3(E.sqrt(Sym(sq, "real"), nonneg_known=True), "real")
        c.append(c[-1] + s)
    return P, c, c[-1]


def on_polyline(P, c, a, t, val):
    """`val` is coordinate `a` of the point of the polyline at arc length t (0 <= t <= L):
    on the segment j with c[j] <= t < c[j+1] it is P[j] + (P[j+1]-P[j])/(c[j+1]-c[j]) * (t - c[j]) -- linear in arc
    length between knots --, and it is the last knot at t = L."""
    N = len(P)
    out = [z3.Implies(t >= c[N - 1], val == P[N - 1][a])]
    for j in range(N - 1):
        out.append(z3.Implies(z3.And(c[j] <= t, t < c[j + 1]),
                              val == P[j][a] + ((P[j + 1][a] - P[j][a]) / (c[j + 1] - c[j])) * (t - c[j])))
    return z3.And(*out)


def res_view(res):
    """(cols, n) of the (n x 4) result"""
    if not isinstance(res, S2Arr) or res.transposed or res.k != 4:
        return None
    return res.cols, res.nz()


def xyzr_input(S, N):
    a = NArr((N, 4), [S.real(f"p{j}{c}") for j in range(N) for c in "xyzr"], "real")
    a.frozen = True
    return a


def resampler_posts(count_clause):
    """postconditions shared by the two resamplers; n = number of output rows"""

    def shape(E, v, o):
        return res_view(v["result"]) is not None

    def first_pos(E, v, o):
        cols, n = res_view(v["result"])
        P, c, L = knots(E, o["xyzr"])
        return z3.And(n >= 1, *[z3.Select(cols[a], 0) == P[0][a] for a in range(3)])

    def first_radius(E, v, o):
        cols, n = res_view(v["result"])
        P, c, L = knots(E, o["xyzr"])
        return z3.Implies(c[1] > 0, z3.Select(cols[3], 0) == P[0][3])

    def last_point(E, v, o):
        cols, n = res_view(v["result"])
        P, c, L = knots(E, o["xyzr"])
        return z3.And(*[z3.Select(cols[a], n - 1) == P[-1][a] for a in range(4)])

    def on_line(a):
        def f(E, v, o):
            cols, n = res_view(v["result"])
            P, c, L = knots(E, o["xyzr"])
            k = z3.Int(fresh_name("k"))
            step = L / z3.ToReal(n - 1)
            t = z3.ToReal(k) * step
            return z3.Implies(n >= 2, z3.ForAll([k], z3.Implies(z3.And(0 <= k, k < n), z3.And(0 <= t, t <= L, on_polyline(P, c, a, t, z3.Select(cols[a], k))))))

        return f

    return [("result-is-n-by-4", shape), count_clause,
            ("first-sample-at-first-point", first_pos),
            ("first-sample-radius-is-first-radius-when-first-segment-has-length", first_radius),
            ("last-sample-is-last-point-position-and-radius", last_point),
            ("samples-on-polyline-at-equal-arc-steps/x", on_line(0)),
            ("samples-on-polyline-at-equal-arc-steps/y", on_line(1)),
            ("samples-on-polyline-at-equal-arc-steps/z", on_line(2)),
            ("radius-linear-in-arc-length-between-knots", on_line(3))]


def register(R: Registry):
    # ------------------------------------------- BranchIsometricResampler.resample
    def iso_setup(N):
        def f(S):
            from swcgeom.transforms.branch import BranchIsometricResampler

            return dict(self=S.obj(BranchIsometricResampler, distance=S.real("distance"), adjust_last_gap=True), xyzr=xyzr_input(S, N))

        return f

    def iso_count(E, v, o):
        # n = ceil(L / distance) + 1, ceil(q) being the integer c with c - 1 < q <= c
        cols, n = res_view(v["result"])
        P, c, L = knots(E, o["xyzr"])
        q = L / to_z3(o["self"].fields["distance"], "real")
        return z3.And(n >= 1, z3.ToReal(n) - 2 < q, q <= z3.ToReal(n) - 1)

    def iso_step(E, v, o):
        cols, n = res_view(v["result"])
        P, c, L = knots(E, o["xyzr"])
        return z3.Implies(n >= 2, L / z3.ToReal(n - 1) <= to_z3(o["self"].fields["distance"], "real"))

    def iso_single(E, v, o):
        cols, n = res_view(v["result"])
        P, c, L = knots(E, o["xyzr"])
        return z3.And(z3.Implies(L == 0, n == 1), z3.Implies(L > 0, n >= 2))

    def iso_step_hint(E, vars):
        # proof step: ceil(L/d) >= L/d, multiplied through by d > 0
        if "n_nodes" not in vars or "total_length" not in vars:
            return
        L, n, d = to_z3(vars["total_length"], "real"), to_z3(vars["n_nodes"], "int"), to_z3(vars["self"].fields["distance"], "real")
        E.prove("BranchIsometricResampler.resample/step/length-at-most-n-minus-1-spacings", L <= z3.ToReal(n - 1) * d, "annotation")

    R.add(f"{BR}:BranchIsometricResampler.resample", prop="C16",
          variants={f"polyline-of-{N}-points": iso_setup(N) for N in SIZES},
          requires=["spacing-positive :: self.distance > 0"],
          ensures=resampler_posts(("count-is-ceil-of-length-over-spacing-plus-one", iso_count))
          + [("step-not-longer-than-spacing", iso_step), ("zero-length-branch-gives-one-sample-else-at-least-two", iso_single)],
          options=dict(hints={"post/step-not-longer-than-spacing": iso_step_hint}),
          notes="input polyline of exactly 2, 3, 4 points per variant (all 4N numbers symbolic reals); spacing symbolic; "
                "number of output samples symbolic; adjust_last_gap=True (the default, the only mode the property quantifies over)")

    # ---------------------------------------------- BranchLinearResampler.resample
    def lin_setup(N):
        def f(S):
            from swcgeom.transforms.branch import BranchLinearResampler

            return dict(self=S.obj(BranchLinearResampler, n_nodes=S.int("n_nodes")), xyzr=xyzr_input(S, N))

        return f

    def lin_count(E, v, o):
        cols, n = res_view(v["result"])
        return n == to_z3(o["self"].fields["n_nodes"], "int")

    R.add(f"{BR}:BranchLinearResampler.resample", prop="C16",
          variants={f"polyline-of-{N}-points": lin_setup(N) for N in SIZES},
          requires=["at-least-two-target-points :: self.n_nodes >= 2"],
          ensures=resampler_posts(("exactly-the-requested-number-of-points", lin_count)),
          notes="input polyline of exactly 2, 3, 4 points per variant (all 4N numbers symbolic reals); target count symbolic >= 2")

    # ------------------------------------------------- BranchConvSmoother.__call__
    from contracts.common import COLS, col, nof, sym_tree

    def smoother_setup(S):
        from swcgeom.core import Branch
        from swcgeom.transforms.branch import BranchConvSmoother

        t = sym_tree(S, "t", frozen=True)
        idx = S.arr("int", name="bidx")
        idx.frozen = True
        j = z3.Int(fresh_name("j"))
        S.assume(z3.ForAll([j], z3.Implies(z3.And(j >= 0, j < idx.nz()), z3.And(idx.get(j).z >= 0, idx.get(j).z < nof(t)))))
        br = S.obj(Branch, attach=t, idx=idx, names=t.fields["names"], source="")
        br.frozen = True
        w = S.int("window")
        S.assume(w.z >= 1)
        kernel = S.arr("real", n=w, name="kernel")
        return dict(self=S.obj(BranchConvSmoother, n_nodes=w, kernel=kernel), x=br)

    def _out(v):
        r = v["result"]
        if not isinstance(r, Obj):
            return None
        a = r.fields.get("attach")
        if not isinstance(a, Obj) or not isinstance(a.fields.get("ndata"), PDict) or a.fields["ndata"].items is None:
            return None
        return r, a, a.fields["ndata"].items

    def sm_detached(E, v, o):
        got = _out(v)
        if got is None:
            return False
        r, a, nd = got
        x0 = o["x"]  # (the carrier rebinds the name x; the input is the entry snapshot, identified by allocation uid)
        if r.uid == x0.uid or r.uid in E.entry_uids or a.uid == x0.fields["attach"].uid or a.uid in E.entry_uids or a.fields["ndata"].uid in E.entry_uids:
            return False
        if set(nd) != set(COLS):
            return False
        return all(isinstance(c, SArr) and c.uid not in E.entry_uids for c in nd.values()) and len({c.uid for c in nd.values()}) == len(nd)

    def sm_count(E, v, o):
        r, a, nd = _out(v)
        L = o["x"].fields["idx"].nz()
        ridx = r.fields["idx"]
        j = z3.Int(fresh_name("j"))
        return z3.And(ridx.nz() == L, z3.ForAll([j], z3.Implies(z3.And(0 <= j, j < L), ridx.get(j).z == j)), *[c.nz() == L for c in nd.values()])

    def sm_kept(cname):
        def f(E, v, o):
            r, a, nd = _out(v)
            x0 = o["x"]
            idx, t = x0.fields["idx"], x0.fields["attach"]
            j = z3.Int(fresh_name("j"))
            return z3.ForAll([j], z3.Implies(z3.And(0 <= j, j < idx.nz()), nd[cname].get(j).z == z3.Select(col(t, cname).arr, idx.get(j).z)))

        return f

    def sm_chain(E, v, o):
        r, a, nd = _out(v)
        L = o["x"].fields["idx"].nz()
        j = z3.Int(fresh_name("j"))
        return z3.ForAll([j], z3.Implies(z3.And(0 <= j, j < L), z3.And(nd["id"].get(j).z == j, nd["pid"].get(j).z == j - 1)))

    def sm_ends(E, v, o):
        r, a, nd = _out(v)
        x0 = o["x"]
        idx, t = x0.fields["idx"], x0.fields["attach"]
        L = idx.nz()
        out = []
        for cname in "xyz":
            for p in (z3.IntVal(0), L - 1):
                out.append(nd[cname].get(p).z == z3.Select(col(t, cname).arr, idx.get(p).z))
        return z3.Implies(L >= 1, z3.And(*out))

    R.add(f"{BR}:BranchConvSmoother.__call__", prop="C16",
          setup=smoother_setup,
          ensures=[("works-on-a-detached-copy-in-fresh-storage", sm_detached),
                   ("node-count-kept", sm_count),
                   ("radii-unchanged", sm_kept("r")),
                   ("types-unchanged", sm_kept("type")),
                   ("connectivity-is-the-chain", sm_chain),
                   ("end-points-unchanged", sm_ends)],
          notes="branch of symbolic length on a tree of symbolic size, window symbolic; input tree, index array and branch object are "
                "frozen (any write to them is a failed frame obligation); scipy.signal.convolve only through its output length")
