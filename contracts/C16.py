"""C16 — resampling and smoothing keep the shape: sidecar contracts (no edit of /repo).

Library behaviour (np.diff/cumsum/insert/concatenate/linspace/interp/ceil/arange, scipy.signal.convolve)
enters through the ASSUMED models of pyvc/ext_C16.py, each listed under trusted_base.
"""
import z3

import pyvc.ext_C16  # noqa: F401  (registers the models)
from pyvc.npmodels import S2Arr
from pyvc.spec import Registry
from pyvc.values import NArr, Obj, PDict, PList, SArr, Sym, fresh_name, to_z3, zint

BR = "swcgeom/transforms/branch.py"
SIZES = (2, 3, 4)


# ---------------------------------------------------------------------------
# specification vocabulary for a polyline given by N knots (x, y, z, r)
def knots(E, xyzr):
    """(P, c, L): P[j] = (x, y, z, r) of knot j as z3 reals; c[j] = arc length of knot j (c[0] = 0,
    c[j+1] = c[j] + |P[j+1] - P[j]|, the norm being the engine's ghost root y >= 0, y*y = sum of squares)."""
    N = xyzr.shape[0]
    it = xyzr.items
    P = [[to_z3(it[4 * j + c], "real") for c in range(4)] for j in range(N)]
    c = [z3.RealVal(0)]
    for j in range(N - 1):
        sq = sum(((P[j + 1][a] - P[j][a]) * (P[j + 1][a] - P[j][a]) for a in range(3)), z3.RealVal(0))
        s = to_z3(E.sqrt(Sym(sq, "real"), nonneg_known=True), "real")
        c.append(c[-1] + s)
    return P, c, c[-1]


def on_polyline(P, c, a, t, val):
    """`val` is coordinate `a` of the point of the polyline at arc length t (0 <= t <= L):
    on the segment j with c[j] <= t < c[j+1] it is P[j] + (P[j+1]-P[j])/(c[j+1]-c[j]) * (t - c[j]) -- linear in arc
    length between knots --, and it is the last knot at t = L."""
    N = len(P)
    out = [z3.Implies(t >= c[N - 1], val == P[N - 1][a])]
    for j in range(N - 1):
        out.append(z3.Implies(z3.And(c[j] <= t, t < c[j + 1]),
                              val == P[j][a] + ((P[j + 1][a] - P[j][a]) / (c[j + 1] - c[j])) * (t - c[j])))
    return z3.And(*out)


def res_view(res):
    """(cols, n) of the (n x 4) result"""
    if not isinstance(res, S2Arr) or res.transposed or res.k != 4:
        return None
    return res.cols, res.nz()


def xyzr_input(S, N):
    a = NArr((N, 4), [S.real(f"p{j}{c}") for j in range(N) for c in "xyzr"], "real")
    a.frozen = True
    return a


def resampler_posts(count_clause):
    """postconditions shared by the two resamplers; n = number of output rows"""

    def shape(E, v, o):
        return res_view(v["result"]) is not None

    def first_pos(E, v, o):
        cols, n = res_view(v["result"])
        P, c, L = knots(E, o["xyzr"])
        return z3.And(n >= 1, *[z3.Select(cols[a], 0) == P[0][a] for a in range(3)])

    def first_radius(E, v, o):
        cols, n = res_view(v["result"])
        P, c, L = knots(E, o["xyzr"])
        return z3.Implies(c[1] > 0, z3.Select(cols[3], 0) == P[0][3])

    def last_point(E, v, o):
        cols, n = res_view(v["result"])
        P, c, L = knots(E, o["xyzr"])
        return z3.And(*[z3.Select(cols[a], n - 1) == P[-1][a] for a in range(4)])

    def on_line(a):
        def f(E, v, o):
            cols, n = res_view(v["result"])
            P, c, L = knots(E, o["xyzr"])
            k = z3.Int(fresh_name("k"))
            step = L / z3.ToReal(n - 1)
            t = z3.ToReal(k) * step
            return z3.Implies(n >= 2, z3.ForAll([k], z3.Implies(z3.And(0 <= k, k < n), z3.And(0 <= t, t <= L, on_polyline(P, c, a, t, z3.Select(cols[a], k))))))

        return f

    return [("result-is-n-by-4", shape), count_clause,
            ("first-sample-at-first-point", first_pos),
            ("first-sample-radius-is-first-radius-when-first-segment-has-length", first_radius),
            ("last-sample-is-last-point-position-and-radius", last_point),
            ("samples-on-polyline-at-equal-arc-steps/x", on_line(0)),
            ("samples-on-polyline-at-equal-arc-steps/y", on_line(1)),
            ("samples-on-polyline-at-equal-arc-steps/z", on_line(2)),
            ("radius-linear-in-arc-length-between-knots", on_line(3))]


def register(R: Registry):
    # ------------------------------------------- BranchIsometricResampler.resample
    def iso_setup(N):
        def f(S):
            from swcgeom.transforms.branch import BranchIsometricResampler

            return dict(self=S.obj(BranchIsometricResampler, distance=S.real("distance"), adjust_last_gap=True), xyzr=xyzr_input(S, N))

        return f

    def iso_count(E, v, o):
        # n = ceil(L / distance) + 1, ceil(q) being the integer c with c - 1 < q <= c
        cols, n = res_view(v["result"])
        P, c, L = knots(E, o["xyzr"])
        q = L / to_z3(o["self"].fields["distance"], "real")
        return z3.And(n >= 1, z3.ToReal(n) - 2 < q, q <= z3.ToReal(n) - 1)

    def iso_step(E, v, o):
        cols, n = res_view(v["result"])
        P, c, L = knots(E, o["xyzr"])
        return z3.Implies(n >= 2, L / z3.ToReal(n - 1) <= to_z3(o["self"].fields["distance"], "real"))

    def iso_single(E, v, o):
        cols, n = res_view(v["result"])
        P, c, L = knots(E, o["xyzr"])
        return z3.And(z3.Implies(L == 0, n == 1), z3.Implies(L > 0, n >= 2))

    def iso_step_hint(E, vars):
        # proof step: ceil(L/d) >= L/d, multiplied through by d > 0
        if "n_nodes" not in vars or "total_length" not in vars:
            return
        L, n, d = to_z3(vars["total_length"], "real"), to_z3(vars["n_nodes"], "int"), to_z3(vars["self"].fields["distance"], "real")
        E.prove("BranchIsometricResampler.resample/step/length-at-most-n-minus-1-spacings", L <= z3.ToReal(n - 1) * d, "annotation")

    R.add(f"{BR}:BranchIsometricResampler.resample", prop="C16",
          variants={f"polyline-of-{N}-points": iso_setup(N) for N in SIZES},
          requires=["spacing-positive :: self.distance > 0"],
          ensures=resampler_posts(("count-is-ceil-of-length-over-spacing-plus-one", iso_count))
          + [("step-not-longer-than-spacing", iso_step), ("zero-length-branch-gives-one-sample-else-at-least-two", iso_single)],
          options=dict(hints={"post/step-not-longer-than-spacing": iso_step_hint}),
          notes="input polyline of exactly 2, 3, 4 points per variant (all 4N numbers symbolic reals); spacing symbolic; "
                "number of output samples symbolic; adjust_last_gap=True (the default, the only mode the property quantifies over)")

    # ---------------------------------------------- BranchLinearResampler.resample
    def lin_setup(N):
        def f(S):
            from swcgeom.transforms.branch import BranchLinearResampler

            return dict(self=S.obj(BranchLinearResampler, n_nodes=S.int("n_nodes")), xyzr=xyzr_input(S, N))

        return f

    def lin_count(E, v, o):
        cols, n = res_view(v["result"])
        return n == to_z3(o["self"].fields["n_nodes"], "int")

    R.add(f"{BR}:BranchLinearResampler.resample", prop="C16",
          variants={f"polyline-of-{N}-points": lin_setup(N) for N in SIZES},
          requires=["at-least-two-target-points :: self.n_nodes >= 2"],
          ensures=resampler_posts(("exactly-the-requested-number-of-points", lin_count)),
          notes="input polyline of exactly 2, 3, 4 points per variant (all 4N numbers symbolic reals); target count symbolic >= 2")

    # ------------------------------------------------- BranchConvSmoother.__call__
    from contracts.common import COLS, col, nof, sym_tree

    def smoother_setup(S):
        from swcgeom.core import Branch
        from swcgeom.transforms.branch import BranchConvSmoother

        t = sym_tree(S, "t", frozen=True)
        idx = S.arr("int", name="bidx")
        idx.frozen = True
        j = z3.Int(fresh_name("j"))
        S.assume(z3.ForAll([j], z3.Implies(z3.And(j >= 0, j < idx.nz()), z3.And(idx.get(j).z >= 0, idx.get(j).z < nof(t)))))
        br = S.obj(Branch, attach=t, idx=idx, names=t.fields["names"], source="")
        br.frozen = True
        w = S.int("window")
        S.assume(w.z >= 1)
        kernel = S.arr("real", n=w, name="kernel")
        # object invariant established by the constructor (`self.kernel = np.ones(n_nodes)`): the kernel is all ones.  With it the divisor
        # `c = convolve(ones(n), kernel, "same")` of `s / c` is >= 1 everywhere (model cross-checked in tools/xcheck_ext_C16.py), which the
        # `safety/div-nonzero` obligation of the elementwise division needs; with an arbitrary kernel `c` can be 0 and s / c is 0/0
        kernel.arr = z3.K(z3.IntSort(), z3.RealVal(1))
        return dict(self=S.obj(BranchConvSmoother, n_nodes=w, kernel=kernel), x=br)

    def _out(v):
        r = v["result"]
        if not isinstance(r, Obj):
            return None
        a = r.fields.get("attach")
        if not isinstance(a, Obj) or not isinstance(a.fields.get("ndata"), PDict) or a.fields["ndata"].items is None:
            return None
        return r, a, a.fields["ndata"].items

    def sm_detached(E, v, o):
        got = _out(v)
        if got is None:
            return False
        r, a, nd = got
        x0 = o["x"]  # (the carrier rebinds the name x; the input is the entry snapshot, identified by allocation uid)
        if r.uid == x0.uid or r.uid in E.entry_uids or a.uid == x0.fields["attach"].uid or a.uid in E.entry_uids or a.fields["ndata"].uid in E.entry_uids:
            return False
        if set(nd) != set(COLS):
            return False
        return all(isinstance(c, SArr) and c.uid not in E.entry_uids for c in nd.values()) and len({c.uid for c in nd.values()}) == len(nd)

    def sm_count(E, v, o):
        r, a, nd = _out(v)
        L = o["x"].fields["idx"].nz()
        ridx = r.fields["idx"]
        j = z3.Int(fresh_name("j"))
        return z3.And(ridx.nz() == L, z3.ForAll([j], z3.Implies(z3.And(0 <= j, j < L), ridx.get(j).z == j)), *[c.nz() == L for c in nd.values()])

    def sm_kept(cname):
        def f(E, v, o):
            r, a, nd = _out(v)
            x0 = o["x"]
            idx, t = x0.fields["idx"], x0.fields["attach"]
            j = z3.Int(fresh_name("j"))
            return z3.ForAll([j], z3.Implies(z3.And(0 <= j, j < idx.nz()), nd[cname].get(j).z == z3.Select(col(t, cname).arr, idx.get(j).z)))

        return f

    def sm_chain(E, v, o):
        r, a, nd = _out(v)
        L = o["x"].fields["idx"].nz()
        j = z3.Int(fresh_name("j"))
        return z3.ForAll([j], z3.Implies(z3.And(0 <= j, j < L), z3.And(nd["id"].get(j).z == j, nd["pid"].get(j).z == j - 1)))

    def sm_ends(E, v, o):
        r, a, nd = _out(v)
        x0 = o["x"]
        idx, t = x0.fields["idx"], x0.fields["attach"]
        L = idx.nz()
        out = []
        for cname in "xyz":
            for p in (z3.IntVal(0), L - 1):
                out.append(nd[cname].get(p).z == z3.Select(col(t, cname).arr, idx.get(p).z))
        return z3.Implies(L >= 1, z3.And(*out))

    R.add(f"{BR}:BranchConvSmoother.__call__", prop="C16",
          setup=smoother_setup,
          ensures=[("works-on-a-detached-copy-in-fresh-storage", sm_detached),
                   ("node-count-kept", sm_count),
                   ("radii-unchanged", sm_kept("r")),
                   ("types-unchanged", sm_kept("type")),
                   ("connectivity-is-the-chain", sm_chain),
                   ("end-points-unchanged", sm_ends)],
          notes="branch of symbolic length on a tree of symbolic size, window symbolic; input tree, index array and branch object are "
                "frozen (any write to them is a failed frame obligation); kernel = ones(window) as the constructor leaves it; "
                "scipy.signal.convolve only through its output length and `convolve(ones, ones) >= 1`")

    # ------------------------------------------------ _BranchResampler.__call__
    # the user-facing call  Resampler(...)(branch): reads the branch through its window, resamples, builds a NEW branch
    def call_setup(kind, N):
        def f(S):
            from swcgeom.core import Branch
            from swcgeom.transforms.branch import BranchIsometricResampler, BranchLinearResampler

            t = sym_tree(S, "t", frozen=True)
            idx = NArr((N,), [S.int(f"bidx{k}") for k in range(N)], "int")
            idx.frozen = True
            for q in idx.items:
                S.assume(z3.And(q.z >= 0, q.z < nof(t)))
            br = S.obj(Branch, attach=t, idx=idx, names=t.fields["names"], source="")
            br.frozen = True
            if kind == "isometric":
                me = S.obj(BranchIsometricResampler, distance=S.real("distance"), adjust_last_gap=True)
            else:
                me = S.obj(BranchLinearResampler, n_nodes=S.int("n_nodes"))
            return dict(self=me, x=br, kind=kind)

        return f

    def call_pre(E, v, o):
        me = v["self"]
        if v["kind"] == "isometric":
            return to_z3(me.fields["distance"], "real") > 0
        return to_z3(me.fields["n_nodes"], "int") >= 2

    def _node(v, o, p):
        """(x, y, z, r) of node p of the input branch"""
        x0 = o["x"]
        t, idx = x0.fields["attach"], x0.fields["idx"]
        return [z3.Select(col(t, c).arr, to_z3(idx.items[p], "int")) for c in "xyzr"]

    def call_fresh(E, v, o):
        got = _out(v)
        if got is None:
            return False
        r, a, nd = got
        if r.uid in E.entry_uids or a.uid in E.entry_uids or set(nd) != set(COLS):
            return False
        return all(isinstance(c, SArr) and c.uid not in E.entry_uids for c in nd.values())

    def call_count(E, v, o):
        r, a, nd = _out(v)
        n = nd["x"].nz()
        me = o["self"]
        same = z3.And(r.fields["idx"].nz() == n, *[c.nz() == n for c in nd.values()])
        if v["kind"] == "linear":
            return z3.And(same, n == to_z3(me.fields["n_nodes"], "int"))
        N = o["x"].fields["idx"].shape[0]
        pts = [_node(v, o, p) for p in range(N)]
        L = z3.RealVal(0)
        for p in range(N - 1):
            sq = sum(((pts[p + 1][a_] - pts[p][a_]) * (pts[p + 1][a_] - pts[p][a_]) for a_ in range(3)), z3.RealVal(0))
            L = L + to_z3(E.sqrt(Sym(sq, "real"), nonneg_known=True), "real")
        q = L / to_z3(me.fields["distance"], "real")
        return z3.And(same, n >= 1, z3.ToReal(n) - 2 < q, q <= z3.ToReal(n) - 1)

    def call_ends(E, v, o):
        r, a, nd = _out(v)
        n = nd["x"].nz()
        N = o["x"].fields["idx"].shape[0]
        first, last = _node(v, o, 0), _node(v, o, N - 1)
        out = [nd[c].get(0).z == first[j] for j, c in enumerate("xyz")]
        out += [nd[c].get(n - 1).z == last[j] for j, c in enumerate("xyzr")]
        return z3.And(n >= 1, *out)

    def call_chain(E, v, o):
        r, a, nd = _out(v)
        n = nd["x"].nz()
        j = z3.Int(fresh_name("j"))
        return z3.ForAll([j], z3.Implies(z3.And(0 <= j, j < n), z3.And(nd["id"].get(j).z == j, nd["pid"].get(j).z == j - 1, r.fields["idx"].get(j).z == j)))

    R.add(f"{BR}:_BranchResampler.__call__", prop="C16",
          variants={f"{kind}-branch-of-{N}-nodes": call_setup(kind, N) for kind in ("isometric", "linear") for N in SIZES},
          requires=[("spacing-positive-or-at-least-two-target-points", call_pre)],
          ensures=[("result-is-a-new-branch-in-fresh-storage", call_fresh),
                   ("node-count", call_count),
                   ("end-points-kept", call_ends),
                   ("nodes-chained-in-order", call_chain)],
          notes="branch of exactly 2, 3, 4 nodes (variants) attached to a tree of symbolic size through symbolic node indices; "
                "input tree / index array / branch frozen; resample() is inlined")

    # ------------------------------------------------ BranchTreeAssembler.__call__
    register_assembler(R)
    register_tree_level(R)


BT = "swcgeom/transforms/branch_tree.py"
ATTRS = ("type", "x", "y", "z", "r")
EPS = "1/1000000"


def _frozen(v):
    v.frozen = True
    return v


def _swc_cols(S, name, n, ids=None, pids=None):
    cols = {}
    for c, k in dict(id="int", type="int", x="real", y="real", z="real", r="real", pid="int").items():
        if c == "id" and ids is not None:
            items = list(ids)
        elif c == "pid" and pids is not None:
            items = list(pids)
        else:
            items = [S.int(f"{name}_{c}{i}") if k == "int" else S.real(f"{name}_{c}{i}") for i in range(n)]
        cols[c] = _frozen(NArr((n,), items, k))
    return cols


def branch_tree_input(S, pids, sizes, order=None, exact=False):
    """A BranchTree with the concrete topology `pids` (node j+1 hangs under pids[j+1]) and, for every edge, a resampled
    branch of sizes[edge] points with fully symbolic attributes.  `order[p]` = the order in which the branches of junction p
    are STORED in x.branches[p] (a permutation of the positions of p's children; default: child order).  `exact`: the last
    point of every branch IS the position of its child junction (the same three symbols), as the resamplers deliver it."""
    from swcgeom.core import Branch, BranchTree, DictSWC
    from swcgeom.core.swc_utils import get_names, get_types

    n = len(pids)
    jcols = _swc_cols(S, "J", n, ids=range(n), pids=pids)
    nd = _frozen(PDict(jcols))
    x = S.obj(BranchTree, ndata=nd, names=get_names(), types=get_types(), source="", comments=PList([]))
    x.frozen = True
    branches = {}
    blist = []
    for child in range(1, n):
        q = sizes[child - 1]
        bcols = _swc_cols(S, f"B{child}", q)
        if exact:
            for a in "xyz":
                items = list(bcols[a].items)
                items[q - 1] = jcols[a].items[child]
                bcols[a] = _frozen(NArr((q,), items, "real"))
        bnd = _frozen(PDict(bcols))
        att = S.obj(DictSWC, ndata=bnd, names=get_names(), types=get_types(), source="", comments=PList([]))
        att.frozen = True
        br = S.obj(Branch, attach=att, idx=_frozen(NArr((q,), list(range(q)), "int")), names=get_names(), source="")
        br.frozen = True
        branches.setdefault(pids[child], []).append(br)
        blist.append((pids[child], child, br))
    for p, perm in (order or {}).items():
        branches[p] = [branches[p][k] for k in perm]
    bd = PDict({k: _frozen(PList(v)) for k, v in branches.items()})
    bd.frozen = True
    x.fields["branches"] = bd
    return x, blist


def register_assembler(R):
    def setup(pids, sizes, order=None, exact=False):
        def f(S):
            from swcgeom.transforms.branch_tree import BranchTreeAssembler

            x, blist = branch_tree_input(S, pids, sizes, order, exact)
            return dict(self=S.obj(BranchTreeAssembler), x=x, blist=blist, exact=exact)

        return f

    def val(colv, i):
        return to_z3(colv.items[i], colv.kind)

    def ends_coincide(E, v, o):
        """both end points of every resampled branch lie on their junction nodes (within the assembler's EPS)"""
        x = v["x"]
        J = x.fields["ndata"].items
        out = []
        for (p, c, br) in v["blist"]:
            B = br.fields["attach"].fields["ndata"].items
            q = B["x"].shape[0]
            for (bi, ji) in ((0, p), (q - 1, c)):
                sq = sum(((val(B[a], bi) - val(J[a], ji)) * (val(B[a], bi) - val(J[a], ji)) for a in "xyz"), z3.RealVal(0))
                out.append(to_z3(E.sqrt(Sym(sq, "real"), nonneg_known=True), "real") < z3.RealVal(EPS))
        return z3.And(*out)

    def _kids(v):
        """{junction: [(child, its true branch)]} in child order"""
        kids = {}
        for (p, c, br) in v["blist"]:
            kids.setdefault(p, []).append((c, br))
        return kids

    def single_file(v):
        return all(len(k) == 1 for k in _kids(v).values())

    def choices(v):
        """every way the assembler may legally go through the tree: per junction an ORDERED list of (branch, child) pairs in which
        every branch of the junction and every child occurs exactly once (which branch goes with which child is decided by
        position, in which order the pairs are emitted is left open)"""
        import itertools

        kids = _kids(v)
        per = []
        for p, lst in kids.items():
            cs, bs = [c for c, _ in lst], [b for _, b in lst]
            per.append([(p, list(zip(bp, cp))) for bp in itertools.permutations(bs) for cp in itertools.permutations(cs)])
        for combo in itertools.product(*per):
            yield dict(combo)

    def expected_rows(v, choice=None):
        """the rows the property demands, in emission order: (attribute source, new id, new pid).  Junctions are visited in the
        order of a stack; the (branch, child) pairs of a junction in the order given by `choice` (default: each child with its own
        branch, in child order)."""
        x = v["x"]
        J = x.fields["ndata"].items
        if choice is None:
            choice = {p: [(br, c) for (c, br) in lst] for p, lst in _kids(v).items()}
        rows = [((J, 0), 0, -1)]
        stack = [(0, 0)]
        while stack:
            n, pid_new = stack.pop()
            for (br, c) in choice.get(n, []):
                B = br.fields["attach"].fields["ndata"].items
                q = B["x"].shape[0]
                prev = pid_new
                for i in range(1, q - 1):  # the q-2 interior samples, none dropped
                    rows.append(((B, i), len(rows), prev))
                    prev = len(rows) - 1
                rows.append(((J, c), len(rows), prev))
                stack.append((c, len(rows) - 1))
        return rows

    def choice_valid(v, choice):
        """every chosen branch ends exactly where its chosen child sits"""
        J = v["x"].fields["ndata"].items
        out = []
        for p, pairs in choice.items():
            for (br, c) in pairs:
                B = br.fields["attach"].fields["ndata"].items
                q = B["x"].shape[0]
                out += [val(B[a], q - 1) == val(J[a], c) for a in "xyz"]
        return z3.And(*out) if out else z3.BoolVal(True)

    def _res(v):
        r = v["result"]
        if not isinstance(r, Obj):
            return None
        nd = r.fields.get("ndata")
        if not isinstance(nd, PDict) or nd.items is None or set(nd.items) != {"id", "type", "x", "y", "z", "r", "pid"}:
            return None
        if not all(isinstance(c, NArr) and c.ndim == 1 for c in nd.items.values()):
            return None
        return nd.items

    def post_count(E, v, o):
        cols = _res(v)
        if cols is None:
            return False
        n = len(expected_rows(o))
        return all(c.shape == (n,) for c in cols.values())

    def rows_equal(cols, rows):
        out = []
        for k, ((src, i), nid, npid) in enumerate(rows):
            out.append(val(cols["id"], k) == nid)
            out.append(val(cols["pid"], k) == npid)
            for a in ATTRS:
                out.append(to_z3(cols[a].items[k], src[a].kind) == val(src[a], i))
        return z3.And(*out)

    def post_rows(E, v, o):
        cols = _res(v)
        rows = expected_rows(o)
        if cols is None or any(c.shape != (len(rows),) for c in cols.values()):
            return False
        if single_file(o):
            return rows_equal(cols, rows)
        # several branches under one junction: some legal pairing (each branch once, each child once, every branch with a child
        # at its end position), emitted in some order
        return z3.Or(*[z3.And(choice_valid(o, ch), rows_equal(cols, expected_rows(o, ch))) for ch in choices(o)])

    def post_is_tree(E, v, o):
        from swcgeom.core import Tree

        r = v["result"]
        return isinstance(r, Obj) and r.cls is Tree and r.uid not in E.entry_uids

    def coincidence_hint(E, vars):
        """proof step for the fork variants: a distance of zero between a branch end and a child means equal coordinates
        (instances of the abstract lemma `sum-of-three-squares-zero`, itself an obligation of the property)"""
        from pyvc import lemmas

        if single_file(vars) or E.ghost.get("c16-coincidence-hint"):
            return
        E.ghost["c16-coincidence-hint"] = True
        J = vars["x"].fields["ndata"].items
        for p, lst in _kids(vars).items():
            if len(lst) < 2:
                continue
            for (_, br) in lst:
                B = br.fields["attach"].fields["ndata"].items
                q = B["x"].shape[0]
                for (c, _) in lst:
                    d = [z3.simplify(val(B[a], q - 1) - val(J[a], c)) for a in "xyz"]
                    if all(z3.is_rational_value(t) for t in d):
                        continue
                    lemmas.use(E, "sum-of-three-squares-zero", *d)

    VARIANTS = {}
    for q in (2, 3, 4):
        VARIANTS[f"stem-with-{q}-samples"] = setup([-1, 0], [q])
    for q1, q2 in ((2, 3), (3, 2), (3, 3), (4, 3)):
        VARIANTS[f"two-branches-in-sequence-{q1}-{q2}-samples"] = setup([-1, 0, 1], [q1, q2])
    # several branches under one junction (pair() decides by position which branch goes to which child); the per-junction branch
    # list is stored in child order or permuted; children may coincide (nothing says they are apart)
    for (q1, q2), perm in (((3, 3), (0, 1)), ((2, 3), (1, 0)), ((3, 2), (1, 0))):
        VARIANTS[f"fork-of-two-{q1}-{q2}-samples-stored-{''.join(map(str, perm))}"] = setup([-1, 0, 0], [q1, q2], {0: perm}, exact=True)
    for perm in ((0, 1, 2), (1, 2, 0)):
        VARIANTS[f"fork-of-three-3-2-3-samples-stored-{''.join(map(str, perm))}"] = setup([-1, 0, 0, 0], [3, 2, 3], {0: perm}, exact=True)
    VARIANTS["stem-then-fork-of-two-2-3-3-samples-stored-10"] = setup([-1, 0, 1, 1], [2, 3, 3], {1: (1, 0)}, exact=True)

    R.add(f"{BT}:BranchTreeAssembler.__call__", prop="C16",
          variants=VARIANTS,
          requires=[("branch-end-points-lie-on-their-junctions", ends_coincide)],
          ensures=[("result-is-a-new-tree", post_is_tree),
                   ("node-count-is-junctions-plus-all-interior-samples", post_count),
                   ("rows-are-interior-samples-then-end-junction-chained-by-pid", post_rows)],
          options=dict(hints={"post/rows-are-interior-samples-then-end-junction-chained-by-pid": coincidence_hint}),
          notes="fixed shapes per variant: a root with one branch of q in {2,3,4} resampled points, and two branches in sequence "
                "(junction 0 -> 1 -> 2) of (q1,q2) points; all coordinates, radii and types symbolic; every input object frozen. "
                "forks of two / three branches under the root and a fork of two below a stem, the branch lists stored in child order or "
                "permuted (identity, swap, a 3-cycle), every branch ending exactly on its child (shared symbols), "
                "children free to coincide; pair() is inlined (np.argmin forks on the comparisons)")


# ===========================================================================================================================
# tree level: Resampler.__call__ / TreeSmoother.__call__ on trees of a fixed CONCRETE topology (every attribute symbolic).
# BranchTree.from_tree, get_branches, the traversal, the per-branch resampler / smoother and the assembler are executed from their
# current source (nothing between the carrier and the numpy models is assumed).
TT = "swcgeom/transforms/tree.py"
MAX_GAPS = 2  # fixed-size bound of the tree-level resampling variants: every branch is at most MAX_GAPS spacings long


def fixed_topology_tree(S, pids, name="t"):
    """a Tree whose id / pid columns are the given concrete topology (id[i] = i), type / x / y / z / r symbolic; frozen"""
    from contracts.common import sym_tree_fixed

    n = len(pids)
    t = sym_tree_fixed(S, n, name, frozen=True)
    for cname, vals in (("id", list(range(n))), ("pid", [int(p) for p in pids])):
        a = _frozen(NArr((n,), vals, "int"))
        nd = t.fields["ndata"]
        fz, nd.frozen = nd.frozen, False
        nd.items[cname] = a
        nd.frozen = fz
    return t


def topo_branches(pids):
    """(critical nodes, branches) of a parent vector: critical = root, furcations, tips; a branch = node sequence from one critical
    node to the next (the textbook decomposition, independent of the library)"""
    n = len(pids)
    kids = {i: [j for j in range(n) if pids[j] == i] for i in range(n)}
    crit = [i for i in range(n) if pids[i] < 0 or len(kids[i]) != 1]
    out = []
    for c in crit:
        for k in kids[c]:
            chain = [c, k]
            while chain[-1] not in crit:
                chain.append(kids[chain[-1]][0])
            out.append(chain)
    return crit, out


def _tree_cols(t):
    nd = t.fields.get("ndata") if isinstance(t, Obj) else None
    if not isinstance(nd, PDict) or nd.items is None:
        return None
    return nd.items


def _ints(a):
    if isinstance(a, NArr) and a.ndim == 1 and all(isinstance(x, int) and not isinstance(x, bool) for x in a.items):
        return list(a.items)
    return None


def branch_geometry(E, cols, seq):
    """(P, c, L) of the polyline through the nodes `seq` of the tree columns `cols` (see knots)"""
    P = [[to_z3(cols[a].items[j], "real") for a in "xyzr"] for j in seq]
    c = [z3.RealVal(0)]
    for j in range(len(seq) - 1):
        sq = sum(((P[j + 1][a] - P[j][a]) * (P[j + 1][a] - P[j][a]) for a in range(3)), z3.RealVal(0))
        c.append(c[-1] + to_z3(E.sqrt(Sym(sq, "real"), nonneg_known=True), "real"))
    return P, c, c[-1]


INLINE_TREE = ["swc_utils/base.py:traverse", "swc_utils/base.py:_traverse_dfs", ":Tree.traverse", ":Tree.Node.traverse", ":to_sub_topology", ":Tree.get_branches",
               ":Tree.Node.parent", ":Tree.Node.children", ":Node.is_furcation", ":Node.is_tip", ":BranchTree.from_tree", ":Node.distance"]


def _ext8():
    from pyvc import ext_C08

    return ext_C08


def register_tree_level(R):
    # ------------------------------------------------------------------ Resampler.__call__ (through IsometricResampler)
    def rs_setup(pids):
        def f(S):
            from swcgeom.transforms.tree import IsometricResampler

            d = S.real("distance")
            S.assume(d.z > 0)
            me = S.new(IsometricResampler, d)
            return dict(self=me, x=fixed_topology_tree(S, pids), distance=d)

        return f

    def rs_pre(E, v, o):
        cols = _tree_cols(v["x"])
        d = to_z3(v["distance"], "real")
        out = [d > 0]
        for seq in topo_branches(_ints(cols["pid"]))[1]:
            P, c, L = branch_geometry(E, cols, seq)
            out += [L > 0, L / d <= MAX_GAPS]
        return z3.And(*out)

    def rs_view(E, v, o):
        """(original columns, result columns, [(branch node sequence, result rows of the branch incl. both ends)]) when the result
        is a tree table with the same critical nodes joined by chains in the same way, else None.  Chains only are matched by
        structure here: root first, the branches in the order of the textbook decomposition."""
        from swcgeom.core import Tree

        r = v["result"]
        oc, rc = _tree_cols(o["x"]), _tree_cols(r)
        if rc is None or not (isinstance(r, Obj) and issubclass(r.cls, Tree)):
            return None
        ids, ps = _ints(rc.get("id")), _ints(rc.get("pid"))
        if ids is None or ps is None or ids != list(range(len(ids))) or not ids or ps[0] != -1:
            return None
        if any(not isinstance(a, NArr) or a.shape != (len(ids),) for a in rc.values()) or any(not 0 <= q < k for k, q in enumerate(ps) if k):
            return None
        pids = _ints(oc["pid"])
        crit, brs = topo_branches(pids)
        rcrit, rbrs = topo_branches(ps)
        if len(rcrit) != len(crit) or len(rbrs) != len(brs):
            return None
        # match critical nodes: root with root, then along the branches in order (the k-th branch leaving a matched node with the
        # k-th chain leaving its image)
        img, pairs, todo = {crit[0]: rcrit[0]}, [], [crit[0]]
        while todo:
            c = todo.pop()
            mine = [b for b in brs if b[0] == c]
            theirs = [b for b in rbrs if b[0] == img[c]]
            if len(mine) != len(theirs):
                return None
            for b, rb in zip(mine, theirs):
                img[b[-1]] = rb[-1]
                pairs.append((b, rb))
                todo.append(b[-1])
        return oc, rc, pairs, img

    def rs_fresh(E, v, o):
        r = v["result"]
        rc = _tree_cols(r)
        return rc is not None and r.uid not in E.entry_uids and all(a.root().uid not in E.entry_uids for a in rc.values() if hasattr(a, "root"))

    def rs_critical(E, v, o):
        vw = rs_view(E, v, o)
        if vw is None:
            return False
        oc, rc, pairs, img = vw
        out = []
        for a, k in img.items():
            for cname in ATTRS:
                out.append(to_z3(rc[cname].items[k], oc[cname].kind) == to_z3(oc[cname].items[a], oc[cname].kind))
        return z3.And(*out)

    def rs_samples(which):
        def f(E, v, o):
            vw = rs_view(E, v, o)
            if vw is None:
                return False
            oc, rc, pairs, img = vw
            out = []
            for b, rb in pairs:
                P, c, L = branch_geometry(E, oc, b)
                m = len(rb) - 1
                for k in range(1, m):
                    t = z3.RealVal(k) * L / z3.RealVal(m)
                    out.append(on_polyline(P, c, which, t, to_z3(rc["xyzr"[which]].items[rb[k]], "real")))
            return z3.And(*out) if out else True

        return f

    def rs_step(E, v, o):
        vw = rs_view(E, v, o)
        if vw is None:
            return False
        oc, rc, pairs, img = vw
        d = to_z3(o["distance"], "real")
        return z3.And(*[branch_geometry(E, oc, b)[2] / z3.RealVal(len(rb) - 1) <= d for b, rb in pairs])

    def rs_step_hint(E, vars):
        """proof step: L/d <= m and d > 0 give L <= m*d (instances of the abstract lemma `quotient-bound`, an obligation of its own)"""
        from pyvc import lemmas

        if "quotient-bound" not in lemmas.LEMMAS:
            lemmas.lemma("quotient-bound", 3)(lambda L, d, m: z3.Implies(z3.And(d > 0, L / d <= m), L <= m * d))
        x0 = vars.get("x")
        cols = _tree_cols(x0) if isinstance(x0, Obj) else None
        if cols is None or _ints(cols.get("pid")) is None or "distance" not in vars:
            return
        d = to_z3(vars["distance"], "real")
        for seq in topo_branches(_ints(cols["pid"]))[1]:
            L = branch_geometry(E, cols, seq)[2]
            for m in range(1, MAX_GAPS + 1):
                lemmas.use(E, "quotient-bound", L, d, z3.RealVal(m))

    CHAINS = {"chain-of-2": [-1, 0], "chain-of-3": [-1, 0, 1]}
    R.add(f"{TT}:Resampler.__call__", prop="C16",
          variants={nm: rs_setup(p) for nm, p in CHAINS.items()},
          requires=[("spacing-positive-and-every-branch-of-positive-length-at-most-%d-spacings" % MAX_GAPS, rs_pre)],
          ensures=[("result-is-a-new-tree-in-fresh-storage", rs_fresh),
                   ("root-furcations-and-tips-kept-with-their-attributes-and-connectivity", rs_critical),
                   ("samples-on-polyline-at-equal-arc-steps/x", rs_samples(0)),
                   ("samples-on-polyline-at-equal-arc-steps/y", rs_samples(1)),
                   ("samples-on-polyline-at-equal-arc-steps/z", rs_samples(2)),
                   ("radius-linear-in-arc-length-between-knots", rs_samples(3)),
                   ("step-not-longer-than-spacing", rs_step)],
          options=dict(split_small_counts=True, models=_ext8().MODELS, inline_calls=INLINE_TREE, hints={"post/step-not-longer-than-spacing": rs_step_hint}),
          notes="FIXED topology and FIXED size: unbranched trees of 2 and 3 nodes (one branch of 2 or 3 knots, every coordinate / radius / "
                "type symbolic, segments may have length zero), self = IsometricResampler as its real constructor builds it, spacing "
                "symbolic, branch length in (0, %d spacings] so that the sample count is case-split (2..%d samples); from_tree, the branch "
                "resampler and the assembler are inlined.  Forks are covered at the assembler (fork variants) and by the bounded stand-in." % (MAX_GAPS, MAX_GAPS + 1))

    # ------------------------------------------------------------------ TreeSmoother.__call__
    def sm_setup(pids):
        def f(S):
            from swcgeom.transforms.branch import BranchConvSmoother
            from swcgeom.transforms.tree import TreeSmoother

            w = S.int("window")
            S.assume(w.z >= 1)
            return dict(self=S.new(TreeSmoother, w), x=fixed_topology_tree(S, pids))

        return f

    def sm_view(v, o):
        oc, rc = _tree_cols(o["x"]), _tree_cols(v["result"])
        if rc is None or set(rc) != set(oc):
            return None
        n = len(_ints(oc["pid"]))
        if any(not isinstance(a, NArr) or a.shape != (n,) for a in rc.values()):
            return None
        return oc, rc, n

    def sm_fresh(E, v, o):
        r = v["result"]
        vw = sm_view(v, o)
        return vw is not None and r.uid != o["x"].uid and r.uid not in E.entry_uids and all(a.root().uid not in E.entry_uids for a in vw[1].values())

    def sm_same(names):
        def f(E, v, o):
            vw = sm_view(v, o)
            if vw is None:
                return False
            oc, rc, n = vw
            return z3.And(*[to_z3(rc[c].items[k], oc[c].kind) == to_z3(oc[c].items[k], oc[c].kind) for c in names for k in range(n)])

        return f

    def sm_ends(E, v, o):
        vw = sm_view(v, o)
        if vw is None:
            return False
        oc, rc, n = vw
        crit, _ = topo_branches(_ints(oc["pid"]))
        return z3.And(*[to_z3(rc[c].items[k], "real") == to_z3(oc[c].items[k], "real") for c in "xyz" for k in crit])

    SHAPES = {"single-node": [-1], "chain-of-2": [-1, 0], "chain-of-4": [-1, 0, 1, 2], "fork-at-root": [-1, 0, 0], "stem-then-fork": [-1, 0, 1, 1],
              "two-edge-stem-then-fork-with-long-arms": [-1, 0, 1, 2, 2, 3, 4], "root-fork-with-a-fork-below": [-1, 0, 0, 1, 1, 2]}
    R.add(f"{TT}:TreeSmoother.__call__", prop="C16",
          variants={nm: sm_setup(p) for nm, p in SHAPES.items()},
          ensures=[("result-is-a-new-tree-in-fresh-storage", sm_fresh),
                   ("node-count-and-connectivity-kept", sm_same(("id", "pid"))),
                   ("radii-and-types-unchanged", sm_same(("r", "type"))),
                   ("root-furcations-and-tips-keep-their-position", sm_ends)],
          options=dict(models=_ext8().MODELS, inline_calls=INLINE_TREE),
          notes="FIXED topology (7 shapes up to 7 nodes, all attributes symbolic, window symbolic >= 1, self = TreeSmoother as its real constructor builds it); the input tree is frozen (a write to it "
                "is a failed frame obligation); get_branches, the traversal and BranchConvSmoother.__call__ are inlined; "
                "scipy.signal.convolve only through its output length")
