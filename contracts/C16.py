"""C16 — resampling and smoothing keep the shape: sidecar contracts (no edit of /repo).

Library behaviour (np.diff/cumsum/insert/concatenate/linspace/interp/ceil/arange, scipy.signal.convolve)
enters through the ASSUMED models of pyvc/ext_C16.py, each listed under trusted_base.
"""
import z3

import pyvc.ext_C16  # noqa: F401  (registers the models)
from pyvc.npmodels import S2Arr
from pyvc.spec import Registry
from pyvc.values import NArr, Obj, PDict, PList, SArr, Sym, fresh_name, to_z3, zint

BR = "swcgeom/transforms/branch.py"
SIZES = (2, 3, 4)


# ---------------------------------------------------------------------------
# specification vocabulary for a polyline given by N knots (x, y, z, r)
def knots(E, xyzr):
    """(P, c, L): P[j] = (x, y, z, r) of knot j as z3 reals; c[j] = arc length of knot j (c[0] = 0,
    c[j+1] = c[j] + |P[j+1] - P[j]|, the norm being the engine's ghost root y >= 0, y*y = sum of squares)."""
    N = xyzr.shape[0]
    it = xyzr.items
    P = [[to_z3(it[4 * j + c], "real") for c in range(4)] for j in range(N)]
    c = [z3.RealVal(0)]
    for j in range(N - 1):
        sq = sum(((P[j + 1][a] - P[j][a]) * (P[j + 1][a] - P[j][a]) for a in range(3)), z3.RealVal(0))
        s = to_z3(E.sqrt(Sym(sq, "real"), nonneg_known=True), "real")
        c.append(c[-1] + s)
    return P, c, c[-1]


def on_polyline(P, c, a, t, val):
    """`val` is coordinate `a` of the point of the polyline at arc length t (0 <= t <= L):
    on the segment j with c[j] <= t < c[j+1] it is P[j] + (P[j+1]-P[j])/(c[j+1]-c[j]) * (t - c[j]) -- linear in arc
    length between knots --, and it is the last knot at t = L."""
    N = len(P)
    out = [z3.Implies(t >= c[N - 1], val == P[N - 1][a])]
    for j in range(N - 1):
        out.append(z3.Implies(z3.And(c[j] <= t, t < c[j + 1]),
                              val == P[j][a] + ((P[j + 1][a] - P[j][a]) / (c[j + 1] - c[j])) * (t - c[j])))
    return z3.And(*out)


def res_view(res):
    """(cols, n) of the (n x 4) result"""
    if not isinstance(res, S2Arr) or res.transposed or res.k != 4:
        return None
    return res.cols, res.nz()


def xyzr_input(S, N):
    a = NArr((N, 4), [S.real(f"p{j}{c}") for j in range(N) for c in "xyzr"], "real")
    a.frozen = True
    return a


def resampler_posts(count_clause):
    """postconditions shared by the two resamplers; n = number of output rows"""

    def shape(E, v, o):
        return res_view(v["result"]) is not None

    def first_pos(E, v, o):
        cols, n = res_view(v["result"])
        P, c, L = knots(E, o["xyzr"])
        return z3.And(n >= 1, *[z3.Select(cols[a], 0) == P[0][a] for a in range(3)])

    def first_radius(E, v, o):
        cols, n = res_view(v["result"])
        P, c, L = knots(E, o["xyzr"])
        return z3.Implies(c[1] > 0, z3.Select(cols[3], 0) == P[0][3])

    def last_point(E, v, o):
        cols, n = res_view(v["result"])
        P, c, L = knots(E, o["xyzr"])
        return z3.And(*[z3.Select(cols[a], n - 1) == P[-1][a] for a in range(4)])

    def on_line(a):
        def f(E, v, o):
            cols, n = res_view(v["result"])
            P, c, L = knots(E, o["xyzr"])
            k = z3.Int(fresh_name("k"))
            step = L / z3.ToReal(n - 1)
            t = z3.ToReal(k) * step
            return z3.Implies(n >= 2, z3.ForAll([k], z3.Implies(z3.And(0 <= k, k < n), z3.And(0 <= t, t <= L, on_polyline(P, c, a, t, z3.Select(cols[a], k))))))

        return f

    return [("result-is-n-by-4", shape), count_clause,
            ("first-sample-at-first-point", first_pos),
            ("first-sample-radius-is-first-radius-when-first-segment-has-length", first_radius),
            ("last-sample-is-last-point-position-and-radius", last_point),
            ("samples-on-polyline-at-equal-arc-steps/x", on_line(0)),
            ("samples-on-polyline-at-equal-arc-steps/y", on_line(1)),
            ("samples-on-polyline-at-equal-arc-steps/z", on_line(2)),
            ("radius-linear-in-arc-length-between-knots", on_line(3))]


def register(R: Registry):
    # ------------------------------------------- BranchIsometricResampler.resample
    def iso_setup(N):
        def f(S):
            from swcgeom.transforms.branch import BranchIsometricResampler

            return dict(self=S.obj(BranchIsometricResampler, distance=S.real("distance"), adjust_last_gap=True), xyzr=xyzr_input(S, N))

        return f

    def iso_count(E, v, o):
        # n = ceil(L / distance) + 1, ceil(q) being the integer c with c - 1 < q <= c
        cols, n = res_view(v["result"])
        P, c, L = knots(E, o["xyzr"])
        q = L / to_z3(o["self"].fields["distance"], "real")
        return z3.And(n >= 1, z3.ToReal(n) - 2 < q, q <= z3.ToReal(n) - 1)

    def iso_step(E, v, o):
        cols, n = res_view(v["result"])
        P, c, L = knots(E, o["xyzr"])
        return z3.Implies(n >= 2, L / z3.ToReal(n - 1) <= to_z3(o["self"].fields["distance"], "real"))

    def iso_single(E, v, o):
        cols, n = res_view(v["result"])
        P, c, L = knots(E, o["xyzr"])
        return z3.And(z3.Implies(L == 0, n == 1), z3.Implies(L > 0, n >= 2))

    def iso_step_hint(E, vars):
        # proof step: ceil(L/d) >= L/d, multiplied through by d > 0
        if "n_nodes" not in vars or "total_length" not in vars:
            return
        L, n, d = to_z3(vars["total_length"], "real"), to_z3(vars["n_nodes"], "int"), to_z3(vars["self"].fields["distance"], "real")
        E.prove("BranchIsometricResampler.resample/step/length-at-most-n-minus-1-spacings", L <= z3.ToReal(n - 1) * d, "annotation")

    R.add(f"{BR}:BranchIsometricResampler.resample", prop="C16",
          variants={f"polyline-of-{N}-points": iso_setup(N) for N in SIZES},
          requires=["spacing-positive :: self.distance > 0"],
          ensures=resampler_posts(("count-is-ceil-of-length-over-spacing-plus-one", iso_count))
          + [("step-not-longer-than-spacing", iso_step), ("zero-length-branch-gives-one-sample-else-at-least-two", iso_single)],
          options=dict(hints={"post/step-not-longer-than-spacing": iso_step_hint}),
          notes="input polyline of exactly 2, 3, 4 points per variant (all 4N numbers symbolic reals); spacing symbolic; "
                "number of output samples symbolic; adjust_last_gap=True (the default, the only mode the property quantifies over)")

    # ---------------------------------------------- BranchLinearResampler.resample
    def lin_setup(N):
        def f(S):
            from swcgeom.transforms.branch import BranchLinearResampler

            return dict(self=S.obj(BranchLinearResampler, n_nodes=S.int("n_nodes")), xyzr=xyzr_input(S, N))

        return f

    def lin_count(E, v, o):
        cols, n = res_view(v["result"])
        return n == to_z3(o["self"].fields["n_nodes"], "int")

    R.add(f"{BR}:BranchLinearResampler.resample", prop="C16",
          variants={f"polyline-of-{N}-points": lin_setup(N) for N in SIZES},
          requires=["at-least-two-target-points :: self.n_nodes >= 2"],
          ensures=resampler_posts(("exactly-the-requested-number-of-points", lin_count)),
          notes="input polyline of exactly 2, 3, 4 points per variant (all 4N numbers symbolic reals); target count symbolic >= 2")

    # ------------------------------------------------- BranchConvSmoother.__call__
    from contracts.common import COLS, col, nof, sym_tree

    def smoother_setup(S):
        from swcgeom.core import Branch
        from swcgeom.transforms.branch import BranchConvSmoother

        t = sym_tree(S, "t", frozen=True)
        idx = S.arr("int", name="bidx")
        idx.frozen = True
        j = z3.Int(fresh_name("j"))
        S.assume(z3.ForAll([j], z3.Implies(z3.And(j >= 0, j < idx.nz()), z3.And(idx.get(j).z >= 0, idx.get(j).z < nof(t)))))
        br = S.obj(Branch, attach=t, idx=idx, names=t.fields["names"], source="")
        br.frozen = True
        w = S.int("window")
        S.assume(w.z >= 1)
        kernel = S.arr("real", n=w, name="kernel")
        return dict(self=S.obj(BranchConvSmoother, n_nodes=w, kernel=kernel), x=br)

    def _out(v):
        r = v["result"]
        if not isinstance(r, Obj):
            return None
        a = r.fields.get("attach")
        if not isinstance(a, Obj) or not isinstance(a.fields.get("ndata"), PDict) or a.fields["ndata"].items is None:
            return None
        return r, a, a.fields["ndata"].items

    def sm_detached(E, v, o):
        got = _out(v)
        if got is None:
            return False
        r, a, nd = got
        x0 = o["x"]  # (the carrier rebinds the name x; the input is the entry snapshot, identified by allocation uid)
        if r.uid == x0.uid or r.uid in E.entry_uids or a.uid == x0.fields["attach"].uid or a.uid in E.entry_uids or a.fields["ndata"].uid in E.entry_uids:
            return False
        if set(nd) != set(COLS):
            return False
        return all(isinstance(c, SArr) and c.uid not in E.entry_uids for c in nd.values()) and len({c.uid for c in nd.values()}) == len(nd)

    def sm_count(E, v, o):
        r, a, nd = _out(v)
        L = o["x"].fields["idx"].nz()
        ridx = r.fields["idx"]
        j = z3.Int(fresh_name("j"))
        return z3.And(ridx.nz() == L, z3.ForAll([j], z3.Implies(z3.And(0 <= j, j < L), ridx.get(j).z == j)), *[c.nz() == L for c in nd.values()])

    def sm_kept(cname):
        def f(E, v, o):
            r, a, nd = _out(v)
            x0 = o["x"]
            idx, t = x0.fields["idx"], x0.fields["attach"]
            j = z3.Int(fresh_name("j"))
            return z3.ForAll([j], z3.Implies(z3.And(0 <= j, j < idx.nz()), nd[cname].get(j).z == z3.Select(col(t, cname).arr, idx.get(j).z)))

        return f

    def sm_chain(E, v, o):
        r, a, nd = _out(v)
        L = o["x"].fields["idx"].nz()
        j = z3.Int(fresh_name("j"))
        return z3.ForAll([j], z3.Implies(z3.And(0 <= j, j < L), z3.And(nd["id"].get(j).z == j, nd["pid"].get(j).z == j - 1)))

    def sm_ends(E, v, o):
        r, a, nd = _out(v)
        x0 = o["x"]
        idx, t = x0.fields["idx"], x0.fields["attach"]
        L = idx.nz()
        out = []
        for cname in "xyz":
            for p in (z3.IntVal(0), L - 1):
                out.append(nd[cname].get(p).z == z3.Select(col(t, cname).arr, idx.get(p).z))
        return z3.Implies(L >= 1, z3.And(*out))

    R.add(f"{BR}:BranchConvSmoother.__call__", prop="C16",
          setup=smoother_setup,
          ensures=[("works-on-a-detached-copy-in-fresh-storage", sm_detached),
                   ("node-count-kept", sm_count),
                   ("radii-unchanged", sm_kept("r")),
                   ("types-unchanged", sm_kept("type")),
                   ("connectivity-is-the-chain", sm_chain),
                   ("end-points-unchanged", sm_ends)],
          notes="branch of symbolic length on a tree of symbolic size, window symbolic; input tree, index array and branch object are "
                "frozen (any write to them is a failed frame obligation); scipy.signal.convolve only through its output length")

    # ------------------------------------------------ _BranchResampler.__call__
    # the user-facing call  Resampler(...)(branch): reads the branch through its window, resamples, builds a NEW branch
    def call_setup(kind, N):
        def f(S):
            from swcgeom.core import Branch
            from swcgeom.transforms.branch import BranchIsometricResampler, BranchLinearResampler

            t = sym_tree(S, "t", frozen=True)
            idx = NArr((N,), [S.int(f"bidx{k}") for k in range(N)], "int")
            idx.frozen = True
            for q in idx.items:
                S.assume(z3.And(q.z >= 0, q.z < nof(t)))
            br = S.obj(Branch, attach=t, idx=idx, names=t.fields["names"], source="")
            br.frozen = True
            if kind == "isometric":
                me = S.obj(BranchIsometricResampler, distance=S.real("distance"), adjust_last_gap=True)
            else:
                me = S.obj(BranchLinearResampler, n_nodes=S.int("n_nodes"))
            return dict(self=me, x=br, kind=kind)

        return f

    def call_pre(E, v, o):
        me = v["self"]
        if v["kind"] == "isometric":
            return to_z3(me.fields["distance"], "real") > 0
        return to_z3(me.fields["n_nodes"], "int") >= 2

    def _node(v, o, p):
        """(x, y, z, r) of node p of the input branch"""
        x0 = o["x"]
        t, idx = x0.fields["attach"], x0.fields["idx"]
        return [z3.Select(col(t, c).arr, to_z3(idx.items[p], "int")) for c in "xyzr"]

    def call_fresh(E, v, o):
        got = _out(v)
        if got is None:
            return False
        r, a, nd = got
        if r.uid in E.entry_uids or a.uid in E.entry_uids or set(nd) != set(COLS):
            return False
        return all(isinstance(c, SArr) and c.uid not in E.entry_uids for c in nd.values())

    def call_count(E, v, o):
        r, a, nd = _out(v)
        n = nd["x"].nz()
        me = o["self"]
        same = z3.And(r.fields["idx"].nz() == n, *[c.nz() == n for c in nd.values()])
        if v["kind"] == "linear":
            return z3.And(same, n == to_z3(me.fields["n_nodes"], "int"))
        N = o["x"].fields["idx"].shape[0]
        pts = [_node(v, o, p) for p in range(N)]
        L = z3.RealVal(0)
        for p in range(N - 1):
            sq = sum(((pts[p + 1][a_] - pts[p][a_]) * (pts[p + 1][a_] - pts[p][a_]) for a_ in range(3)), z3.RealVal(0))
            L = L + to_z3(E.sqrt(Sym(sq, "real"), nonneg_known=True), "real")
        q = L / to_z3(me.fields["distance"], "real")
        return z3.And(same, n >= 1, z3.ToReal(n) - 2 < q, q <= z3.ToReal(n) - 1)

    def call_ends(E, v, o):
        r, a, nd = _out(v)
        n = nd["x"].nz()
        N = o["x"].fields["idx"].shape[0]
        first, last = _node(v, o, 0), _node(v, o, N - 1)
        out = [nd[c].get(0).z == first[j] for j, c in enumerate("xyz")]
        out += [nd[c].get(n - 1).z == last[j] for j, c in enumerate("xyzr")]
        return z3.And(n >= 1, *out)

    def call_chain(E, v, o):
        r, a, nd = _out(v)
        n = nd["x"].nz()
        j = z3.Int(fresh_name("j"))
        return z3.ForAll([j], z3.Implies(z3.And(0 <= j, j < n), z3.And(nd["id"].get(j).z == j, nd["pid"].get(j).z == j - 1, r.fields["idx"].get(j).z == j)))

    R.add(f"{BR}:_BranchResampler.__call__", prop="C16",
          variants={f"{kind}-branch-of-{N}-nodes": call_setup(kind, N) for kind in ("isometric", "linear") for N in SIZES},
          requires=[("spacing-positive-or-at-least-two-target-points", call_pre)],
          ensures=[("result-is-a-new-branch-in-fresh-storage", call_fresh),
                   ("node-count", call_count),
                   ("end-points-kept", call_ends),
                   ("nodes-chained-in-order", call_chain)],
          notes="branch of exactly 2, 3, 4 nodes (variants) attached to a tree of symbolic size through symbolic node indices; "
                "input tree / index array / branch frozen; resample() is inlined")

    # ------------------------------------------------ BranchTreeAssembler.__call__
    register_assembler(R)


BT = "swcgeom/transforms/branch_tree.py"
ATTRS = ("type", "x", "y", "z", "r")
EPS = "1/1000000"


def _frozen(v):
    v.frozen = True
    return v


def _swc_cols(S, name, n, ids=None, pids=None):
    cols = {}
    for c, k in dict(id="int", type="int", x="real", y="real", z="real", r="real", pid="int").items():
        if c == "id" and ids is not None:
            items = list(ids)
        elif c == "pid" and pids is not None:
            items = list(pids)
        else:
            items = [S.int(f"{name}_{c}{i}") if k == "int" else S.real(f"{name}_{c}{i}") for i in range(n)]
        cols[c] = _frozen(NArr((n,), items, k))
    return cols


def branch_tree_input(S, pids, sizes):
    """A BranchTree with the concrete topology `pids` (node j+1 hangs under pids[j+1]; one child per junction here) and,
    for every edge, a resampled branch of sizes[edge] points with fully symbolic attributes."""
    from swcgeom.core import Branch, BranchTree, DictSWC
    from swcgeom.core.swc_utils import get_names, get_types

    n = len(pids)
    nd = _frozen(PDict(_swc_cols(S, "J", n, ids=range(n), pids=pids)))
    x = S.obj(BranchTree, ndata=nd, names=get_names(), types=get_types(), source="", comments=PList([]))
    x.frozen = True
    branches = {}
    blist = []
    for child in range(1, n):
        q = sizes[child - 1]
        bnd = _frozen(PDict(_swc_cols(S, f"B{child}", q)))
        att = S.obj(DictSWC, ndata=bnd, names=get_names(), types=get_types(), source="", comments=PList([]))
        att.frozen = True
        br = S.obj(Branch, attach=att, idx=_frozen(NArr((q,), list(range(q)), "int")), names=get_names(), source="")
        br.frozen = True
        branches.setdefault(pids[child], []).append(br)
        blist.append((pids[child], child, br))
    bd = PDict({k: _frozen(PList(v)) for k, v in branches.items()})
    bd.frozen = True
    x.fields["branches"] = bd
    return x, blist


def register_assembler(R):
    def setup(pids, sizes):
        def f(S):
            from swcgeom.transforms.branch_tree import BranchTreeAssembler

            x, blist = branch_tree_input(S, pids, sizes)
            return dict(self=S.obj(BranchTreeAssembler), x=x, blist=blist)

        return f

    def val(colv, i):
        return to_z3(colv.items[i], colv.kind)

    def ends_coincide(E, v, o):
        """both end points of every resampled branch lie on their junction nodes (within the assembler's EPS)"""
        x = v["x"]
        J = x.fields["ndata"].items
        out = []
        for (p, c, br) in v["blist"]:
            B = br.fields["attach"].fields["ndata"].items
            q = B["x"].shape[0]
            for (bi, ji) in ((0, p), (q - 1, c)):
                sq = sum(((val(B[a], bi) - val(J[a], ji)) * (val(B[a], bi) - val(J[a], ji)) for a in "xyz"), z3.RealVal(0))
                out.append(to_z3(E.sqrt(Sym(sq, "real"), nonneg_known=True), "real") < z3.RealVal(EPS))
        return z3.And(*out)

    def expected_rows(v):
        """the rows the property demands, in emission order: (attribute source, new id, new pid)"""
        x = v["x"]
        J = x.fields["ndata"].items
        rows = [((J, 0), 0, -1)]
        new_id = {0: 0}
        # junctions are visited in the order of a stack: with one child per junction this is the chain order
        for (p, c, br) in v["blist"]:
            B = br.fields["attach"].fields["ndata"].items
            q = B["x"].shape[0]
            prev = new_id[p]
            for i in range(1, q - 1):  # the q-2 interior samples, none dropped
                rows.append(((B, i), len(rows), prev))
                prev = len(rows) - 1
            rows.append(((J, c), len(rows), prev))
            new_id[c] = len(rows) - 1
        return rows

    def _res(v):
        r = v["result"]
        if not isinstance(r, Obj):
            return None
        nd = r.fields.get("ndata")
        if not isinstance(nd, PDict) or nd.items is None or set(nd.items) != {"id", "type", "x", "y", "z", "r", "pid"}:
            return None
        if not all(isinstance(c, NArr) and c.ndim == 1 for c in nd.items.values()):
            return None
        return nd.items

    def post_count(E, v, o):
        cols = _res(v)
        if cols is None:
            return False
        n = len(expected_rows(o))
        return all(c.shape == (n,) for c in cols.values())

    def post_rows(E, v, o):
        cols = _res(v)
        rows = expected_rows(o)
        if cols is None or any(c.shape != (len(rows),) for c in cols.values()):
            return False
        out = []
        for k, ((src, i), nid, npid) in enumerate(rows):
            out.append(val(cols["id"], k) == nid)
            out.append(val(cols["pid"], k) == npid)
            for a in ATTRS:
                out.append(to_z3(cols[a].items[k], src[a].kind) == val(src[a], i))
        return z3.And(*out)

    def post_is_tree(E, v, o):
        from swcgeom.core import Tree

        r = v["result"]
        return isinstance(r, Obj) and r.cls is Tree and r.uid not in E.entry_uids

    VARIANTS = {}
    for q in (2, 3, 4):
        VARIANTS[f"stem-with-{q}-samples"] = setup([-1, 0], [q])
    for q1, q2 in ((2, 3), (3, 2), (3, 3), (4, 3)):
        VARIANTS[f"two-branches-in-sequence-{q1}-{q2}-samples"] = setup([-1, 0, 1], [q1, q2])

    R.add(f"{BT}:BranchTreeAssembler.__call__", prop="C16",
          variants=VARIANTS,
          requires=[("branch-end-points-lie-on-their-junctions", ends_coincide)],
          ensures=[("result-is-a-new-tree", post_is_tree),
                   ("node-count-is-junctions-plus-all-interior-samples", post_count),
                   ("rows-are-interior-samples-then-end-junction-chained-by-pid", post_rows)],
          notes="fixed shapes per variant: a root with one branch of q in {2,3,4} resampled points, and two branches in sequence "
                "(junction 0 -> 1 -> 2) of (q1,q2) points; all coordinates, radii and types symbolic; every input object frozen. "
                "pair() is inlined (1 x 1 distance matrix per junction); trees with several branches per junction stay bounded-only")
